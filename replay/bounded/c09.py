"""C09 bounded stand-ins: import / include resolution, once-per-build evaluation and import cycles on the real `ucg build`.

Every case is a generated PROJECT TREE (2..8 .ucg files + small .txt data files in nested directories below a fresh
tempfile.mkdtemp() directory) whose main file ends in `out json {...};`.  Each project is built with the real CLI three times:
from the project root, from a nested directory of the project and from an unrelated directory (main file passed by relative /
absolute path as fits).  Around the project DECOY files are planted at every place a relative path string of the project would
name if it were (wrongly) resolved against one of the three working directories or against the main file's directory instead of
the importing file's directory; decoys carry other values, a string shape and `TRACE "DECOY"`.

Oracle (property statement + reference/expressions.md "Import Expressions", "Include expressions", "Modules", "Fail Expression",
"Trace Expression"; never ucg's implementation):
  (a) exit status and artifact bytes are the same from all three working directories; the artifact (next to the main file, parsed as
      JSON) equals the value a Python reference computes by resolving every path string lexically against the directory of the FILE
      THAT CONTAINS it; the text DECOY never shows up anywhere.  For projects whose main file ends in
      `fail "FAILMSG[@]" % (<import/include>)` the build must fail and the error text must carry FAILMSG[<reference value>].
  (b) every project file has `let t = TRACE "<tag>";`: a file reached through evaluated positions prints exactly one TRACE line per build
      however often / under however many spellings it is imported (a file reached only through a let constraint: at most one).
  (c) a project whose import graph has a cycle through evaluated positions ends (within 60 s next to 7 other builds, else within 120 s alone, see run_all) with exit status > 0 (not 134/139/a signal)
      and a diagnostic that contains "cycle" (any case).
Positions covered: top-level let (whole tuple and selector), tuple field, list element, select arm, function body, map / filter / reduce
callback, callback nested in a function / in a module, module body (expression and `let x = import` statement), module out expression,
let constraint, fail message.  Spellings: plain, ./, ./././, a/./b, child/../, ../self/, a/../a/, mixtures (+ absolute in one family).
Bounded: exactly the enumerated projects; never a proof."""
import concurrent.futures
import json
import threading
import time
import os
import posixpath
import random
import re
import shutil
import subprocess
import tempfile
import zlib

import realcode as R

TIMEOUT = 60          # seconds per build while up to WORKERS projects run in parallel (the machine may be heavily loaded)
TIMEOUT_ALONE = 120   # the FIRST build that timed out is repeated once with nothing else of this module running
WORKERS = 8
ABORT_AFTER = 2       # once this many builds of a stand-in have timed out, its remaining builds are not started / are stopped
UNRELATED = 'other/u1/u2/u3/u4/u5'     # deep enough that `../../../..` from it stays inside the temp directory
DECOY_V = 900001
ROOTMARK = '@ROOT@'   # absolute spellings: replaced by the project root when the files are written

# positions an import expression is put at / positions an include expression is put at
IMPORT_POS = ['top', 'topsel', 'tuple', 'list', 'selectarm', 'func', 'map', 'filter', 'reduce', 'mapfunc', 'modbody', 'modlet', 'modout',
              'modmap', 'letc', 'fail', 'fmtexpr', 'fmtarg']
INCLUDE_POS = [p for p in IMPORT_POS if p not in ('top', 'modlet', 'letc')]
NOT_EAGER = ('letc', 'fail')
EAGER_IMPORT_POS = [p for p in IMPORT_POS if p not in NOT_EAGER]
EAGER_INCLUDE_POS = [p for p in INCLUDE_POS if p not in NOT_EAGER]

# Inputs of the families below on which the real code (pinned HEAD) violates the property; projects of a listed class are skipped.
# Empty on the current HEAD.  History: the class 'cycle-through-dotdot' (a cyclic project in which an import expression ON the cycle is
# spelled with a `..` segment, i.e. nearly every cycle that crosses directories) was found by this module: both cycle checks compared
# un-normalised joined paths, so `/p/app/../lib/../app/main.ucg` was not recognised as `/p/app/main.ucg`; a.ucg `let b = import "lib/b.ucg";`
# + lib/b.ucg `let a = import "../a.ucg";` overflowed the stack (SIGABRT), through a selector / callback / module the files were re-imported
# until the path exceeded PATH_MAX ("File name too long (os error 36)").  Fixed in /repo by 3b19e40; the class is checked again.
KNOWN = []


def known(pr):
    """pr has been annotated by reference()"""
    if 'cycle-through-dotdot' in KNOWN and pr['cyclic']:
        nxt = {f['path']: set(e['tgt'] for e in f['edges'] if e['kind'] == 'import') for f in pr['files']}

        def reaches(a, b):
            seen, todo = set(), [a]
            while todo:
                x = todo.pop()
                if x == b:
                    return True
                if x not in seen:
                    seen.add(x)
                    todo.extend(nxt[x])
            return False
        for f in pr['files']:
            for e in f['edges']:
                if e['kind'] == 'import' and '..' in e['spell'].split('/') and reaches(e['tgt'], f['path']):
                    return True
    return False


# ----------------------------------------------------------------------------------------------- project model
def F(path, v, edges=()):
    """a .ucg file: path relative to the project root, own value, edges = [(kind, spelling, position[, alias]), ...] in statement order;
    alias True/False: the import reads the binding s_<target path> that only the right file has / the common binding s (default: every third)"""
    return dict(path=path, v=v, edges=[dict(kind=e[0], spell=e[1], pos=e[2], alias=(e[3] if len(e) > 3 else None)) for e in edges])


def project(name, files, data=None, nested=None, cyclic=False, args=None):
    """files[0] is the main file; data = {path: n} are text files with content k<n>; nested = the nested working directory"""
    dirs = project_dirs([f['path'] for f in files] + list(data or {}))
    if nested is None:
        nested = sorted(d for d in dirs if d)[0] if any(dirs) else ''
    return dict(name=name, files=files, data=dict(data or {}), nested=nested, cyclic=cyclic, args=args or {})


def project_dirs(paths):
    dirs = set([''])
    for p in paths:
        d = posixpath.dirname(p)
        while d:
            dirs.add(d)
            d = posixpath.dirname(d)
    return dirs


def resolve(importer, spell):
    """THE reference rule: a path string names a file relative to the directory of the file that contains it (lexically normalised)."""
    if spell.startswith(ROOTMARK + '/'):
        return posixpath.normpath(spell[len(ROOTMARK) + 1:])
    return posixpath.normpath(posixpath.join(posixpath.dirname(importer), spell))


def contribution(pos, s):
    return {'top': s, 'topsel': s, 'tuple': s, 'list': s, 'selectarm': s, 'func': 2 * s + 1, 'map': 2 * s + 1, 'filter': s, 'reduce': 2 * s + 3,
            'mapfunc': s, 'modbody': 2 * s + 3, 'modlet': 2 * s + 3, 'modout': 2 * s + 3, 'modmap': s + 1, 'letc': 5, 'fmtexpr': s, 'fmtarg': s}[pos]


def ident(path):
    return re.sub(r'[^a-zA-Z0-9]', '_', path)


def tag(path):
    return 'T_' + ident(path) + '_'


# typed probes: a second, top-level use of an imported file in an operation that only type-checks against the right file
PROBES = ['name', 'cfg', 'chk', 'lst']


def probe_expected(kind, path, v):
    return {'name': 'n_%sx' % ident(path), 'cfg': v + 1, 'chk': v, 'lst': [v, 1]}[kind]


def reference(pr):
    """Annotates every edge with its target and the target's value; returns {path: value of binding s or None (never completes)}."""
    byp = {f['path']: f for f in pr['files']}
    memo, is_open = {}, set()

    def val(path):
        if path in memo:
            return memo[path]
        if path in is_open:
            return None                                  # the chain came back to a file still being imported
        is_open.add(path)
        f, total, ok = byp[path], byp[path]['v'], True
        for k, e in enumerate(f['edges']):
            tgt = resolve(path, e['spell'])
            if e['kind'] == 'import':
                assert tgt in byp, 'generator error: %s imports %s -> %s, not a project file' % (path, e['spell'], tgt)
                s = val(tgt)
            else:
                assert tgt in pr['data'], 'generator error: %s includes %s -> %s, not a data file' % (path, e['spell'], tgt)
                s = pr['data'][tgt]
            e['tgt'], e['s'] = tgt, s
            e['probe'] = None
            # every third import names the binding that only the right file has (s_<its path>) instead of the common `s`
            alias = e.get('alias') if e.get('alias') is not None else k % 3 == 2
            e['field'] = 's_' + ident(tgt) if e['kind'] == 'import' and alias else 's'
            if s is None or e['pos'] == 'fail':
                ok = False
            elif ok:
                e['c'] = contribution(e['pos'], s)
                total += e['c']
                if e['kind'] == 'import' and e['pos'] != 'letc':
                    kind = PROBES[(k + len(path)) % len(PROBES)]
                    e['probe'] = (kind, probe_expected(kind, tgt, byp[tgt]['v']))
        is_open.discard(path)
        memo[path] = total if ok else None
        return memo[path]

    val(pr['files'][0]['path'])
    for f in pr['files']:           # files that are not reachable still need annotated edges to be rendered
        val(f['path'])
    return memo


def render_edge(k, e):
    sp = e['spell']
    s = e['s'] if e['s'] is not None else 1
    if e['kind'] == 'import':
        x = '(import "%s").%s' % (sp, e['field'])
    else:
        x = '(select (include str "%s", 0) => { k%d = %d })' % (sp, s, s)
    # u: the binding only the right file has; a let-bound import (top, modlet) always reads it as well
    d = dict(k=k, x=x, p=sp, s=s, s1=s + 1, f=e['field'], u='s_' + ident(e['tgt']), xq=x.replace('"', '\\"'))
    t = {
        'top': 'let i%(k)d = import "%(p)s";\nlet e%(k)d = i%(k)d.%(f)s;\nlet a%(k)d = i%(k)d.%(u)s;\n',
        'topsel': 'let e%(k)d = %(x)s;\n',
        'tuple': 'let tp%(k)d = {a = 1, b = %(x)s};\nlet e%(k)d = tp%(k)d.b;\n',
        'list': 'let ls%(k)d = [0, %(x)s];\nlet e%(k)d = ls%(k)d.1;\n',
        'selectarm': 'let e%(k)d = select ("yes", 0) => { yes = %(x)s, no = 1 };\n',
        'func': 'let g%(k)d = func (q) => %(x)s + q;\nlet e%(k)d = g%(k)d(0) + g%(k)d(1);\n',
        'map': 'let l%(k)d = map(func (q) => %(x)s + q, [0, 1]);\nlet e%(k)d = l%(k)d.0 + l%(k)d.1;\n',
        'filter': 'let l%(k)d = filter(func (q) => q == %(x)s, [%(s)d, %(s1)d]);\nlet e%(k)d = l%(k)d.0;\n',
        'reduce': 'let e%(k)d = reduce(func (acc, q) => acc + %(x)s + q, 0, [1, 2]);\n',
        'mapfunc': 'let g%(k)d = func (q) => map(func (r) => %(x)s + r, [q]);\nlet l%(k)d = g%(k)d(0);\nlet e%(k)d = l%(k)d.0;\n',
        'modbody': 'let m%(k)d = module {a = 0} => (r) { let r = %(x)s + mod.a; };\nlet e%(k)d = m%(k)d{a = 1} + m%(k)d{a = 2};\n',
        'modlet': 'let m%(k)d = module {a = 0} => (r) { let imp = import "%(p)s"; let own = imp.%(u)s; let r = imp.%(f)s + mod.a; };\nlet e%(k)d = m%(k)d{a = 1} + m%(k)d{a = 2};\n',
        'modout': 'let m%(k)d = module {a = 0} => (%(x)s + mod.a) { let unused = 1; };\nlet e%(k)d = m%(k)d{a = 1} + m%(k)d{a = 2};\n',
        'modmap': 'let m%(k)d = module {a = 0} => (r) { let l = map(func (q) => %(x)s + q, [mod.a]); let r = l.0; };\nlet e%(k)d = m%(k)d{a = 1};\n',
        'letc': 'let e%(k)d :: ((import "%(p)s").shp) = 5;\n',
        'fail': 'let e%(k)d = fail "FAILMSG[@]" %% (%(x)s);\n',
        # an expression embedded in a format template (parsed when the format expression is translated)
        'fmtexpr': 'let fs%(k)d = "@{%(xq)s + item}" %% 0;\nlet e%(k)d = int(fs%(k)d);\n',
        # the ARGUMENT of an expression format (evaluated in the scope the format expression opens)
        'fmtarg': 'let fa%(k)d = "@{item.0 + 0}" %% [%(x)s];\nlet e%(k)d = int(fa%(k)d);\n',
    }[e['pos']] % d
    if e['probe']:
        t += {'name': 'let w%(k)d = (import "%(p)s").name + "x";\n',
              'cfg': 'let w%(k)d = (import "%(p)s").cfg.port + 1;\n',
              'chk': 'let w%(k)d = chk((import "%(p)s").v);\n',
              'lst': 'let w%(k)d = (import "%(p)s").lst + [1];\n'}[e['probe'][0]] % d
    return t


def render_file(f, main):
    i = ident(f['path'])
    src = ('let v = %d;\nlet shp = 0;\nlet name = "n_%s";\nlet cfg = {port = %d, host = "h_%s"};\nlet lst = [%d];\nlet chk = func (a :: 0) => a + 0;\nlet t = TRACE "%s";\n'
           % (f['v'], i, f['v'], i, f['v'], tag(f['path'])))
    names, probes = [], []
    for k, e in enumerate(f['edges']):
        src += render_edge(k, e)
        if e['pos'] != 'fail':
            names.append('e%d' % k)
        if e['probe']:
            probes.append('w%d' % k)
    src += 'let s = %s;\nlet s_%s = s;\n' % (' + '.join(['v'] + names), i)
    if main:
        src += 'out json {s = s, v = v, es = [%s], ws = [%s]};\n' % (', '.join(names), ', '.join(probes))
    return src


# Decoys differ from every project file in TYPE (0: strings for ints, list for tuple, tuple for list; 1: tuples / lists / ints the other way
# round; 2: the bindings are missing) or only in VALUE (3); none has the s_<path> binding.  Which one lands where depends on the path.
DECOY_UCG = [
    'let v = "DECOY";\nlet s = "DECOY";\nlet name = 1;\nlet cfg = [1];\nlet lst = {a = 1};\nlet chk = 1;\nlet shp = "DECOY";\nlet t = TRACE "DECOY";\n',
    'let v = {d = 1};\nlet s = {d = "DECOY"};\nlet name = ["DECOY"];\nlet cfg = "DECOY";\nlet lst = 1;\nlet chk = "DECOY";\nlet shp = [1];\nlet t = TRACE "DECOY";\n',
    'let other = %d;\nlet shp = "DECOY";\nlet t = TRACE "DECOY";\n' % DECOY_V,
    ('let v = %d;\nlet s = %d;\nlet name = "DECOY";\nlet cfg = {port = %d, host = "DECOY"};\nlet lst = [%d];\nlet chk = func (a :: 0) => a + %d;\nlet shp = "DECOY";\nlet t = TRACE "DECOY";\n'
     % (DECOY_V, DECOY_V, DECOY_V, DECOY_V, DECOY_V)),
]
DECOY_TXT = 'kDECOY'


def decoy_ucg(pr, relpath):
    fixed = pr['args'].get('decoy')
    return DECOY_UCG[fixed if fixed is not None else zlib.crc32(relpath.encode()) % len(DECOY_UCG)]


def materialise(pr, tmp):
    """Writes the project below tmp/proj, the decoys around it; returns (files written, decoys written, builds)."""
    root = posixpath.join(tmp, 'proj')
    written, decoys = {}, {}
    for i, f in enumerate(pr['files']):
        written[f['path']] = render_file(f, i == 0).replace(ROOTMARK, root)
    for p, n in pr['data'].items():
        written[p] = 'k%d' % n
    for p, txt in written.items():
        os.makedirs(posixpath.dirname(posixpath.join(root, p)), exist_ok=True)
        with open(posixpath.join(root, p), 'w') as fh:
            fh.write(txt)
    main = pr['files'][0]['path']
    unrelated = posixpath.join(tmp, UNRELATED)
    nested = posixpath.join(root, pr['nested']) if pr['nested'] else root
    os.makedirs(unrelated, exist_ok=True)
    os.makedirs(nested, exist_ok=True)
    # wrong bases: the three working directories and EVERY directory of the project (the main file's, those of all files on an import chain,
    # their ancestors)
    wrong_bases = [root, nested, unrelated] + [posixpath.join(root, d) for d in sorted(project_dirs(list(written))) if d]
    for f in pr['files']:
        here = posixpath.normpath(posixpath.join(root, posixpath.dirname(f['path'])))
        for e in f['edges']:
            if e['spell'].startswith(ROOTMARK):
                continue
            for wb in wrong_bases:
                if posixpath.normpath(wb) == here:
                    continue
                p = posixpath.normpath(posixpath.join(wb, e['spell']))
                if not p.startswith(tmp + '/'):
                    continue
                if p.startswith(root + '/') and p[len(root) + 1:] in written:
                    continue
                decoys[p[len(tmp) + 1:]] = decoy_ucg(pr, p[len(tmp) + 1:]) if e['kind'] == 'import' else DECOY_TXT
    for p, txt in decoys.items():
        os.makedirs(posixpath.dirname(posixpath.join(tmp, p)), exist_ok=True)
        with open(posixpath.join(tmp, p), 'w') as fh:
            fh.write(txt)
    a = pr['args']
    absmain = posixpath.join(root, main)
    builds = [('project root', root, ('./' + main) if a.get('root') == 'dot' else main),
              ('nested directory ' + (pr['nested'] or '.'), nested, absmain if a.get('nested') == 'abs' else posixpath.relpath(absmain, nested)),
              ('unrelated directory with decoys', unrelated, posixpath.relpath(absmain, unrelated) if a.get('unrelated') == 'rel' else absmain)]
    return written, decoys, builds


def classify(pr, memo):
    main = pr['files'][0]
    if memo[main['path']] is not None:
        return 'value'
    if pr['cyclic']:
        return 'cycle'
    if main['edges'] and main['edges'][-1]['pos'] == 'fail' and all(e['s'] is not None for e in main['edges']):
        return 'fail'
    return 'failweak'


def must_evaluate(pr):
    """files reached from the main file through positions that are evaluated (everything except let constraints)"""
    byp = {f['path']: f for f in pr['files']}
    seen, todo = set(), [pr['files'][0]['path']]
    while todo:
        p = todo.pop()
        if p in seen:
            continue
        seen.add(p)
        for e in byp[p]['edges']:
            if e['kind'] == 'import' and e['pos'] != 'letc':
                todo.append(e['tgt'])
    return seen


class Control:
    """shared by the builds of one stand-in run: counts builds that timed out; once ABORT_AFTER of them have, the rest is not run"""

    def __init__(self, limit=ABORT_AFTER):
        self.lock = threading.Lock()
        self.timeouts = 0
        self.limit = limit

    def note_timeout(self):
        with self.lock:
            self.timeouts += 1

    def aborted(self):
        return self.timeouts >= self.limit


def run_build(args, cwd, timeout, ctl=None):
    """the real `ucg <args>` in cwd -> (rc, stdout, stderr); rc is 'timeout' after `timeout` seconds, 'aborted' when ctl says that enough other builds
    have timed out (the process is killed in both cases)"""
    p = subprocess.Popen([R.ucg_binary()] + args, cwd=cwd, stdout=subprocess.PIPE, stderr=subprocess.PIPE, text=True)
    t0 = time.time()
    while True:
        try:
            so, se = p.communicate(timeout=min(1.0, max(0.05, timeout)))
            return p.returncode, so, se
        except subprocess.TimeoutExpired:
            late = time.time() - t0 > timeout
            if late or (ctl is not None and ctl.aborted()):
                p.kill()
                try:
                    p.communicate(timeout=10)
                except Exception:
                    pass
                return ('timeout' if late else 'aborted'), '', ''


def run_project(pr, timeout=None, final=False, ctl=None, only_build=None):
    """Builds one project from the three working directories; returns None, a violation description (dict with `detail`), {'error': ...} (harness
    problem) or a marker: {'retry': True, 'build': k} (build k timed out, not final: to be looked at alone), {'skipped': True} (enough other builds of the
    stand-in had timed out), {'finished': True} (only_build=k: that one build came to an end; nothing is judged).
    final: a build that times out is judged (cyclic project: violation; acyclic: harness error) and ends the project."""
    timeout = timeout or TIMEOUT
    memo = reference(pr)
    kind = classify(pr, memo)
    main = pr['files'][0]
    tmp = tempfile.mkdtemp(prefix='verif_c09_')
    try:
        written, decoys, builds = materialise(pr, tmp)
        root = posixpath.join(tmp, 'proj')
        art = posixpath.join(root, re.sub(r'\.ucg$', '.json', main['path']))
        obs = []
        for bi, (label, cwd, arg) in enumerate(builds):
            if only_build is not None and bi != only_build:
                continue
            if ctl is not None and ctl.aborted():
                return dict(skipped=True)
            if os.path.exists(art):
                os.remove(art)
            rc, so, se = run_build(['build', arg], cwd, timeout, ctl)
            if rc == 'aborted':
                return dict(skipped=True)
            if rc == 'timeout':
                if ctl is not None:
                    ctl.note_timeout()
                if not final:
                    return dict(retry=True, build=bi)
                se = 'no result within %g s' % timeout
            elif only_build is not None:
                return dict(finished=True)
            data = open(art).read() if os.path.exists(art) else None
            obs.append(dict(label=label, cwd=cwd, arg=arg, rc=rc, out=so + se, stderr=se, art=data))
            if rc == 'timeout':
                break               # judged below; the other working directories are not tried
        if os.path.exists(art):
            os.remove(art)

        def bad(o, expected, what):
            return dict(project=pr['name'], kind=kind, detail='%s: `ucg build %s` from the %s: %s' % (pr['name'], o['arg'], o['label'], what),
                        source={p: t for p, t in sorted(written.items())}, decoys={p: t for p, t in sorted(decoys.items())},
                        expected=expected, observed='exit status %s, artifact %s, output: %s' % (o['rc'], o['art'] if o['art'] is None else o['art'].replace('\n', ' '), o['out'][-700:]),
                        how='files below <tmp>/proj/, decoys below <tmp>/, cwd=%s, command `ucg build %s` (<tmp> was %s)' % (o['cwd'].replace(tmp, '<tmp>'), o['arg'].replace(tmp, '<tmp>'), tmp))

        if kind == 'cycle':
            exp = 'exit status > 0, a diagnostic that mentions an import cycle, no crash, no endless recursion'
            for o in obs:
                if o['rc'] == 'timeout':
                    return bad(o, exp, 'no result within %g s (%s)' % (timeout, 'also when run alone' if only_build is not None else 'second run of the stand-in, 4 builds at a time'))
                if o['rc'] in (134, 139) or o['rc'] < 0:
                    return bad(o, exp, 'the process crashed (status %s) instead of reporting the cycle' % o['rc'])
                if o['rc'] == 0:
                    return bad(o, exp, 'a project with an import cycle built successfully')
                if 'cycle' not in o['out'].lower():
                    return bad(o, exp, 'the build failed without naming an import cycle')
                if 'DECOY' in o['out']:
                    return bad(o, exp, 'a DECOY file was read')
            return None
        for o in obs:
            if o['rc'] == 'timeout':        # the statement gives no time bound for an acyclic build: a harness problem, not a violation
                return dict(error='%s: `ucg build %s` from the %s gave no result within %g s (%s)' % (pr['name'], o['arg'], o['label'], timeout,
                                                                                                    'although it ran alone' if only_build is not None else 'second run of the stand-in, 4 builds at a time'))
            if 'DECOY' in o['out'] or 'DECOY' in (o['art'] or '') or str(DECOY_V) in (o['art'] or ''):
                return bad(o, 'only files relative to the importing file are read', 'a DECOY file (resolved against another directory) was read')
        if kind == 'value':
            exp = dict(s=memo[main['path']], v=main['v'], es=[e['c'] for e in main['edges']], ws=[e['probe'][1] for e in main['edges'] if e['probe']])
            need = must_evaluate(pr)
            for o in obs:
                if o['rc'] != 0 or o['art'] is None:
                    return bad(o, 'exit 0 and artifact %s' % json.dumps(exp), 'the build failed / wrote no artifact next to the main file')
                try:
                    got = json.loads(o['art'])
                except ValueError:
                    got = None
                if got != exp:
                    return bad(o, 'artifact %s (every path resolved against the directory of the file that contains it)' % json.dumps(exp), 'the artifact has another value')
                if o['art'] != obs[0]['art']:
                    return bad(o, 'the same artifact bytes as from the project root', 'the artifact differs between working directories')
                for f in pr['files']:
                    n = sum(1 for ln in o['stderr'].split('\n') if ln.startswith('TRACE') and tag(f['path']) in ln)
                    if n > 1 or (n != 1 and f['path'] in need):
                        return bad(o, 'exactly one TRACE line of %s (evaluated once per build)' % f['path'], '%d TRACE lines of %s' % (n, f['path']))
            return None
        # fail message
        toks = [re.findall(r'FAILMSG\[([^\]]*)\]', o['out']) for o in obs]
        fe = [e for f in pr['files'] for e in f['edges'] if e['pos'] == 'fail']
        want = str(fe[0]['s']) if len(fe) == 1 and fe[0]['s'] is not None else None
        for o, tk in zip(obs, toks):
            if o['rc'] == 0:
                return bad(o, 'exit status > 0 (a fail expression is reached)', 'the build succeeded')
            if o['rc'] != obs[0]['rc'] or set(tk) != set(toks[0]):
                return bad(o, 'the same outcome as from the project root (%s, %s)' % (obs[0]['rc'], toks[0]), 'the outcome depends on the working directory')
            if want is not None and ((kind == 'fail' and not tk) or any(t != want for t in tk)):
                return bad(o, 'error text carrying FAILMSG[%s]' % want, 'the fail message was built from another file / is missing: %s' % tk)
        return None
    finally:
        shutil.rmtree(tmp, ignore_errors=True)


# a hang that was confirmed with the build running alone is not looked for again by the stand-ins that follow in the same process:
# cyclic projects are then left out (the violation has been reported); a stand-in asked again after a confirmed hang gives the same answer
HANG = {}


def _pool(projects, workers, timeout, final):
    ctl = Control()
    with concurrent.futures.ThreadPoolExecutor(max_workers=workers) as ex:
        return list(ex.map(lambda p: run_project(p, timeout=timeout, final=final, ctl=ctl), projects))


def run_all(name, bound, projects):
    """Time bound (a tree whose builds never return must not cost more than ~5 minutes per stand-in): the pool stops starting / kills builds once
    ABORT_AFTER builds have timed out (<= TIMEOUT + a second); then ONE build -- the first that timed out -- is repeated alone for TIMEOUT_ALONE seconds.
    Still no end: violation (cyclic project) / harness error (acyclic), at once.  It ends (the machine was slow): the whole stand-in is run once more,
    4 builds at a time with doubled time-outs, and whatever that gives is reported (a time-out there is final; again at most ABORT_AFTER of them)."""
    if (name, bound) in HANG:
        return dict(HANG[(name, bound)])
    bound0, confirmed = bound, False
    for p in projects:
        reference(p)
    total = len(projects)
    projects = [p for p in projects if not known(p)]
    note = '; %d more skipped as KNOWN %s' % (total - len(projects), KNOWN) if total > len(projects) else ''
    if HANG.get('cyclic'):
        k = len(projects)
        projects = [p for p in projects if not p['cyclic']]
        note += '; %d cyclic projects left out: a cyclic build that never ends was already reported by the stand-in `%s` of this run' % (k - len(projects), HANG['cyclic'])
    R.ucg_binary()
    res = _pool(projects, WORKERS, TIMEOUT, False)
    retry = [i for i, r in enumerate(res) if r is not None and r.get('retry')]
    if retry and not any(r is not None and 'detail' in r for r in res):
        i = retry[0]
        r1 = run_project(projects[i], timeout=TIMEOUT_ALONE, final=True, only_build=res[i]['build'])
        if r1 is not None and r1.get('finished'):
            res = _pool(projects, 4, 2 * TIMEOUT, True)
            note += '; run twice: builds timed out in the first run (%d at a time) but one of them ended when repeated alone' % WORKERS
        else:
            res, confirmed = [r1], True
            if r1 is not None and 'detail' in r1:
                HANG['cyclic'] = name
    ran = [r for r in res if r is None or not (r.get('skipped') or r.get('retry'))]
    n = 3 * len(ran)
    if len(ran) < len(projects):
        note += '; %d of the projects were not (completely) built: %d builds had timed out' % (len(projects) - len(ran), ABORT_AFTER)
    bound = '%s [%d projects x 3 working directories%s]' % (bound, len(projects), note)
    out = None
    for r in res:
        if r is not None and 'detail' in r:
            out = dict(name=name, bound=bound, cases=n, status='violation', detail=r['detail'][:700],
                       input=dict(source=r['source'], decoys=r['decoys'], expected=r['expected'], observed=r['observed'], how=r['how']))
            break
    if out is None:
        for r in res:
            if r is not None and 'error' in r:
                out = dict(name=name, bound=bound, cases=n, status='error', detail=r['error'][:700])
                break
    if out is None:
        return dict(name=name, bound=bound, cases=n, status='ok')
    if confirmed:
        HANG[(name, bound0)] = out  # confirmed alone: the same answer if the stand-in is asked again
    return out


# ----------------------------------------------------------------------------------------------- spellings
STYLES = ['plain', 'dot', 'dots', 'middot', 'downup', 'updown', 'segdup', 'segdup_last', 'mix1', 'mix2']


def spell(style, dirs, importer, target):
    """One spelling of `target` as seen from the file `importer` (both project relative); only existing directories are named."""
    idir = posixpath.dirname(importer)
    base = posixpath.relpath(target, idir or '.')
    segs = base.split('/')
    kids = sorted(posixpath.basename(d) for d in dirs if d and posixpath.dirname(d) == idir)
    dirsegs = [i for i in range(len(segs) - 1) if segs[i] != '..']
    if style == 'plain':
        return base
    if style == 'dot':
        return './' + base
    if style == 'dots':
        return './././' + base
    if style == 'middot':
        return '/./'.join(segs) if len(segs) > 1 else './' + base
    if style == 'downup':
        return kids[0] + '/../' + base if kids else './' + base
    if style == 'updown':
        return '../' + posixpath.basename(idir) + '/' + base if idir else spell('downup', dirs, importer, target)
    if style in ('segdup', 'segdup_last'):
        if not dirsegs:
            return spell('updown', dirs, importer, target)
        i = dirsegs[0] if style == 'segdup' else dirsegs[-1]
        return '/'.join(segs[:i + 1] + ['..', segs[i]] + segs[i + 1:])
    if style == 'mix1':
        return './' + spell('updown', dirs, importer, target).replace('/', '/./', 1)
    if style == 'mix2':
        s = spell('segdup_last', dirs, importer, target)
        return (kids[-1] + '/.././' + s) if kids else ('././' + s)
    if style == 'abs':
        return ROOTMARK + '/' + target
    raise ValueError(style)


# ----------------------------------------------------------------------------------------------- family 1: every position, by hand
def hand_projects():
    out = []
    # the importing file sits in app/sub; the right target is app/sub/lib/x.ucg; OTHER project files with other values sit at lib/x.ucg
    # (= the path resolved against the project root), app/lib/x.ucg (resolved against the nested cwd `app`)
    pos_i = [p for p in IMPORT_POS if p != 'fail']
    pos_n = [p for p in INCLUDE_POS if p != 'fail']
    others = [F('lib/x.ucg', 100), F('app/lib/x.ucg', 200)]
    out.append(project('import at every position of the main file',
                       [F('app/sub/main.ucg', 3, [('import', 'lib/x.ucg', p) for p in pos_i]), F('app/sub/lib/x.ucg', 7)] + others, nested='app'))
    out.append(project('include at every position of the main file',
                       [F('app/sub/main.ucg', 3, [('include', 'lib/d.txt', p) for p in pos_n])], data={'app/sub/lib/d.txt': 17, 'lib/d.txt': 23, 'app/lib/d.txt': 29}, nested='app'))
    out.append(project('import at every position of an imported file',
                       [F('main.ucg', 5, [('import', 'lib/core/mid.ucg', 'top')]),
                        F('lib/core/mid.ucg', 11, [('import', ['sub/leaf.ucg', '../x.ucg'][i % 2], p) for i, p in enumerate(pos_i)]),
                        F('lib/core/sub/leaf.ucg', 13), F('lib/x.ucg', 19), F('sub/leaf.ucg', 300), F('x.ucg', 400)], nested='lib'))
    out.append(project('include at every position of an imported file',
                       [F('app/main.ucg', 5, [('import', '../lib/core/mid.ucg', 'topsel')]),
                        F('lib/core/mid.ucg', 11, [('include', ['sub/d.txt', '../d.txt'][i % 2], p) for i, p in enumerate(pos_n)])],
                       data={'lib/core/sub/d.txt': 31, 'lib/d.txt': 37, 'app/sub/d.txt': 41, 'd.txt': 43, 'sub/d.txt': 47}, nested='lib/core'))
    out.append(project('fail message of the main file imports',
                       [F('app/sub/main.ucg', 3, [('import', 'lib/x.ucg', 'top'), ('import', './lib/../lib/x.ucg', 'fail')]), F('app/sub/lib/x.ucg', 7)] + others, nested='app'))
    out.append(project('fail message of the main file includes',
                       [F('app/sub/main.ucg', 3, [('include', 'lib/d.txt', 'fail')])], data={'app/sub/lib/d.txt': 17, 'lib/d.txt': 23}, nested='app'))
    out.append(project('fail message of an imported file imports',
                       [F('main.ucg', 5, [('import', 'lib/core/mid.ucg', 'func')]), F('lib/core/mid.ucg', 11, [('import', '../x.ucg', 'fail')]), F('lib/x.ucg', 19), F('x.ucg', 400)],
                       nested='lib'))
    out.append(project('diamond under four spellings',
                       [F('app/main.ucg', 1, [('import', 'a.ucg', 'top'), ('import', './sub/b.ucg', 'map'), ('import', '../app/sub/../../lib/c.ucg', 'modout')]),
                        F('app/a.ucg', 2, [('import', '../lib/c.ucg', 'reduce'), ('import', '.././lib/../lib/c.ucg', 'top')]),
                        F('app/sub/b.ucg', 4, [('import', '../../lib/c.ucg', 'modbody'), ('import', '../a.ucg', 'filter')]),
                        F('lib/c.ucg', 8)], nested='app/sub'))
    out.append(project('chain of eight files climbing and descending',
                       [F('a/b/c/main.ucg', 1, [('import', '../f1.ucg', 'top')]), F('a/b/f1.ucg', 2, [('import', '../f2.ucg', 'func')]),
                        F('a/f2.ucg', 3, [('import', '../f3.ucg', 'map')]), F('f3.ucg', 4, [('import', 'a/f4.ucg', 'filter')]),
                        F('a/f4.ucg', 5, [('import', 'b/f5.ucg', 'reduce')]), F('a/b/f5.ucg', 6, [('import', './c/../c/f6.ucg', 'modbody')]),
                        F('a/b/c/f6.ucg', 7, [('import', '../../../z/f7.ucg', 'modout')]), F('z/f7.ucg', 8)], nested='a/b'))
    out.append(project('same file name in four directories',
                       [F('app/main.ucg', 1, [('import', 'x.ucg', 'topsel'), ('import', 'sub/x.ucg', 'map'), ('import', '../x.ucg', 'func'), ('include', 'd.txt', 'reduce')]),
                        F('app/x.ucg', 10, [('import', 'sub/x.ucg', 'top'), ('include', 'sub/d.txt', 'map')]),
                        F('app/sub/x.ucg', 20, [('import', '../../x.ucg', 'modlet'), ('include', 'd.txt', 'topsel')]),
                        F('x.ucg', 30, [('import', 'lib/x.ucg', 'filter'), ('include', 'd.txt', 'filter')]), F('lib/x.ucg', 40)],
                       data={'d.txt': 51, 'app/d.txt': 52, 'app/sub/d.txt': 53, 'lib/d.txt': 54}, nested='app/sub'))
    out.append(project('one file imported fourteen times from three files',
                       [F('app/main.ucg', 1, [('import', '../lib/c.ucg', p) for p in ('map', 'func', 'modbody', 'top', 'modout')] + [('import', 'u.ucg', 'top'), ('import', 'sub/w.ucg', 'top')]),
                        F('app/u.ucg', 2, [('import', s, 'reduce') for s in ('../lib/c.ucg', './../lib/c.ucg', '../lib/./c.ucg', '../lib/../lib/c.ucg')]),
                        F('app/sub/w.ucg', 3, [('import', s, p) for s, p in (('../../lib/c.ucg', 'letc'), ('../../lib/c.ucg', 'filter'), ('../../app/../lib/c.ucg', 'modmap'),
                                                                            ('./../.././lib/c.ucg', 'mapfunc'), ('../u.ucg', 'top'))]),
                        F('lib/c.ucg', 8)], nested='lib'))
    out.append(project('file reached only through a let constraint',
                       [F('app/sub/main.ucg', 3, [('import', 'lib/x.ucg', 'letc'), ('import', '../shape.ucg', 'letc'), ('import', '../../lib/x.ucg', 'top')]),
                        F('app/sub/lib/x.ucg', 7), F('app/shape.ucg', 9), F('lib/x.ucg', 100)], nested='app'))
    out.append(project('main file in the project root, built as ./main.ucg and by absolute path',
                       [F('main.ucg', 3, [('import', 'lib/x.ucg', 'map'), ('import', './lib/core/../x.ucg', 'modout'), ('include', 'lib/core/d.txt', 'func')]),
                        F('lib/x.ucg', 7, [('import', 'core/y.ucg', 'reduce')]), F('lib/core/y.ucg', 9, [('include', 'd.txt', 'filter')]),
                        F('lib/core/lib/x.ucg', 500), F('lib/core/core/y.ucg', 600)],
                       data={'lib/core/d.txt': 61, 'lib/d.txt': 62, 'd.txt': 63}, nested='lib/core', args=dict(root='dot', nested='abs', unrelated='rel')))
    return out


def chain_projects(tier):
    """Chains of 2..4 let-imports across nested directories; every level names the next file and a sibling defaults.ucg by a path relative
    to ITS OWN directory; files of the same names sit at the other levels (project files with other values and no s_<path> binding) and,
    as differently typed decoys, wherever one of the paths would land when resolved against another level's directory."""
    out = []
    vals = iter(range(11, 4000, 7))
    for depth in (2, 3, 4):
        for style in ('down', 'up', 'side'):
            if tier != 'thorough' and (depth, style) not in ((2, 'down'), (3, 'up'), (4, 'down'), (3, 'side'), (4, 'up')):
                continue
            if style == 'down':
                dirs = ['/'.join('l%d' % j for j in range(1, i + 1)) for i in range(depth + 1)]            # '', l1, l1/l2, ...
                hops = ['l%d/x.ucg' % (i + 1) for i in range(depth)]
            elif style == 'up':
                dirs = ['/'.join('l%d' % j for j in range(1, i + 1)) for i in range(depth, -1, -1)]        # l1/l2/l3, l1/l2, l1, ''
                hops = ['../x.ucg'] * depth
            else:
                dirs = ['app', 'services', 'services/conf', 'shared', 'shared/deep'][:depth + 1]
                hops = ['../services/x.ucg', 'conf/x.ucg', '../../shared/x.ucg', 'deep/x.ucg'][:depth]
            pos = {'down': ['top'] * 4, 'up': ['top', 'topsel', 'top', 'modlet'], 'side': ['top', 'top', 'func', 'top']}[style]
            files = []
            for i, d in enumerate(dirs):
                edges = [('import', 'defaults.ucg', 'top', i % 2 == 0)]
                if i < depth:
                    edges.insert(i % 2, ('import', hops[i], pos[i], i % 2 == 1))
                files.append(F(posixpath.join(d, 'main.ucg' if i == 0 else 'x.ucg'), next(vals), edges))
            for d in dirs:
                files.append(F(posixpath.join(d, 'defaults.ucg'), next(vals)))
            out.append(project('chain of %d let-imports (%s), x.ucg and defaults.ucg at every level' % (depth, style), files, nested=dirs[depth // 2] or dirs[1],
                               args=dict(decoy=(depth + len(style)) % 3, nested=['', 'abs'][depth % 2])))
    return out


def standin_positions(tier, seed):
    return run_all('positions', 'hand-designed project trees: import and include at each of the %d / %d positions in the main file and in an imported file, '
                   'fail messages, a diamond, a chain of 8, one name in 4 directories, 14 imports of one file, constraint-only import, '
                   '%s chains of 2..4 let-imports (down / up / sideways through the directories) with same-named files at every level'
                   % (len(IMPORT_POS), len(INCLUDE_POS), 9 if tier == 'thorough' else 5), hand_projects() + chain_projects(tier))


# ----------------------------------------------------------------------------------------------- family 2: every spelling
def spelling_projects(tier, seed):
    rnd = random.Random(seed)
    layout = ['', 'app', 'app/sub', 'app/sub/deep', 'lib', 'lib/core']
    dirs = project_dirs([d + '/x' for d in layout if d])
    pairs = [(a, b) for a in layout for b in layout]
    if tier != 'thorough':
        pairs = [('', 'lib/core'), ('app', 'app'), ('app/sub', 'lib'), ('app/sub/deep', 'app'), ('lib/core', 'app/sub'), ('', '')] + rnd.sample(pairs, 2)
    out = []
    for n, (a, b) in enumerate(pairs):
        imp = posixpath.join(a, 'main.ucg')
        tgt = posixpath.join(b, 'x.ucg')
        dat = posixpath.join(b, 'd.txt')
        edges = []
        for i, st in enumerate(STYLES + ['abs']):
            edges.append(('import', spell(st, dirs, imp, tgt), EAGER_IMPORT_POS[(i + n) % len(EAGER_IMPORT_POS)]))
            if st != 'abs':
                edges.append(('include', spell(st, dirs, imp, dat), EAGER_INCLUDE_POS[(i + 2 * n) % len(EAGER_INCLUDE_POS)]))
        files = [F(imp, 3, edges), F(tgt, 7)]
        data = {dat: 17}
        # every other directory of the layout holds a same-named file with another value
        for j, d in enumerate(layout):
            if d != b:
                files.append(F(posixpath.join(d, 'x.ucg'), 1000 + j))
                data[posixpath.join(d, 'd.txt')] = 2000 + j
        nested = [d for d in layout if d and d != a]
        out.append(project('%d spellings of %s and %s from %s' % (len(STYLES) + 1, tgt, dat, imp), files, data, nested=nested[(n + seed) % len(nested)],
                           args=dict(root=['', 'dot'][n % 2], nested=['', 'abs'][(n // 2) % 2], unrelated=['', 'rel'][(n // 3) % 2])))
    return out


def standin_spellings(tier, seed):
    return run_all('spellings', 'one importing file naming one .ucg and one .txt file under %d spellings each (plain, ./, ./././, a/./b, child/../, ../self/, a/../a, mixtures, absolute) '
                   'at rotating positions, same-named files with other values in 5 other directories; importer/target directory pairs: %s'
                   % (len(STYLES) + 1, 'all 36' if tier == 'thorough' else '6 fixed + 2 random'), spelling_projects(tier, seed))


# ----------------------------------------------------------------------------------------------- family 3: random DAGs
DIRPOOL = ['', 'app', 'app/sub', 'app/sub/deep', 'lib', 'lib/core', 'vendor/pkg/src']


def random_project(rnd, idx, cyclic=False, flat=False):
    """cyclic: back edges to ancestors are added.  flat: the cycle is a ring of 1..4 files that live in ONE directory and name each other
    without `..` (plain, ./, ./././); everything else as in the acyclic family."""
    n = rnd.randint(2, 8)
    dpool = rnd.sample(DIRPOOL, rnd.randint(2, 5))
    samename = rnd.random() < 0.3
    ring = sorted(rnd.sample(range(n), rnd.randint(1, min(4, n)))) if cyclic and flat else []
    ringdir = rnd.choice(dpool)
    paths, used = [], set()
    for i in range(n):
        while True:     # ends: f<i>.ucg is free in every directory
            d = ringdir if i in ring else rnd.choice(dpool)
            nm = 'main.ucg' if i == 0 else ('x.ucg' if samename and rnd.random() < 0.6 else 'f%d.ucg' % i)
            p = posixpath.join(d, nm)
            if p not in used:
                break
        used.add(p)
        paths.append(p)
    vs = rnd.sample(range(1, 400), n)
    data = {}
    for i in range(n):
        if rnd.random() < 0.5:
            data[posixpath.join(posixpath.dirname(paths[i]), rnd.choice(['d.txt', 'd%d.txt' % i]))] = 0
    for p, v in zip(sorted(data), rnd.sample(range(1, 400), len(data))):
        data[p] = v
    dirs = project_dirs(paths + list(data))
    edges = [[] for _ in range(n)]

    def sp(i, target):
        if flat and posixpath.dirname(paths[i]) == posixpath.dirname(target):
            return spell(rnd.choice(['plain', 'plain', 'dot', 'dots']), dirs, paths[i], target)
        return spell(rnd.choice(STYLES), dirs, paths[i], target)
    letimp = ['top'] * 5                        # a third of the imports are plain `let x = import "...";` (what the static resolver follows)
    for j in range(1, n):                       # every file is imported by an earlier file at an evaluated position
        i = rnd.randrange(0, j)
        edges[i].append(('import', sp(i, paths[j]), rnd.choice(EAGER_IMPORT_POS + letimp)))
    for _ in range(rnd.randint(0, n)):          # more edges (also a second / third import of the same file, also let constraints)
        i = rnd.randrange(0, n - 1)
        j = rnd.randrange(i + 1, n)
        edges[i].append(('import', sp(i, paths[j]), rnd.choice([p for p in IMPORT_POS if p != 'fail'] + letimp)))
    if data:
        for _ in range(rnd.randint(0, 3)):
            i = rnd.randrange(0, n)
            edges[i].append(('include', sp(i, rnd.choice(sorted(data))), rnd.choice(EAGER_INCLUDE_POS)))
    for e in edges:
        rnd.shuffle(e)

    def add_back(j, i):
        pos = rnd.choice(EAGER_IMPORT_POS + ['fail'])
        e = ('import', sp(j, paths[i]), pos)
        if pos == 'fail':
            edges[j].append(e)
        else:
            at = rnd.randint(0, len(edges[j]))
            if edges[j] and edges[j][-1][2] == 'fail':
                at = min(at, len(edges[j]) - 1)
            edges[j].insert(at, e)
    what = 'dag'
    if cyclic and flat:
        for a, b in zip(ring, ring[1:]):        # the ring: forward edges at evaluated positions, then the edge that closes it
            edges[a].insert(rnd.randint(0, len(edges[a])), ('import', sp(a, paths[b]), rnd.choice(EAGER_IMPORT_POS)))
        add_back(ring[-1], ring[0])
        what = 'dag + ring of %d in one directory' % len(ring)
    elif cyclic:
        # back edges at evaluated positions from a file to one of its ancestors (or itself): the chain main ->* i ->* j -> i
        anc = {j: set([j]) for j in range(n)}
        idx_of = {p: k for k, p in enumerate(paths)}
        for i in range(n):
            for (k, s, p) in edges[i]:
                if k == 'import' and p not in NOT_EAGER:
                    j = idx_of[resolve(paths[i], s)]
                    anc[j] |= anc[i]
        for _ in range(rnd.choice([1, 1, 2])):
            j = rnd.randrange(0, n)
            add_back(j, rnd.choice(sorted(anc[j])))
        what = 'dag + back edges'
    elif rnd.random() < 0.25:
        i = 0 if rnd.random() < 0.6 else rnd.randrange(0, n)
        if rnd.random() < 0.5 or not data:
            j = rnd.randrange(i + 1, n) if i < n - 1 else None
            if j is not None:
                edges[i].append(('import', sp(i, paths[j]), 'fail'))
                what = 'dag + fail'
        else:
            edges[i].append(('include', sp(i, rnd.choice(sorted(data))), 'fail'))
            what = 'dag + fail'
    files = [F(paths[i], vs[i], edges[i]) for i in range(n)]
    nested = rnd.choice(sorted(d for d in dirs if d) or [''])
    return project('random %s #%d (%d files)' % (what, idx, n), files, data, nested=nested, cyclic=cyclic,
                   args=dict(root=rnd.choice(['', 'dot']), nested=rnd.choice(['', '', 'abs']), unrelated=rnd.choice(['', '', 'rel'])))


def standin_random_dags(tier, seed):
    rnd = random.Random(seed * 7919 + 17)
    k = 110 if tier == 'thorough' else 6
    return run_all('random_dags', 'random project trees (seed %d): 2..8 files in 2..5 of 7 nested directories, random DAG with every file imported at an evaluated position, '
                   '0..n extra imports (repeats, let constraints), 0..3 includes, random position and random spelling per expression, a quarter ends in a fail message'
                   % seed, [random_project(rnd, i) for i in range(k)])


# ----------------------------------------------------------------------------------------------- family 4: cycles
def cycle_projects(tier, seed):
    out = []
    cpos = EAGER_IMPORT_POS + ['fail']
    sel = cpos if tier == 'thorough' else ['top', 'topsel', 'modbody']
    # (i) cycles among files of ONE directory, spelled without `..`  (quick: the two shapes alternate over the positions)
    quick = tier != 'thorough'
    for n, p in enumerate(cpos):
        d = ['', './', './././'][n % 3]
        if not quick or n % 2 == 0:
            out.append(project('2-cycle main <-> b in one directory at position %s' % p,
                               [F('app/main.ucg', 1, [('import', '../lib/ok.ucg', 'top'), ('import', d + 'b.ucg', p)]), F('app/b.ucg', 2, [('import', 'main.ucg', p)]), F('lib/ok.ucg', 5)],
                               nested='lib', cyclic=True))
        if not quick or n % 2 == 1:
            out.append(project('2-cycle a <-> b in one directory below the main file at position %s' % p,
                               [F('app/main.ucg', 1, [('import', '../lib/core/a.ucg', 'top')]), F('lib/core/a.ucg', 2, [('import', 'b.ucg', p)]),
                                F('lib/core/b.ucg', 3, [('import', d + 'a.ucg', p)])], nested='lib', cyclic=True))
    for n, p in enumerate(sel):
        if not quick or n % 2 == 0:
            out.append(project('self import (plain) below the main file at position %s' % p,
                               [F('main.ucg', 1, [('import', 'app/a.ucg', 'topsel')]), F('app/a.ucg', 2, [('import', 'a.ucg', p)])], nested='app', cyclic=True))
        if not quick or n % 2 == 1:
            out.append(project('main file imports itself at position %s' % p,
                               [F('app/main.ucg', 1, [('import', 'x.ucg', 'top'), ('import', './main.ucg', p)]), F('app/x.ucg', 2)], nested='app', cyclic=True))
    out.append(project('4-cycle in one directory with mixed positions, entered after acyclic work',
                       [F('main.ucg', 1, [('import', 'lib/ok.ucg', 'top'), ('import', 'lib/core/a.ucg', 'map')]), F('lib/core/a.ucg', 2, [('import', '../ok.ucg', 'func'), ('import', 'b.ucg', 'topsel')]),
                        F('lib/core/b.ucg', 3, [('import', './c.ucg', 'modout')]), F('lib/core/c.ucg', 4, [('import', '../ok.ucg', 'modlet'), ('import', './././d.ucg', 'reduce')]),
                        F('lib/core/d.ucg', 6, [('import', 'a.ucg', 'mapfunc')]), F('lib/ok.ucg', 5)], nested='lib/core', cyclic=True))
    # (ii) cycles that cross directories (`..` on the cycle)
    for n, p in enumerate(cpos if not quick else ['top', 'topsel', 'func', 'map', 'modbody', 'fail']):
        if not quick or n % 2 == 0:
            out.append(project('2-cycle main <-> b across directories at position %s' % p,
                               [F('app/main.ucg', 1, [('import', '../lib/b.ucg', p)]), F('lib/b.ucg', 2, [('import', '../app/main.ucg', p)])], nested='lib', cyclic=True))
        if not quick or n % 2 == 1:
            out.append(project('2-cycle a <-> b across directories below the main file at position %s' % p,
                               [F('main.ucg', 1, [('import', 'app/a.ucg', 'top')]), F('app/a.ucg', 2, [('import', 'sub/b.ucg', p)]),
                                F('app/sub/b.ucg', 3, [('import', './../a.ucg', p)])], nested='app', cyclic=True))
    for p in (sel if not quick else ['modout']):
        out.append(project('self import (../app/a.ucg) below the main file at position %s' % p,
                           [F('main.ucg', 1, [('import', 'app/a.ucg', 'topsel')]), F('app/a.ucg', 2, [('import', '../app/a.ucg', p)])], nested='app', cyclic=True))
    out.append(project('3-cycle a -> b -> c -> a across directories with mixed positions',
                       [F('main.ucg', 1, [('import', 'lib/ok.ucg', 'top'), ('import', 'a/a.ucg', 'map')]), F('a/a.ucg', 2, [('import', '../lib/ok.ucg', 'func'), ('import', 'b/b.ucg', 'topsel')]),
                        F('a/b/b.ucg', 3, [('import', '../../c.ucg', 'modout')]), F('c.ucg', 4, [('import', './a/../a/a.ucg', 'reduce')]), F('lib/ok.ucg', 5)], nested='a/b', cyclic=True))
    out.append(project('6-cycle through six directories',
                       [F('main.ucg', 1, [('import', 'd1/f1.ucg', 'topsel')]), F('d1/f1.ucg', 2, [('import', 'd2/f2.ucg', 'func')]), F('d1/d2/f2.ucg', 3, [('import', '../../d3/f3.ucg', 'filter')]),
                        F('d3/f3.ucg', 4, [('import', '../d4/f4.ucg', 'modbody')]), F('d4/f4.ucg', 5, [('import', 'd5/f5.ucg', 'modlet')]), F('d4/d5/f5.ucg', 6, [('import', '../../d6/f6.ucg', 'mapfunc')]),
                        F('d6/f6.ucg', 7, [('import', '../d1/./f1.ucg', 'tuple')])], nested='d1/d2', cyclic=True))
    out.append(project('cycle closed under another spelling than it was opened with',
                       [F('app/main.ucg', 1, [('import', './sub/../sub/a.ucg', 'topsel')]), F('app/sub/a.ucg', 2, [('import', '../../lib/b.ucg', 'topsel')]),
                        F('lib/b.ucg', 3, [('import', '.././app/sub/./a.ucg', 'topsel')])], nested='app/sub', cyclic=True))
    # (iii) random
    rnd = random.Random(seed * 104729 + 5)
    for i in range(60 if tier == 'thorough' else 3):
        out.append(random_project(rnd, i, cyclic=True, flat=True))
    for i in range(40 if tier == 'thorough' else 2):
        out.append(random_project(rnd, i, cyclic=True))
    return out


def standin_cycles(tier, seed):
    return run_all('cycles', 'project trees with an import cycle reached through evaluated positions (seed %d): 2-cycles through / below the main file over %d positions '
                   '(files in one directory spelled x, ./x, ./././x; files in two directories spelled with ..; %s), self imports at %s positions, 3-, 4-, 6-cycles, a respelled cycle, '
                   'random DAGs of 2..8 files + a ring of 1..4 files in one directory, random DAGs + 1..2 back edges to an ancestor'
                   % (seed, len(EAGER_IMPORT_POS) + 1, 'both shapes at every position' if tier == 'thorough' else 'the shapes alternate over the positions, 6 positions across directories',
                      'all' if tier == 'thorough' else '3..4', ), cycle_projects(tier, seed))


# ----------------------------------------------------------------------------------------------- family 5: user files whose names begin with `std`
# The documentation imports the standard library as `import "std/lists.ucg"` (tutorials, stdlib pages): the path `std/<file>` is the library's.  Every OTHER
# relative path is the user's and names a file relative to the importing file (statement) -- also when its first letters are s, t, d: a sibling file
# stdvals.ucg / std.ucg, directories std_x/, stdx/, stdlib/, std2/, std.d/, STD/, and the user's own directory std/ when it is reached by a path that does not BEGIN
# with `std/` (./std/q.ucg, stdx/../std/q.ucg).  What a bare `import "std/q.ucg"` does when the user has such a directory is not enumerated (the library's name
# space).  The reference knows no library for `include`: `include str "std/d.txt"` is an ordinary relative path.
STD_IMPORTS = ['stdvals.ucg', 'std.ucg', 'std_x/y.ucg', 'stdx/std/z.ucg', './std/q.ucg', 'stdlib/x.ucg', 'std2/a.ucg', 'stdx/../std/q.ucg', 'std.d/e.ucg', 'stdin.ucg', 'STD/u.ucg', 'std-lib/v.ucg',
               './stdvals.ucg', 'std_x/../std.ucg', '././std/./q.ucg', 'stdx/std/../std/z.ucg']
STD_INCLUDES = ['stdd.txt', 'std/d.txt', './std/d.txt', 'std_x/d.txt', 'std.txt', 'stdx/std/d.txt', 'std/sub/d.txt', 'stdx/../std/d.txt']
STD_FILES = ['stdvals.ucg', 'std.ucg', 'std_x/y.ucg', 'stdx/std/z.ucg', 'std/q.ucg', 'stdlib/x.ucg', 'std2/a.ucg', 'std.d/e.ucg', 'stdin.ucg', 'STD/u.ucg', 'std-lib/v.ucg']
STD_DATA = ['stdd.txt', 'std/d.txt', 'std_x/d.txt', 'std.txt', 'stdx/std/d.txt', 'std/sub/d.txt']


def std_tree(base, v0):
    """the std-named files and data files below the directory `base`, values from v0 on"""
    files = [F(posixpath.join(base, p), v0 + 3 * i) for i, p in enumerate(STD_FILES)]
    data = {posixpath.join(base, p): v0 + 100 + i for i, p in enumerate(STD_DATA)}
    return files, data


def std_projects(tier, seed):
    out = []
    rnd = random.Random(seed * 31 + 9)
    imps, incs = STD_IMPORTS, STD_INCLUDES
    pos_i, pos_n = EAGER_IMPORT_POS, EAGER_INCLUDE_POS
    r1, r2 = seed % len(pos_i), (seed * 3 + 5) % len(pos_i)

    def edges(rot, k_imp=None, k_inc=None):
        e = [('import', s, pos_i[(i + rot) % len(pos_i)], i % 2 == 0) for i, s in enumerate(imps[:k_imp])]
        e += [('include', s, pos_n[(i + rot) % len(pos_n)]) for i, s in enumerate(incs[:k_inc])]
        return e
    # 0. the smallest projects of the class (reported first)
    out.append(project('one import of a sibling file stdvals.ucg', [F('conf/main.ucg', 3, [('import', 'stdvals.ucg', 'topsel')]), F('conf/stdvals.ucg', 8080)], nested='conf'))
    out.append(project('one include of a text file below the user\'s std directory', [F('conf/main.ucg', 3, [('include', 'std/d.txt', 'topsel')])], data={'conf/std/d.txt': 8081}, nested='conf'))
    out.append(project('one import from the user\'s own std directory, spelled ./std/q.ucg', [F('conf/main.ucg', 3, [('import', './std/q.ucg', 'top')]), F('conf/std/q.ucg', 8082)], nested='conf'))
    # 1. the importing file is the main file, two levels below the project root; the same names exist (other values) in the project root = the first working directory
    f1, d1 = std_tree('app/sub', 500)
    f0, d0 = std_tree('', 2000)
    out.append(project('main file imports / includes siblings whose names begin with std (same names with other values in the project root)',
                       [F('app/sub/main.ucg', 3, edges(r1))] + f1 + f0, data=dict(d1, **d0), nested='app'))
    # 2. the importing file is itself imported (from a main file in another directory); let-imports first
    f2, d2 = std_tree('lib/core', 700)
    out.append(project('an imported file imports / includes siblings whose names begin with std',
                       [F('app/main.ucg', 5, [('import', '../lib/core/mid.ucg', 'top')]), F('lib/core/mid.ucg', 11, [('import', s, 'top') for s in imps[:6]] + edges(r2))] + f2, data=d2, nested='lib'))
    # 3. the main file sits in the project root and is built as ./main.ucg / by absolute path / by a relative path from elsewhere; files INSIDE std-named directories import their neighbours
    f3, d3 = std_tree('', 900)
    f3 = [f for f in f3 if f['path'] not in ('stdlib/x.ucg', 'std/q.ucg', 'stdx/std/z.ucg')]
    f3 += [F('stdlib/x.ucg', 21, [('import', 'stdy.ucg', 'top'), ('import', '../std.ucg', 'func'), ('import', './std/w.ucg', 'map'), ('include', 'std/d.txt', 'reduce'), ('include', '../stdd.txt', 'topsel')]),
           F('stdlib/stdy.ucg', 23), F('stdlib/std/w.ucg', 27, [('import', '../stdy.ucg', 'topsel'), ('import', '../../std/q.ucg', 'modbody')]),
           F('std/q.ucg', 29, [('import', 'stdq2.ucg', 'top'), ('import', '../stdx/std/z.ucg', 'filter'), ('include', 'd.txt', 'func')]), F('std/stdq2.ucg', 31),
           F('stdx/std/z.ucg', 33, [('import', '../../std/stdq2.ucg', 'modout'), ('import', 'std.ucg', 'top')]), F('stdx/std/std.ucg', 37)]
    d3.update({'stdlib/std/d.txt': 41})
    out.append(project('main file in the project root; files inside std-named directories import their neighbours',
                       [F('main.ucg', 7, edges(0, 8, 5))] + f3, data=d3, nested='stdlib', args=dict(root='dot', nested='abs', unrelated='rel')))
    # 4. fail message / let constraint positions
    f4, d4 = std_tree('app/sub', 1100)
    out.append(project('fail message imports a sibling whose name begins with std',
                       [F('app/sub/main.ucg', 3, [('import', 'stdvals.ucg', 'letc'), ('import', 'std_x/y.ucg', 'top'), ('import', './std/q.ucg', 'fail')])] + f4, data=d4, nested='app'))
    out.append(project('fail message includes a text file below the user\'s std directory',
                       [F('app/sub/main.ucg', 3, [('include', 'stdd.txt', 'topsel'), ('include', 'std/d.txt', 'fail')])] + f4, data=d4, nested='app'))
    # 5. cycles through std-named files are still cycles
    out.append(project('2-cycle stdvals.ucg <-> std_b.ucg below the main file',
                       [F('main.ucg', 1, [('import', 'app/stdvals.ucg', 'top')]), F('app/stdvals.ucg', 2, [('import', 'std_b.ucg', 'topsel')]), F('app/std_b.ucg', 3, [('import', 'stdvals.ucg', 'top')])],
                       nested='app', cyclic=True))
    out.append(project('3-cycle through the user\'s std directory',
                       [F('app/main.ucg', 1, [('import', './std/a.ucg', 'top')]), F('app/std/a.ucg', 2, [('import', '../stdx/b.ucg', 'func')]), F('app/stdx/b.ucg', 3, [('import', '../std/../std/a.ucg', 'map')])],
                       nested='app/std', cyclic=True))
    if tier == 'thorough':
        # every std spelling at every position (one project per position), importer in a nested directory
        for k, p in enumerate([q for q in IMPORT_POS if q != 'fail']):
            fk, dk = std_tree('a/b', 300 + 50 * k)
            ed = [('import', s, p) for s in imps] + ([('include', s, p) for s in incs] if p in INCLUDE_POS else [])
            out.append(project('every std-like name at position %s' % p, [F('a/b/main.ucg', 3, ed)] + fk, data=dk, nested='a',
                               args=dict(root=['', 'dot'][k % 2], nested=['', 'abs'][(k // 2) % 2], unrelated=['', 'rel'][(k // 3) % 2])))
        # random DAGs whose file and directory names all begin with std
        for i in range(20):
            out.append(random_std_project(rnd, i))
    else:
        out.append(random_std_project(rnd, 0))
    return out


STD_DIRPOOL = ['', 'std', 'stdx', 'stdx/std', 'std_lib/std', 'app', 'app/std', 'app/stdlib']


def random_std_project(rnd, idx):
    """random DAG in directories named std / stdx / ...; every file is called std<i>.ucg; a path that would BEGIN with `std/` is spelled with a leading ./"""
    n = rnd.randint(3, 7)
    dpool = rnd.sample(STD_DIRPOOL, rnd.randint(3, 5))
    paths = [posixpath.join(rnd.choice(dpool), 'main.ucg' if i == 0 else 'std%d.ucg' % i) for i in range(n)]
    data = {}
    for i in range(n):
        if rnd.random() < 0.6:
            data[posixpath.join(posixpath.dirname(paths[i]), 'std%d.txt' % i)] = 50 + i
    dirs = project_dirs(paths + list(data))
    edges = [[] for _ in range(n)]

    def sp(i, target):
        s = spell(rnd.choice(STYLES), dirs, paths[i], target)
        return './' + s if s.startswith('std/') else s
    for j in range(1, n):
        i = rnd.randrange(0, j)
        edges[i].append(('import', sp(i, paths[j]), rnd.choice(EAGER_IMPORT_POS + ['top'] * 5)))
    for _ in range(rnd.randint(1, n)):
        i = rnd.randrange(0, n - 1)
        edges[i].append(('import', sp(i, paths[rnd.randrange(i + 1, n)]), rnd.choice([p for p in IMPORT_POS if p != 'fail'])))
    for _ in range(rnd.randint(1, 3) if data else 0):
        i = rnd.randrange(0, n)
        edges[i].append(('include', sp(i, rnd.choice(sorted(data))), rnd.choice(EAGER_INCLUDE_POS)))
    for e in edges:
        rnd.shuffle(e)
    vs = rnd.sample(range(1, 400), n)
    return project('random std-named DAG #%d (%d files)' % (idx, n), [F(paths[i], vs[i], edges[i]) for i in range(n)], data, nested=rnd.choice(sorted(d for d in dirs if d) or ['']),
                   args=dict(root=rnd.choice(['', 'dot']), nested=rnd.choice(['', '', 'abs']), unrelated=rnd.choice(['', '', 'rel'])))


def standin_std_names(tier, seed):
    return run_all('std_names', 'project trees whose USER files / directories have names beginning with `std` (seed %d): %d import spellings (%s) and %d include spellings (%s) at rotating evaluated positions '
                   'in the main file (two levels down, same names with other values in the project root), in an imported file (also as let-imports), from a main file in the project root built as ./main.ucg / '
                   'absolute / relative-from-elsewhere with files inside std-named directories importing their neighbours, in fail messages and a let constraint, a 2- and a 3-cycle through std-named files, %s; '
                   'a bare `std/<file>` import (the library\'s name space) is not enumerated'
                   % (seed, len(STD_IMPORTS), ', '.join(STD_IMPORTS), len(STD_INCLUDES), ', '.join(STD_INCLUDES),
                      'one project per position with every spelling, 20 random DAGs in directories std / stdx / stdx/std / ...' if tier == 'thorough' else '1 random DAG in directories std / stdx / stdx/std / ...'),
                   std_projects(tier, seed))


STANDINS = [standin_positions, standin_spellings, standin_random_dags, standin_cycles, standin_std_names]
