"""C13 bounded stand-ins: "`ucg test` reports a file as passing exactly when all its assertions hold".

Oracle (from the property statement and statements.md "Assert Statements"), computed from how each generated file was built:
  * a file's verdict is PASS iff it builds (no parse / type / evaluation error anywhere in it) and every assert evaluated in it has
    ok = true; an assert whose value is not a tuple with a boolean `ok` and a string `desc` counts as a failure; field order and extra
    fields do not matter; an assert in a module body counts once per instantiation and not at all when the module is never instantiated;
  * the process exits non-zero iff some file of the invocation failed;
  * every assertion of a file that builds appears exactly once in the output, inside that file's part of it (between its `Validating`
    line and the next one), marked NOT OK iff it does not hold; a malformed assertion is one NOT OK entry;
  * verdicts (and logs) do not depend on which files were tested before: every ordered selection must give the same per-file results.
Reading the output: the verdict of file f is taken from the lines `<path ending in f> - PASS|FAIL` (all of them must agree, at least one
must exist); a `File <path> Pass|Fail` line, when printed, must agree too.  Assertions are recognised by their unique `desc` text.

Documented choice (not flagged): for a file that stops with a build error, HEAD prints the error instead of the log, so the assertions
evaluated before the error do not appear at all; the statement's "exactly once" is therefore checked as "at most once, and only in its
own part" for such files.
"""
import itertools
import os
import random
import re
import shutil
import tempfile
import threading

import realcode as R

TRUE_EXPRS = ['true', '1 == 1', '"a" in ["a"]', 'not false', '(1 + 1) == 2', '[1, 2] == [1, 2]']
FALSE_EXPRS = ['false', '1 == 2', '"z" in ["a"]', 'not true', '(1 + 1) == 3', '{a = 1} == {a = 2}']
# malformed at run time (built by a function, so the type checker does not see the shape): each is ONE failed assertion, the file goes on
MALFORMED_RT = ['mk_ok("yes")', 'mk_ok(1)', 'mk_ok(NULL)', 'mk_desc(5)', 'mk_desc(NULL)', 'mk_desc([1])', 'ident(1)', 'ident("s")', 'ident([1])', 'ident(NULL)', 'no_ok(1)', 'no_desc(1)', 'ident({})']
# malformed where the checker sees it: the file does not build (statements.md: "This shape is enforced at compile time by the type checker")
MALFORMED_STATIC = ['assert {ok = "yes", desc = "%s"};', 'assert {ok = true, desc = 5};', 'assert 1;', 'assert {desc = "%s"};', 'assert {ok = true};', 'assert "%s";', 'assert [true, "%s"];']
BUILD_ERRORS = ['let e%d = fail "boom";', 'let e%d = 1 / 0;', 'let e%d = nosuch_binding;', 'let e%d = import "nonexistent_file.ucg";', 'let e%d = 1 + "a";', 'let e%d = ;', 'let e%d = {a = 1}.b.c;',
                'let e%d = [1].(5);', 'let e%d = int("x");', 'let e%d = select ("q") => {a = 1};', 'let e%d = "@ @" %% (1);', 'let e%d :: 0 = "s";', 'let e%d :: in 1..3 = 9;', 'fail "top level boom";']
HELPERS = ('let mk_ok = func(x) => {ok = x, desc = "helper-made"};\nlet mk_desc = func(x) => {ok = true, desc = x};\nlet ident = func(x) => x;\n'
           'let no_ok = func(x) => {desc = "helper-made"};\nlet no_desc = func(x) => {ok = true};\n')


class TestFile(object):
    def __init__(self, name, src, asserts, build_error):
        self.name = name                # unique base name, ends in _test.ucg
        self.src = src
        self.asserts = asserts          # [(desc or None, holds: bool, malformed: bool)] in evaluation order, for a file that builds
        self.build_error = build_error  # None or a description
        self.passes = build_error is None and all(h is not False for _, h, _ in asserts)      # h None: never evaluated


def gen_file(rnd, fid, force=None):
    """A *_test.ucg file with 0..6 assertions (true / false / malformed, fields in either order, extra fields, inside modules) and possibly a build error
    before / between / after them."""
    name = 't%02d_test.ucg' % fid
    n = rnd.randint(0, 6)
    kinds = [rnd.choice('TTTTFFMX') for _ in range(n)]      # T true, F false, M malformed at run time, X in a module body
    if force == 'pass':
        kinds = [k if k in 'TX' else 'T' for k in kinds] or ['T']
    lines, asserts = [HELPERS], []
    static_bad = None
    for k, kind in enumerate(kinds):
        desc = 'f%02d-a%d-%s' % (fid, k, {'T': 'holds', 'F': 'fails', 'M': 'malformed', 'X': 'module'}[kind])
        if kind in 'TF':
            ok = rnd.choice(TRUE_EXPRS if kind == 'T' else FALSE_EXPRS)
            fields = ['ok = %s' % ok, 'desc = "%s"' % desc]
            if rnd.random() < 0.5:
                fields.reverse()                                  # desc before ok
            if rnd.random() < 0.25:
                fields.insert(rnd.randint(0, 2), 'extra%d = %s' % (k, rnd.choice(['1', '"x"', '[1]', 'NULL'])))
            form = rnd.random()
            if form < 0.6:
                lines.append('assert {%s};' % ', '.join(fields))
            elif form < 0.8:
                lines.append('let a%d = {%s};\nassert a%d;' % (k, ', '.join(fields), k))
            else:
                lines.append('assert {\n    %s,\n};' % ',\n    '.join(fields))
            asserts.append((desc, kind == 'T', False))
        elif kind == 'M':
            lines.append('assert %s;' % rnd.choice(MALFORMED_RT))
            asserts.append((None, False, True))
        else:
            holds = rnd.random() < 0.6 or force == 'pass'
            times = rnd.choice([0, 1, 1, 2])
            lines.append('let m%d = module{} => { assert {ok = %s, desc = "%s"}; };' % (k, 'true' if holds else 'false', desc))
            for j in range(times):
                lines.append('let i%d_%d = m%d{};' % (k, j, k))
                asserts.append((desc, holds, False))
            if times == 0:
                asserts.append((desc, None, False))               # never evaluated: must not appear
    build_error = None
    r = rnd.random()
    if force is None and r < 0.3:
        stmt = rnd.choice(BUILD_ERRORS)
        stmt = stmt % fid if '%d' in stmt else stmt
        pos = rnd.choice(['first', 'middle', 'last'])
        at = {'first': 1, 'middle': 1 + (len(lines) - 1) // 2, 'last': len(lines)}[pos]
        lines.insert(at, stmt)
        build_error = '%s, %s (`%s`)' % (pos, 'a build error', stmt)
    elif force is None and r < 0.4:
        stmt = rnd.choice(MALFORMED_STATIC)
        stmt = stmt % ('f%02d-static' % fid) if '%s' in stmt else stmt
        lines.insert(rnd.randint(1, len(lines)), stmt)
        build_error = 'an assert the type checker rejects (`%s`)' % stmt
    return TestFile(name, '\n'.join(lines) + '\n', asserts, build_error)


def fixed_files():
    """The scenarios named in the task, as files with fixed content."""
    out = []

    def add(name, src, asserts, build_error=None):
        out.append(TestFile(name, src, asserts, build_error))
    add('s_descfirst_test.ucg', 'assert {desc = "s1-a0-holds", ok = 1 == 1};\nassert {desc = "s1-a1-fails", ok = 1 == 2};\n', [('s1-a0-holds', True, False), ('s1-a1-fails', False, False)])
    add('s_falsethentrue_test.ucg', 'assert {ok = false, desc = "s2-a0-fails"};\nassert {ok = true, desc = "s2-a1-holds"};\nassert {ok = true, desc = "s2-a2-holds"};\n',
        [('s2-a0-fails', False, False), ('s2-a1-holds', True, False), ('s2-a2-holds', True, False)])
    add('s_malformedthentrue_test.ucg', HELPERS + 'assert mk_ok("yes");\nassert {ok = true, desc = "s3-a1-holds"};\nassert {desc = "s3-a2-holds", ok = true};\n',
        [(None, False, True), ('s3-a1-holds', True, False), ('s3-a2-holds', True, False)])
    add('s_failthenboom_test.ucg', 'assert {ok = false, desc = "s4-a0-fails"};\nlet x = fail "boom";\nassert {ok = true, desc = "s4-a2-holds"};\n',
        [('s4-a0-fails', False, False), ('s4-a2-holds', True, False)], 'a failing assert, then `fail "boom";`')
    add('s_good_test.ucg', 'assert {ok = true, desc = "s5-a0-holds"};\nassert {ok = 2 == 2, desc = "s5-a1-holds"};\n', [('s5-a0-holds', True, False), ('s5-a1-holds', True, False)])
    add('s_noasserts_test.ucg', 'let z = 1;\n', [])
    add('s_empty_test.ucg', '', [])
    add('s_parseerror_test.ucg', 'assert {ok = true, desc = "s8-a0-holds"};\nlet x = 1 +;\n', [('s8-a0-holds', True, False)], 'a parse error on the last line')
    add('s_trueonlyextra_test.ucg', 'assert {ok = true, desc = "s9-a0-holds", extra = 1};\nassert {zzz = [1], desc = "s9-a1-holds", ok = true};\n', [('s9-a0-holds', True, False), ('s9-a1-holds', True, False)])
    add('s_allmalformed_test.ucg', HELPERS + 'assert ident(1);\nassert no_ok(1);\nassert no_desc(1);\nassert mk_desc(5);\n', [(None, False, True)] * 4)
    add('s_stdlib_test.ucg', 'let t = import "std/testing.ucg";\nassert t.ok{test = 1 == 1, desc = "s11-a0-holds"};\nassert t.not_ok{test = 1 == 2, desc = "s11-a1-holds"};\n',
        [('s11-a0-holds', True, False), ('s11-a1-holds', True, False)])
    return out


VERDICT_RE = r'(?m)^(?:\S*/)?%s - (PASS|FAIL)\s*$'
FILE_RE = r'(?m)^File (?:\S*/)?%s (Pass|Fail)\s*$'
VALIDATING_RE = r'(?m)^Validating (\S+)\s*$'


def check_run(files, rc, so, se, scope=None):
    """Problems (strings) of one `ucg test` invocation over `files` (TestFile objects that must have been validated)."""
    problems = []
    want_fail = any(not f.passes for f in files)
    if (rc != 0) != want_fail:
        problems.append('exit status %d, expected %s' % (rc, 'non-zero (a file fails)' if want_fail else '0 (every file passes)'))
    if rc not in (0, 1):
        problems.append('exit status %d: the run did not end normally: %s' % (rc, se[-200:]))
    # the part of stdout that belongs to each file
    marks = [(m.start(), m.group(1)) for m in re.finditer(VALIDATING_RE, so)]
    parts = {}
    for i, (pos, path) in enumerate(marks):
        end = marks[i + 1][0] if i + 1 < len(marks) else len(so)
        # the RESULTS summary that follows the last file of a directory / of the run is not part of a file's log
        chunk = so[pos:end]
        k = chunk.find('\nRESULTS:')
        parts.setdefault(os.path.basename(path), []).append(chunk if k < 0 else chunk[:k])
    have_marks = all(f.name in parts for f in files)
    for f in files:
        want = 'PASS' if f.passes else 'FAIL'
        verdicts = re.findall(VERDICT_RE % re.escape(f.name), so)
        if not verdicts:
            problems.append('%s: no verdict line `%s - %s`' % (f.name, f.name, want))
        elif any(v != want for v in verdicts):
            problems.append('%s reported %s, expected %s (%s)' % (f.name, '/'.join(verdicts), want, f.build_error or ('%d of %d assertions do not hold' % (sum(1 for _, h, _ in f.asserts if h is False), len([a for a in f.asserts if a[1] is not None])))))
        for v in re.findall(FILE_RE % re.escape(f.name), so):
            if v.upper() != want:
                problems.append('%s: line `File %s %s`, expected %s' % (f.name, f.name, v, want))
        if have_marks and len(parts[f.name]) != 1:
            problems.append('%s validated %d times in one run' % (f.name, len(parts[f.name])))
        own = ''.join(parts.get(f.name, []))
        counted = {}
        for desc, holds, malformed in f.asserts:
            if desc is None:
                continue
            counted[desc] = counted.get(desc, 0) + (0 if holds is None else 1)
        for desc, times in counted.items():
            total = len(re.findall(re.escape(desc), so))
            if f.build_error is None:
                if total != times:
                    problems.append('%s: assertion "%s" appears %d time(s) in the output, expected %d' % (f.name, desc, total, times))
                elif have_marks and len(re.findall(re.escape(desc), own)) != times:
                    problems.append('%s: assertion "%s" is logged outside the part of the output that belongs to its file' % (f.name, desc))
            elif total > times or (have_marks and total != len(re.findall(re.escape(desc), own))):
                problems.append('%s: assertion "%s" appears %d time(s) / outside its file\'s part (file stops with a build error: at most %d, in its own part)' % (f.name, desc, total, times))
        if f.build_error is None:
            for desc, holds, malformed in f.asserts:
                if desc is None or holds is None:
                    continue
                for ln in so.split('\n'):
                    if desc in ln and (('NOT OK' in ln) != (not holds)):
                        problems.append('%s: assertion "%s" logged as `%s`, it %s' % (f.name, desc, ln.strip()[:80], 'holds' if holds else 'does not hold'))
            if have_marks:
                notok = len(re.findall(r'NOT OK', own))
                want_notok = sum(1 for _, h, _ in f.asserts if h is False)
                if notok != want_notok:
                    problems.append('%s: %d NOT OK entries in its log, expected %d (false + malformed assertions, one entry each)' % (f.name, notok, want_notok))
    if scope is not None:
        for bn in parts:
            if bn not in scope:
                problems.append('%s was validated although it is not a *_test.ucg file in the scope of the run' % bn)
    return problems


def run_many(jobs, threads):
    """jobs: [(args, cwd)] -> [(rc, stdout, stderr)] using a few worker threads."""
    R.ucg_binary()
    out = [None] * len(jobs)
    lock = threading.Lock()
    nxt = [0]

    def work():
        while True:
            with lock:
                i = nxt[0]
                nxt[0] += 1
            if i >= len(jobs):
                return
            try:
                out[i] = R.run_ucg(jobs[i][0], jobs[i][1], timeout=60)
            except Exception as e:      # noqa
                out[i] = (-99, '', repr(e))
    ts = [threading.Thread(target=work) for _ in range(threads)]
    for t in ts:
        t.start()
    for t in ts:
        t.join()
    return out


def describe(files):
    return {f.name: f.src for f in files}


# ------------------------------------------------------------------ ordered selections of files in one invocation
def standin_generated_orders(tier, seed):
    rnd = random.Random(seed)
    thorough = tier == 'thorough'
    fixed = fixed_files()
    gen = [gen_file(rnd, i) for i in range(30 if thorough else 8)] + [gen_file(rnd, 90 + i, force='pass') for i in range(4 if thorough else 2)]
    pool = fixed + gen
    byname = {f.name: f for f in pool}
    sels = [(f.name,) for f in pool]
    # the scenarios of the task in every order: a file that records a failing assert and then hits a build error, followed by a good file; failing before passing; ...
    must = [('s_failthenboom_test.ucg', 's_good_test.ucg'), ('s_falsethentrue_test.ucg', 's_good_test.ucg'), ('s_malformedthentrue_test.ucg', 's_good_test.ucg', 's_noasserts_test.ucg'),
            ('s_allmalformed_test.ucg', 's_trueonlyextra_test.ucg'), ('s_parseerror_test.ucg', 's_good_test.ucg', 's_descfirst_test.ucg'), ('s_failthenboom_test.ucg', 's_stdlib_test.ucg', 's_empty_test.ucg')]
    if not thorough:
        must = must[:3]
    sets = [tuple(m) for m in must]
    names = [f.name for f in pool]
    for _ in range(80 if thorough else 4):
        sets.append(tuple(rnd.sample(names, 2)))
    for _ in range(70 if thorough else 2):
        sets.append(tuple(rnd.sample(names, 3)))
    for s in sets:
        sels += list(itertools.permutations(s))
    sels.append(('s_good_test.ucg', 's_good_test.ucg'))      # the same file twice in one run
    bound = ('%d fixed scenario files + %d seeded generated *_test.ucg files (0..6 assertions: true / false / malformed at run time / in module bodies instantiated 0..2 times, fields '
             'in either order, extra fields; 30%% with a build error of %d kinds first / in the middle / last, 10%% with an assert the type checker rejects); every file alone and '
             '%d sets of 2..3 files in EVERY order, one `ucg test` invocation each (%d invocations): verdicts, exit status, log entries' % (len(fixed), len(gen), len(BUILD_ERRORS), len(sets), len(sels)))
    work = tempfile.mkdtemp(prefix='verif_c13_')
    try:
        for f in pool:
            with open(os.path.join(work, f.name), 'w') as fh:
                fh.write(f.src)
        res = run_many([(['test'] + list(s), work) for s in sels], 6 if thorough else 4)
    finally:
        shutil.rmtree(work, ignore_errors=True)
    for s, (rc, so, se) in zip(sels, res):
        files = [byname[n] for n in dict.fromkeys(s)]
        if len(set(s)) != len(s):
            # the same file named twice: both validations must agree with the oracle; the log appears once per validation
            probs = []
            if (rc != 0) != any(not f.passes for f in files):
                probs.append('exit status %d' % rc)
            for f in files:
                v = re.findall(VERDICT_RE % re.escape(f.name), so)
                if not v or any(x != ('PASS' if f.passes else 'FAIL') for x in v):
                    probs.append('%s reported %s' % (f.name, v))
        else:
            probs = check_run(files, rc, so, se)
        if probs:
            return dict(name='generated_orders', bound=bound, cases=len(sels), status='violation', detail='`ucg test %s`: %s' % (' '.join(s), '; '.join(probs[:4])),
                        input=dict(source=describe(files), files=describe(files), command='ucg test ' + ' '.join(s), expected='; '.join('%s %s' % (f.name, 'PASS' if f.passes else 'FAIL') for f in files) +
                                   '; exit status %s; every assertion of a building file logged exactly once in its own part' % ('non-zero' if any(not f.passes for f in files) else '0'),
                                   observed='exit status %d\n%s\n%s' % (rc, so[-1500:], se[-400:]), how='real binary, all files in one directory'))
    return dict(name='generated_orders', bound=bound, cases=len(sels), status='ok')


# ------------------------------------------------------------------ -r over nested directories
def standin_recursive_dirs(tier, seed):
    rnd = random.Random(seed)
    thorough = tier == 'thorough'
    trees = 8 if thorough else 2
    n_inv = 0
    bound = ('%d seeded directory trees (depth <= 3, 4..9 generated *_test.ucg files + decoys: a helper.ucg with a false assert, *_test.ucg.bak, *_test.txt, an empty directory), each run as '
             '`ucg test -r .`, `ucg test -r <subdir>`, `ucg test .` (not recursive), `ucg test` (no argument) and `ucg test -r <dir> <file>`: exactly the *_test.ucg files in scope get a '
             'verdict, per-file verdicts and logs as for single files, exit status non-zero iff a file in scope fails' % trees)
    for t in range(trees):
        work = tempfile.mkdtemp(prefix='verif_c13r_')
        try:
            dirs = ['.', 'sub', 'sub/deeper', 'sub/deeper/deepest', 'other', 'empty_dir']
            for d in dirs:
                os.makedirs(os.path.join(work, d), exist_ok=True)
            files = {}
            nfiles = rnd.randint(4, 9)
            force_all_pass = (t % 4 == 2)
            for i in range(nfiles):
                f = gen_file(rnd, t * 10 + i, force='pass' if (force_all_pass or rnd.random() < 0.4) else None)
                d = rnd.choice(dirs[:5]) if i else 'sub/deeper'          # at least one file below the top level
                files[os.path.join(d, f.name)] = f
            if t % 4 == 0:
                # the only failing file sits in the deepest directory
                for p in list(files):
                    if not files[p].passes:
                        del files[p]
                f = gen_file(rnd, t * 10 + 9)
                f = TestFile(f.name, 'assert {ok = false, desc = "deep-only-failure-%d"};\n' % t, [('deep-only-failure-%d' % t, False, False)], None)
                files[os.path.join('sub/deeper/deepest', f.name)] = f
            for p, f in files.items():
                with open(os.path.join(work, p), 'w') as fh:
                    fh.write(f.src)
            decoy = 'assert {ok = false, desc = "decoy-must-not-run"};\n'
            for p in ['helper.ucg', 'sub/helper.ucg', 'sub/old_test.ucg.bak', 'other/notes_test.txt', 'sub/deeper/test.ucg']:
                with open(os.path.join(work, p), 'w') as fh:
                    fh.write(decoy)

            def in_scope(root, recursive):
                out = []
                for p, f in files.items():
                    d = os.path.normpath(os.path.dirname(p) or '.')
                    r = os.path.normpath(root)
                    if d == r or (recursive and (r == '.' or d.startswith(r + os.sep))):
                        out.append(f)
                return out
            top_file = next((p for p in files if os.path.dirname(p) in ('', '.')), None)
            invs = [(['test', '-r', '.'], in_scope('.', True)), (['test', '-r', 'sub'], in_scope('sub', True)), (['test', '.'], in_scope('.', False)), (['test'], in_scope('.', False)),
                    (['test', '-r', 'sub/deeper', 'other'], in_scope('sub/deeper', True) + in_scope('other', True)), (['test', 'sub'], in_scope('sub', False)), (['test', '-r', 'empty_dir'], [])]
            if top_file:
                invs.append((['test', '-r', 'sub', os.path.basename(top_file)], in_scope('sub', True) + [files[top_file]]))
            res = run_many([(a, work) for a, _ in invs], 4)
            n_inv += len(invs)
            for (args, scope), (rc, so, se) in zip(invs, res):
                probs = check_run(scope, rc, so, se, scope=set(f.name for f in scope))
                if 'decoy-must-not-run' in so:
                    probs.append('a file that is not named *_test.ucg was validated')
                if probs:
                    return dict(name='recursive_dirs', bound=bound, cases=n_inv, status='violation', detail='`ucg %s`: %s' % (' '.join(args), '; '.join(probs[:4])),
                                input=dict(source={p: f.src for p, f in files.items()}, files={p: f.src for p, f in files.items()}, decoys='helper.ucg, sub/helper.ucg, sub/old_test.ucg.bak, other/notes_test.txt, sub/deeper/test.ucg: ' + decoy,
                                           command='ucg ' + ' '.join(args), expected='; '.join('%s %s' % (f.name, 'PASS' if f.passes else 'FAIL') for f in scope) + '; exit status %s' % ('non-zero' if any(not f.passes for f in scope) else '0'),
                                           observed='exit status %d\n%s\n%s' % (rc, so[-1500:], se[-300:]), how='real binary in a temporary directory tree'))
        finally:
            shutil.rmtree(work, ignore_errors=True)
    return dict(name='recursive_dirs', bound=bound, cases=n_inv, status='ok')


STANDINS = [standin_generated_orders, standin_recursive_dirs]
