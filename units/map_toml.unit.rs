//@ unit map_toml
//@ serves C03
//@ must_verify TomlConverter::convert_value TomlConverter::convert_list TomlConverter::convert_tuple TomlConverter::convert_env lemma_obj_fold data list_data tuple_data tview
//@ include prelude/head.rs
use std::rc::Rc;

verus! {
//@ include prelude/core.rs
//@ include prelude/map_json_data.rs
//@ include prelude/map_toml_models.rs

// C03, the ucg-owned half for TOML: `Val -> toml::Value`.
// For ALL values v (any nesting, any strings, any i64, any f64, duplicate field names included):
//   convert_value(v) is Ok(j)  <=>  data(Toml, v) is a tree, and then  tview(j) == that tree
//   convert_value(v) is Err    <=>  data(Toml, v) is None  (a NULL or a constraint value somewhere inside v -
//                                   nothing is dropped or defaulted to make the rest go through).
// Every substitution below is about the error type only: toml.rs names `Box<dyn error::Error>` through its
// file-local alias `Result`, and Verus has no `dyn Error`.

//@ extract src/convert/toml.rs :: struct TomlConverter
//@   rule R0
//@ end

//@ extract src/convert/toml.rs :: impl TomlConverter :: fn convert_list
//@   subst "-> Result" => "-> TomlResult"
//@   ret r
//@   sig <<<
        ensures toml_agrees(list_data(Fmt::Toml, items@), r)
        decreases items@, 1int
//@   >>>
//@   loop 1 iter it <<<
            invariant
                it.seq().len() == items@.len(),
                forall|k: int| 0 <= k < items@.len() ==> *it.seq()[k] == items@[k],
                v@.len() == it.index@,
                forall|k: int| 0 <= k < it.index@ ==> data(Fmt::Toml, *(#[trigger] items@[k])) is Some,
                forall|k: int| 0 <= k < it.index@ ==> tview(#[trigger] v@[k]) == data(Fmt::Toml, *items@[k])->Some_0,
//@   >>>
//@   before "v.push" <<<
            assert(*val == items@[it.index@]);
//@   >>>
//@   after_loop 1 <<<
        assert(tlist(v@) =~= list_entries(Fmt::Toml, items@, items@.len() as int));
//@   >>>
//@   mutant list_element_skipped_on_error "v.push(self.convert_value(val)?);" => "match self.convert_value(val) { Ok(x) => { v.push(x); } Err(_) => { } }" expect convert_list
//@   mutant list_built_in_reverse "v.push(self.convert_value(val)?);" => "v.push(self.convert_value(&items[items.len() - 1 - v.len()])?);" expect convert_list
//@ end

//@ extract src/convert/toml.rs :: impl TomlConverter :: fn convert_tuple
//@   subst "-> Result" => "-> TomlResult"
//@   ret r
//@   sig <<<
        ensures toml_agrees(tuple_data(Fmt::Toml, items@), r)
        decreases items@, 1int
//@   >>>
//@   loop 1 iter it <<<
            invariant
                it.seq().len() == items@.len(),
                forall|k: int| 0 <= k < items@.len() ==> *it.seq()[k] == items@[k],
                forall|k: int| 0 <= k < it.index@ ==> data(Fmt::Toml, *(#[trigger] items@[k]).1) is Some,
                tobj(mp@) =~= obj_fold(true, tuple_entries(Fmt::Toml, items@, it.index@ as int)),
//@   >>>
//@   before "mp.entry" <<<
            proof {
                let n = it.index@ as int;
                assert(items@[n].0 == *k && items@[n].1 == *v);
                assert(tuple_entries(Fmt::Toml, items@, n + 1).drop_last() =~= tuple_entries(Fmt::Toml, items@, n));
                assert(tuple_entries(Fmt::Toml, items@, n + 1).last() == (k@, data(Fmt::Toml, **v)->Some_0));
            }
//@   >>>
//@   mutant null_field_dropped "mp.entry(k.to_string()).or_insert(self.convert_value(v)?);" => "if let Val::Empty = **v { } else { mp.entry(k.to_string()).or_insert(self.convert_value(v)?); }" expect convert_tuple
//@   mutant field_error_swallowed "mp.entry(k.to_string()).or_insert(self.convert_value(v)?);" => "match self.convert_value(v) { Ok(x) => { mp.entry(k.to_string()).or_insert(x); } Err(_) => { } }" expect convert_tuple
//@ end

//@ extract src/convert/toml.rs :: impl TomlConverter :: fn convert_env
//@   subst "-> Result" => "-> TomlResult"
//@   ret r
//@   sig <<<
        ensures toml_agrees(env_data(Fmt::Toml, items@), r)
//@   >>>
//@   loop 1 iter it <<<
            invariant
                it.seq().len() == items@.len(),
                forall|k: int| 0 <= k < items@.len() ==> *it.seq()[k] == items@[k],
                tobj(mp@) =~= obj_fold(true, env_entries(items@, it.index@ as int)),
//@   >>>
//@   before "mp.entry" <<<
            proof {
                let n = it.index@ as int;
                assert(items@[n].0 == *k && items@[n].1 == *v);
                assert(env_entries(items@, n + 1).drop_last() =~= env_entries(items@, n));
                assert(env_entries(items@, n + 1).last() == (k@, D::Str(v@)));
            }
//@   >>>
//@   mutant env_key_value_swapped "mp.entry(k.to_string()) .or_insert(toml::Value::String(v.to_string()));" => "mp.entry(v.to_string()) .or_insert(toml::Value::String(k.to_string()));" expect convert_env
//@ end

//@ extract src/convert/toml.rs :: impl TomlConverter :: fn convert_value
//@   rule R3
//@   subst "-> Result" => "-> TomlResult"
//@   subst all "Box::new(err)" => "verif_box_dyn_error(err)"
//@   subst "toml::Value::Boolean(b)" => "toml::Value::Boolean(*b)"
//@   subst "toml::Value::Float(f)" => "toml::Value::Float(*f)"
//@   subst "toml::Value::Integer(i)" => "toml::Value::Integer(*i)"
//@   ret r
//@   sig <<<
        ensures toml_agrees(data(Fmt::Toml, *v), r)
        decreases *v, 0int
//@   >>>
//@   mutant null_accepted_as_empty_string "&Val::Empty => {" => "&Val::Empty => { if true { return Ok(toml::Value::String(String::new())); }" expect convert_value
//@   mutant constraint_accepted "&Val::Constraint(_) => {" => "&Val::Constraint(_) => { if true { return Ok(toml::Value::Boolean(true)); }" expect convert_value
// (these two are written against the text after the `*` substitutions above)
//@   mutant int_through_f64 "toml::Value::Integer(*i)" => "toml::Value::Float(*i as f64)" expect convert_value
//@   mutant bool_negated "toml::Value::Boolean(*b)" => "toml::Value::Boolean(!*b)" expect convert_value
//@ end

} // verus!

fn main() {}
