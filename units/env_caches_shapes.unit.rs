//@ unit env_caches_shapes
//@ serves C16
//@ must_verify Checker::new Checker::with_working_dir Checker::with_shape_cache Checker::with_import_stack Checker::with_strict Checker::result Checker::import_shape_at Checker::resolve_import PositionedItem::new PositionedItem::new_with_pos verif_map_collect verif_contains_path lemma_hit_is_what_a_fresh_resolution_yields lemma_hit_depends_on_its_own_slot_only lemma_failed_import_leaves_no_entry
// C16 (narrow kernel, part 2) - coherence of the type checker's SHAPE cache for imports (shared by every file of one
// invocation through Environment.shape_cache): Checker::resolve_import (ast/typecheck/mod.rs) looks the cache up and
// fills it under ONE key, the resolved path; a hit yields exactly what resolving the same import expression afresh
// yields; a failed resolution (cycle, unreadable, syntax error, type error) leaves no entry for the file.
//
// Verified text (all extracted): Checker::{resolve_import, import_shape_at, new, with_working_dir, with_shape_cache,
// with_import_stack, with_strict, result}, PositionedItem::{new, new_with_pos}, the Shape type family.
// Model: R11 - `self.shape_cache.borrow()/borrow_mut()` -> an explicit `cache: &mut BTreeMap<PathBuf, Shape>`
// parameter (the child checker's walk gets it too); the child's walk is the uninterpreted, cache-INDEPENDENT
// function spec_walk (= the induction hypothesis: "the cache is coherent, so the imported file's own imports resolve
// as they would afresh") and changes the cache by `child_effect` (entries only added; none for a file on its import
// stack) - which is what resolve_post provides one level down. The induction itself is not done.
//
// GENUINE DEFECT found by the hit clause on the pinned tree (fixed by /scratch/patches/env_caches_shapepos.patch, also
// part of env_caches.patch; this unit is written against the FIXED text, the pinned behaviour is the seeded mutant
// `hit_serves_the_first_importers_shape`): a hit returned `cached.clone()`, and the cached shape (and every field name
// in it) carries the position of the import expression that resolved the file FIRST - possibly in another file of the
// batch. `ucg build a.ucg b.ucg` (a.ucg line 1: `let lib = import "lib.ucg";`, b.ucg line 4: `let l = import "lib.ucg";
// let f = func(a :: {foo = str}) => a.foo; let y = f(l);`) reports b's type error "at file: a.ucg line: 1 column: 18";
// `ucg build b.ucg` alone reports "b.ucg line: 4 column: 16". On the unfixed tree this unit is UNDECIDED
// (Checker::import_shape_at does not exist there).
//@ include prelude/head.rs
use std::rc::Rc;
use vstd::std_specs::convert::*;

verus! {
//@ include prelude/core.rs
//@ opaque Statement CommentMap ErrorType Position
//@ clone_spec Position
impl Position {
    #[verifier::external_body]
    pub fn new(line: usize, column: usize, offset: usize) -> Self { unimplemented!() }
}
//@ include prelude/env_caches_world.rs

// ---------- the Shape types (ast/mod.rs), extracted ----------
//@ extract src/ast/mod.rs :: struct PositionedItem
//@   rule R0
//@ end
//@ extract src/ast/mod.rs :: type TupleShape
//@ end
//@ extract src/ast/mod.rs :: struct FuncShapeDef
//@   rule R0 RV
//@ end
//@ extract src/ast/mod.rs :: struct ModuleShape
//@   rule R0 RV
//@ end
//@ extract src/ast/mod.rs :: enum ImportShape
//@   rule R0
//@ end
//@ extract src/ast/mod.rs :: enum NarrowingShape
//@   rule R0
//@ end
//@ extract src/ast/mod.rs :: struct NarrowedShape
//@   rule R0
//@ end
//@ extract src/ast/mod.rs :: enum Shape
//@   rule R0
//@ end
// R0: #[derive(Clone)] is structural
//@ clone_spec Shape
// monomorphised by subst: every caller in this unit passes a `Position`, for which std's reflexive `Into` is the identity
//@ extract src/ast/mod.rs :: impl<T> PositionedItem<T> :: fn new
//@   subst "new<P: Into<Position>>(v: T, p: P)" => "new(v: T, p: Position)"
//@   subst "p.into()" => "p"
//@   ret r
//@   sig <<<
        ensures r.val == v, r.pos == p
//@   >>>
//@ end
//@ extract src/ast/mod.rs :: impl<T> PositionedItem<T> :: fn new_with_pos
//@   ret r
//@   sig <<<
        ensures r.val == v, r.pos == pos
//@   >>>
//@ end

//@ include prelude/env_caches_front.rs
//@ include prelude/env_caches_shapes.rs

// `crate::path::normalize` (src/path.rs; resolves `.` and `..` lexically): an uninterpreted function of the path here.  The cache
// key and the import-stack entry of an import are the NORMALIZED join of the checker's directory and the path as written (fix
// 3b19e40: joined-but-not-normalized keys made cycles through `..` invisible).  Which spellings it identifies: bounded stand-in c09.
pub uninterp spec fn spec_norm(p: Seq<char>) -> Seq<char>;
pub open spec fn key_of(dir: Seq<char>, rel: Seq<char>) -> Seq<char> { spec_norm(spec_join(dir, rel)) }
pub mod path {
    use vstd::prelude::*;
    use super::*;
    #[verifier::external_body]
    pub fn normalize(p: PathBuf) -> (r: PathBuf) ensures r@ == spec_norm(p@) { unimplemented!() }
}

//@ extract src/ast/typecheck/mod.rs :: impl Checker :: fn with_import_stack
//@   rule R4
//@   ret r
//@   sig <<<
        ensures r.st() == (CkState { istack: path_texts(stack@), ..self.st() })
//@   >>>
//@ end
//@ extract src/ast/typecheck/mod.rs :: impl Checker :: fn with_strict
//@   rule R4
//@   ret r
//@   sig <<<
        ensures r.st() == (CkState { strict: strict, ..self.st() })
//@   >>>
//@ end

// ---------- what an import shape IS ----------
pub type Exports = Seq<(Rc<str>, Shape)>;
// the names and shapes a resolved import shape carries
pub open spec fn exports_in(s: Shape) -> Exports {
    match s {
        Shape::Import(ImportShape::Resolved(_, f)) => Seq::new(f@.len(), |i: int| (f@[i].0.val, f@[i].1)),
        _ => Seq::empty(),
    }
}
// `s` is THE shape of an import expression at `pos` of a file that exports `ex`: the shape and every field name are
// positioned at the import expression
pub open spec fn import_at(s: Shape, pos: Position, ex: Exports) -> bool {
    s matches Shape::Import(ImportShape::Resolved(p, f)) && p == pos && f@.len() == ex.len()
    && forall|i: int| 0 <= i < f@.len() ==> (#[trigger] f@[i]).0.pos == pos && f@[i].0.val == ex[i].0 && f@[i].1 == ex[i].1
}

// the checker a file is imported with (Checker::new() + shared cache + the parent's stack with the file on top + the
// parent's strictness + the file's directory)
pub open spec fn child_state(key: Seq<char>, sc: ShapeCache, strict: bool, istack: Seq<Seq<char>>) -> CkState {
    CkState {
        symbols: Map::empty(), errs: Seq::empty(), shapes: Seq::empty(), depth: 0, strict: strict,
        dir: spec_parent(key), cache: sc, istack: istack.push(key),
    }
}
// what resolving the file `key` AFRESH yields: read, parse, check with a child checker, list the bindings
pub enum Fresh { Unreadable, SyntaxError, TypeError, Exports(Exports) }
pub open spec fn fresh_import(key: Seq<char>, sc: ShapeCache, strict: bool, istack: Seq<Seq<char>>) -> Fresh {
    match fs_text(key) {
        None => Fresh::Unreadable,
        Some(text) => match spec_parse(text, Some(key)) {
            None => Fresh::SyntaxError,
            Some(stmts) => {
                let done = spec_walk(child_state(key, sc, strict, istack), stmts).0;
                if done.errs.len() == 0 { Fresh::Exports(map_items::<Rc<str>, Shape>(done.symbols)) } else { Fresh::TypeError }
            },
        },
    }
}

// What checking an imported file does to the shared cache (it resolves that file's own imports through it).
// ASSUMED of the child (it is what resolve_post below provides one level down): entries are only added, never replaced
// or removed; no entry appears for a file that is on the child's import stack (resolving it is a cycle error).
pub open spec fn child_effect(child: CkState, c0: Map<Seq<char>, Shape>, c1: Map<Seq<char>, Shape>) -> bool {
    &&& forall|k: Seq<char>| #[trigger] c0.contains_key(k) ==> c1.contains_key(k) && c1[k] == c0[k]
    &&& forall|k: Seq<char>| #[trigger] child.istack.contains(k) && !c0.contains_key(k) ==> !c1.contains_key(k)
}
impl Checker {
    // Walker::walk_statement_list over the imported file, R11: the shared cache as an explicit parameter.
    // ASSUMED: the outcome is the cache-independent function spec_walk (the induction hypothesis "the cache is
    // coherent, so the imports of the imported file resolve as they would afresh"), the cache changes by child_effect.
    #[verifier::external_body]
    pub fn walk_statement_list_shared(&mut self, stmts: &mut Vec<Statement>, cache: &mut BTreeMap<PathBuf, Shape>)
        ensures
            (final(self).st(), final(stmts)@) == spec_walk(old(self).st(), old(stmts)@),
            child_effect(old(self).st(), old(cache)@, final(cache)@),
    { unimplemented!() }
}

// THE CONTRACT of Checker::resolve_import (shape cache: looked up and filled under ONE key, the resolved path).
//   no working dir => unresolved, nothing touched;
//   hit  => the cached exports, positioned at THIS import expression - exactly what a fresh resolution yields -, cache unchanged;
//   miss => cycle / unreadable / syntax error: error or unresolved shape, cache unchanged;
//           type error in the file: error shape, NO entry for the file (the cache holds what the child left);
//           success: THE import shape at `pos` of the file's bindings, stored under the key.
pub open spec fn resolve_post(
    st0: CkState, path: Seq<char>, pos: Position, c0: Map<Seq<char>, Shape>, c1: Map<Seq<char>, Shape>, r: Shape,
) -> bool {
    match st0.dir {
        None => r is Import && r->Import_0 is Unresolved && c1 =~= c0,
        Some(dir) => {
            let key = key_of(dir, path);
            if c0.contains_key(key) {
                &&& c1 =~= c0
                &&& match c0[key] {
                    Shape::Import(ImportShape::Resolved(_, _)) => import_at(r, pos, exports_in(c0[key])),
                    other => r == other,
                }
            } else if st0.istack.contains(key) {
                r is TypeErr && c1 =~= c0
            } else {
                match fresh_import(key, st0.cache, st0.strict, st0.istack) {
                    Fresh::Unreadable => r is Import && r->Import_0 is Unresolved && c1 =~= c0,
                    Fresh::SyntaxError => r is TypeErr && c1 =~= c0,
                    Fresh::TypeError => r is TypeErr && !c1.contains_key(key)
                        && child_effect(child_state(key, st0.cache, st0.strict, st0.istack), c0, c1),
                    Fresh::Exports(ex) => import_at(r, pos, ex) && c1.contains_key(key) && c1[key] == r
                        && child_effect(child_state(key, st0.cache, st0.strict, st0.istack), c0, c1.remove(key)),
                }
            }
        },
    }
}

//@ extract src/ast/typecheck/mod.rs :: impl Checker :: fn import_shape_at
//@   ret r
//@   sig <<<
        ensures match *cached {
            Shape::Import(ImportShape::Resolved(_, _)) => import_at(r, *pos, exports_in(*cached)),
            other => r == other,
        }
//@   >>>
//@   mutant field_names_keep_the_first_importers_position "PositionedItem::new(name.val.clone(), pos.clone())" => "PositionedItem::new(name.val.clone(), name.pos.clone())" expect import_shape_at
//@   mutant every_field_gets_the_first_shape "shape.clone(), ));" => "fields[0].1.clone(), ));" expect import_shape_at
//@   loop 1 iter it
//@   loop 1 <<<
            invariant
                positioned@.len() == it.index@,
                forall|j: int| 0 <= j < it.index@ ==> (#[trigger] positioned@[j]).0.pos == *pos
                    && positioned@[j].0.val == fields@[j].0.val && positioned@[j].1 == fields@[j].1,
//@   >>>
//@ end

//@ extract src/ast/typecheck/mod.rs :: impl Checker :: fn resolve_import
//@   rule R1
//@   subst "fn resolve_import(&mut self, path: &str, pos: &Position)" => "fn resolve_import(&mut self, path: &str, pos: &Position, cache: &mut BTreeMap<PathBuf, Shape>)"
//@   subst "self.shape_cache.borrow().get(&resolved_path)" => "cache.get(&resolved_path)"
//@   subst "self.import_stack.contains(&resolved_path)" => "verif_contains_path(&self.import_stack, &resolved_path)"
//@   subst "std::fs::read_to_string" => "std_fs::read_to_string"
//@   subst "|p| p.to_path_buf()" => "|p: &Path| -> (r: PathBuf) ensures r@ == p@ { p.to_path_buf() }"
//@   subst "child_checker.walk_statement_list(stmts.iter_mut().collect())" => "child_checker.walk_statement_list_shared(&mut stmts, cache)"
//@   subst "symbol_table .iter() .map(|(name, shape)| {" => "verif_map_collect(symbol_table.iter(), |e__: (&Rc<str>, &Shape)| -> (out: (PositionedItem<Rc<str>>, Shape)) ensures out.0.pos == *pos && out.0.val == *e__.0 && out.1 == *e__.1 { let (name, shape) = e__;"
//@   subst "}) .collect();" => "});"
//@   subst "self.shape_cache .borrow_mut() .insert(resolved_path, resolved.clone());" => "cache.insert(resolved_path, resolved.clone());"
// Seeded mutants. `hit_serves_the_first_importers_shape` is the PINNED tree's behaviour (the defect this unit found).
//@   mutant hit_serves_the_first_importers_shape "return Self::import_shape_at(cached, pos);" => "return cached.clone();" expect resolve_import
//@   mutant key_not_normalized "crate::path::normalize(working_dir.join(path))" => "working_dir.join(path)" expect resolve_import
//@   mutant stored_under_the_unresolved_path ".insert(resolved_path, resolved.clone())" => ".insert(PathBuf::from(path), resolved.clone())" expect resolve_import
//@   mutant looked_up_under_the_unresolved_path "get(&resolved_path)" => "get(&PathBuf::from(path))" expect resolve_import
//@   mutant reads_the_unresolved_path "std::fs::read_to_string(&resolved_path)" => "std::fs::read_to_string(&PathBuf::from(path))" expect resolve_import
//@   mutant type_error_leaves_an_entry "Err(err) => {" => "Err(err) => { cache.insert(resolved_path.clone(), Shape::TypeErr(pos.clone(), String::new()));" expect resolve_import
//@   mutant cycle_check_dropped "if self.import_stack.contains(&resolved_path) {" => "if false && self.import_stack.contains(&resolved_path) {" expect resolve_import
//@   body_start <<<
        broadcast use pclax::axiom_cloned_pathbuf;
//@   >>>
//@   before "child_checker.walk_statement_list_shared" <<<
        proof {
            let key = resolved_path@;
            let st0 = old(self).st();
            assert(path_texts(import_stack@) =~= st0.istack.push(key));
            assert(st0.istack.push(key)[st0.istack.len() as int] == key);
            assert(st0.istack.push(key).contains(key));
            assert(child_checker.st().istack == st0.istack.push(key));
            assert(child_checker.st().symbols =~= Map::<Seq<char>, Shape>::empty());
            assert(child_checker.st() == child_state(key, st0.cache, st0.strict, st0.istack));
        }
//@   >>>
//@   ret r
//@   sig <<<
        ensures
            resolve_post(old(self).st(), path@, *pos, old(cache)@, final(cache)@, r),
            final(self).st() == old(self).st(),
//@   >>>
//@ end

// ---------- what C16 needs from this contract ----------
// two shapes of one import expression that cannot be told apart: the same position, the same names and shapes, every
// name positioned alike
pub open spec fn same_import(a: Shape, b: Shape) -> bool {
    ||| a == b
    ||| (a matches Shape::Import(ImportShape::Resolved(pa, fa)) && b matches Shape::Import(ImportShape::Resolved(pb, fb))
         && pa == pb && fa@.len() == fb@.len()
         && forall|i: int| 0 <= i < fa@.len() ==> (#[trigger] fa@[i]).0.pos == fb@[i].0.pos && fa@[i].0.val == fb@[i].0.val
                && fa@[i].1 == fb@[i].1)
}

// (S1) A cache hit yields exactly what resolving the same import expression AFRESH yields.
//   E: an earlier resolution (any file, any position, any import stack) that filled the slot of `key`;
//   A: a later import expression naming the same file that finds the slot filled;
//   B: the same import expression resolved without the entry.
// Hypotheses spelled out: one shared cache cell and one strictness (what Environment::get_ops_for_path sets up), and
// the ONE assumption about the type checker: a check that SUCCEEDS does not depend on the import stack it was started
// with (the stack is only consulted to report cycles, and a reported cycle is an error).
pub proof fn lemma_hit_is_what_a_fresh_resolution_yields(
    key: Seq<char>,
    ste: CkState, pathe: Seq<char>, pose: Position, ce0: Map<Seq<char>, Shape>, ce1: Map<Seq<char>, Shape>, re: Shape,
    st: CkState, path: Seq<char>, pos: Position, ca0: Map<Seq<char>, Shape>, ca1: Map<Seq<char>, Shape>, ra: Shape,
    cb0: Map<Seq<char>, Shape>, cb1: Map<Seq<char>, Shape>, rb: Shape,
)
    requires
        ste.dir matches Some(d) && key == key_of(d, pathe),
        st.dir matches Some(d) && key == key_of(d, path),
        // E filled the slot
        !ce0.contains_key(key), resolve_post(ste, pathe, pose, ce0, ce1, re), re is Import && re->Import_0 is Resolved,
        // A finds what E stored (entries are never replaced: child_effect)
        ca0.contains_key(key) && ca0[key] == ce1[key], resolve_post(st, path, pos, ca0, ca1, ra),
        // B resolves the file afresh, successfully
        !cb0.contains_key(key), resolve_post(st, path, pos, cb0, cb1, rb), rb is Import && rb->Import_0 is Resolved,
        ste.cache == st.cache, ste.strict == st.strict,
        (fresh_import(key, st.cache, st.strict, ste.istack) is Exports && fresh_import(key, st.cache, st.strict, st.istack) is Exports)
            ==> fresh_import(key, st.cache, st.strict, ste.istack) == fresh_import(key, st.cache, st.strict, st.istack),
    ensures
        same_import(ra, rb),
        ca1 =~= ca0,
{
    let fe = fresh_import(key, st.cache, st.strict, ste.istack);
    let fb = fresh_import(key, st.cache, st.strict, st.istack);
    assert(fe is Exports);
    assert(fb is Exports);
    let ex = fe->Exports_0;
    assert(import_at(re, pose, ex));
    assert(import_at(rb, pos, ex));
    assert(exports_in(re) =~= ex) by {
        let f = re->Import_0->Resolved_1;
        assert forall|i: int| 0 <= i < f@.len() implies exports_in(re)[i] == ex[i] by {
            assert(f@[i].0.val == ex[i].0 && f@[i].1 == ex[i].1);
        }
    }
    assert(import_at(ra, pos, ex));
    let fa = ra->Import_0->Resolved_1;
    let fbb = rb->Import_0->Resolved_1;
    assert forall|i: int| 0 <= i < fa@.len() implies (#[trigger] fa@[i]).0.pos == fbb@[i].0.pos && fa@[i].0.val == fbb@[i].0.val
        && fa@[i].1 == fbb@[i].1 by {
        assert(fbb@[i].0.pos == pos);
    }
}

// (S2) Nothing is served for another path: what a hit yields is a function of the slot of ITS key alone.
pub proof fn lemma_hit_depends_on_its_own_slot_only(
    st: CkState, path: Seq<char>, pos: Position,
    ca0: Map<Seq<char>, Shape>, ca1: Map<Seq<char>, Shape>, ra: Shape,
    cb0: Map<Seq<char>, Shape>, cb1: Map<Seq<char>, Shape>, rb: Shape,
)
    requires
        st.dir is Some,
        ca0.contains_key(key_of(st.dir->Some_0, path)), cb0.contains_key(key_of(st.dir->Some_0, path)),
        ca0[key_of(st.dir->Some_0, path)] == cb0[key_of(st.dir->Some_0, path)],
        resolve_post(st, path, pos, ca0, ca1, ra), resolve_post(st, path, pos, cb0, cb1, rb),
    ensures same_import(ra, rb), ca1 =~= ca0, cb1 =~= cb0,
{
    let key = key_of(st.dir->Some_0, path);
    if ca0[key] is Import && ca0[key]->Import_0 is Resolved {
        let fa = ra->Import_0->Resolved_1;
        let fb = rb->Import_0->Resolved_1;
        assert forall|i: int| 0 <= i < fa@.len() implies (#[trigger] fa@[i]).0.pos == fb@[i].0.pos && fa@[i].0.val == fb@[i].0.val
            && fa@[i].1 == fb@[i].1 by {
            assert(fb@[i].0.pos == pos);
        }
    }
}

// (S3) A failed resolution (cycle, unreadable file, syntax error, type error in the file) leaves no entry for the file.
pub proof fn lemma_failed_import_leaves_no_entry(
    st: CkState, path: Seq<char>, pos: Position, c0: Map<Seq<char>, Shape>, c1: Map<Seq<char>, Shape>, r: Shape,
)
    requires
        st.dir is Some, !c0.contains_key(key_of(st.dir->Some_0, path)),
        resolve_post(st, path, pos, c0, c1, r),
        r is TypeErr || (r is Import && r->Import_0 is Unresolved),
    ensures
        !c1.contains_key(key_of(st.dir->Some_0, path)),
        // and every other entry is still there, unchanged
        forall|k: Seq<char>| #[trigger] c0.contains_key(k) ==> c1.contains_key(k) && c1[k] == c0[k],
{
}

} // verus!

fn main() {}
