//@ unit collector
//@ serves C13
//@ must_verify AssertCollector::new AssertCollector::record_assert_result lemma_entries_push lemma_failures_all_ok
//@ include prelude/head.rs

// C13, the collector: `AssertCollector::{new, record_assert_result}` (build/mod.rs) verbatim.
// Everything (struct, abstract view, contracts, mutants) lives in prelude/collector_model.rs because the units
// assert_hook and verdict verify the same two functions again underneath their own code.
verus! {
//@ include prelude/core.rs
//@ include prelude/collector_model.rs

} // verus!

fn main() {}
