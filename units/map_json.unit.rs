//@ unit map_json
//@ serves C03
//@ must_verify JsonConverter::convert_value JsonConverter::convert_list JsonConverter::convert_tuple JsonConverter::convert_env lemma_obj_fold data list_data tuple_data jview d_num_agree lemma_list_num_agree lemma_obj_num_agree lemma_or_insert_agree lemma_one_shl
//@ include prelude/head.rs
use std::rc::Rc;

verus! {
//@ include prelude/core.rs
//@ include prelude/map_json_data.rs
//@ include prelude/map_json_models.rs

// C03, the ucg-owned half for JSON: `Val -> serde_json::Value`.
// For ALL values v (any nesting, any strings, any i64, any f64, duplicate field names included):
//   convert_value(v) is Ok(j)  <=>  data(Json, v) is a tree, and then  jview(j) AGREES with that tree (d_num_agree,
//                                   prelude/map_json_models.rs): same nesting, list length and order, key set,
//                                   identical strings, same booleans / nulls, and NUMBERS OF EQUAL NUMERIC VALUE: a float
//                                   is that float; the integer i is the integer i or a double that denotes exactly i
//                                   (`42.0` for 42) - never a double that denotes a neighbour of i.
//   convert_value(v) is Err    <=>  data(Json, v) is None  (a non-finite float or a constraint value somewhere
//                                   inside v - nothing is dropped or defaulted to make the rest go through).

//@ extract src/convert/json.rs :: struct JsonConverter
//@   rule R0
//@ end

//@ extract src/convert/json.rs :: impl JsonConverter :: fn convert_list
//@   ret r
//@   sig <<<
        ensures json_agrees(list_data(Fmt::Json, items@), r)
        decreases items@, 1int
//@   >>>
//@   loop 1 iter it <<<
            invariant
                it.seq().len() == items@.len(),
                forall|k: int| 0 <= k < items@.len() ==> *it.seq()[k] == items@[k],
                v@.len() == it.index@,
                forall|k: int| 0 <= k < it.index@ ==> data(Fmt::Json, *(#[trigger] items@[k])) is Some,
                forall|k: int| 0 <= k < it.index@ ==> d_num_agree(data(Fmt::Json, *items@[k])->Some_0, jview(#[trigger] v@[k])),
//@   >>>
//@   before "v.push" <<<
            assert(*val == items@[it.index@]);
//@   >>>
//@   after_loop 1 <<<
        proof {
            let want = list_entries(Fmt::Json, items@, items@.len() as int);
            assert forall|k: int| 0 <= k < want.len() implies d_num_agree(want[k], #[trigger] jlist(v@)[k]) by {
                assert(d_num_agree(data(Fmt::Json, *items@[k])->Some_0, jview(v@[k])));
            }
            lemma_list_num_agree(want, jlist(v@));
        }
//@   >>>
//@   mutant list_element_skipped_on_error "v.push(self.convert_value(val)?);" => "match self.convert_value(val) { Ok(x) => { v.push(x); } Err(_) => { } }" expect convert_list
//@   mutant list_built_in_reverse "v.push(self.convert_value(val)?);" => "v.push(self.convert_value(&items[items.len() - 1 - v.len()])?);" expect convert_list
//@   mutant list_first_element_twice "v.push(self.convert_value(val)?);" => "v.push(self.convert_value(&items[0])?);" expect convert_list
//@ end

//@ extract src/convert/json.rs :: impl JsonConverter :: fn convert_tuple
//@   ret r
//@   sig <<<
        ensures json_agrees(tuple_data(Fmt::Json, items@), r)
        decreases items@, 1int
//@   >>>
//@   loop 1 iter it <<<
            invariant
                it.seq().len() == items@.len(),
                forall|k: int| 0 <= k < items@.len() ==> *it.seq()[k] == items@[k],
                forall|k: int| 0 <= k < it.index@ ==> data(Fmt::Json, *(#[trigger] items@[k]).1) is Some,
                obj_num_agree(obj_fold(true, tuple_entries(Fmt::Json, items@, it.index@ as int)), jobj(mp@)),
//@   >>>
//@   before "mp.entry" <<<
            proof {
                let n = it.index@ as int;
                let e1 = tuple_entries(Fmt::Json, items@, n + 1);
                assert(items@[n].0 == *k && items@[n].1 == *v);
                assert(e1.drop_last() =~= tuple_entries(Fmt::Json, items@, n));
                assert(e1.last() == (k@, data(Fmt::Json, **v)->Some_0));
                // whatever convert_value returns for this field (x), if it agrees with the field's tree, the map with the
                // entry made agrees with the oracle's fold over the first n + 1 fields
                assert forall|x: serde_json::Value| d_num_agree(e1.last().1, jview(x))
                    implies obj_num_agree(obj_fold(true, e1), jobj(#[trigger] serde_json::or_insert_result(mp@, k@, x))) by {
                    lemma_or_insert_agree(obj_fold(true, e1.drop_last()), mp@, k@, e1.last().1, x);
                }
            }
//@   >>>
//@   mutant null_field_dropped "mp.entry(k.as_ref()).or_insert(self.convert_value(v)?);" => "if let Val::Empty = **v { } else { mp.entry(k.as_ref()).or_insert(self.convert_value(v)?); }" expect convert_tuple
//@   mutant field_error_swallowed "mp.entry(k.as_ref()).or_insert(self.convert_value(v)?);" => "match self.convert_value(v) { Ok(x) => { mp.entry(k.as_ref()).or_insert(x); } Err(_) => { } }" expect convert_tuple
//@ end

//@ extract src/convert/json.rs :: impl JsonConverter :: fn convert_env
//@   ret r
//@   sig <<<
        ensures json_agrees(env_data(Fmt::Json, items@), r)
//@   >>>
//@   loop 1 iter it <<<
            invariant
                it.seq().len() == items@.len(),
                forall|k: int| 0 <= k < items@.len() ==> *it.seq()[k] == items@[k],
                obj_num_agree(obj_fold(true, env_entries(items@, it.index@ as int)), jobj(mp@)),
//@   >>>
//@   before "mp.entry" <<<
            proof {
                let n = it.index@ as int;
                let e1 = env_entries(items@, n + 1);
                assert(items@[n].0 == *k && items@[n].1 == *v);
                assert(e1.drop_last() =~= env_entries(items@, n));
                assert(e1.last() == (k@, D::Str(v@)));
                assert forall|x: serde_json::Value| jview(x) == D::Str(v@)
                    implies obj_num_agree(obj_fold(true, e1), jobj(#[trigger] serde_json::or_insert_result(mp@, k@, x))) by {
                    lemma_or_insert_agree(obj_fold(true, e1.drop_last()), mp@, k@, D::Str(v@), x);
                }
            }
//@   >>>
//@   mutant env_key_value_swapped "mp.entry(k.as_ref()) .or_insert(serde_json::Value::String(v.to_string()));" => "mp.entry(v.as_ref()) .or_insert(serde_json::Value::String(k.to_string()));" expect convert_env
//@ end

//@ extract src/convert/json.rs :: impl JsonConverter :: fn convert_value
//@   rule R1 R3(f,i)
//@   subst "serde_json::Value::Bool(b)" => "serde_json::Value::Bool(*b)"
//@   subst all "std::io::Error::new" => "verif_io_error"
//@   ret r
//@   subst "i as f64" => "verif_i64_as_f64(i)"
//@   sig <<<
        ensures
            // ONE clause for every kind of value, integers included
            json_agrees(data(Fmt::Json, *v), r),
        decreases *v, 0int
//@   >>>
//@   body_start <<<
        broadcast use map_json_axioms::axiom_i64_to_f64_exact;
        proof { lemma_one_shl(); }
//@   >>>
//    The integer arm.  Repaired code (fix: json_int_exact): |i| <= 2^53 -> `Number::from_f64(i as f64)` (a double that
//    denotes exactly i, axiom_i64_to_f64_exact), every other integer -> `Number::from(i)` (the integer itself).
//    Mutants: every way of sending an integer that a double cannot hold through the float path, or of writing another integer.
//@   mutant threshold_dropped_all_ints_through_f64 "if i.unsigned_abs() > (1u64 << 53) {" => "if false {" expect convert_value
//@   mutant threshold_u64_max "(1u64 << 53)" => "u64::MAX" expect convert_value
//@   mutant threshold_2_pow_54 "1u64 << 53" => "1u64 << 54" expect convert_value
//@   mutant threshold_by_cast_round_trip "i.unsigned_abs() > (1u64 << 53)" => "verif_f64_as_i64(verif_i64_as_f64(i)) != i" expect convert_value
//@   mutant threshold_positive_side_only "i.unsigned_abs() > (1u64 << 53)" => "i > 9007199254740992" expect convert_value
//@   mutant big_int_off_by_one "serde_json::Number::from(i)" => "serde_json::Number::from(if i > 0 { i - 1 } else { i + 1 })" expect convert_value
//@   mutant big_int_through_f64 "serde_json::Number::from(i)" => "match serde_json::Number::from_f64(verif_i64_as_f64(i)) { Some(n) => n, None => serde_json::Number::from(i) }" expect convert_value
//@   mutant null_becomes_false "Val::Empty => serde_json::Value::Null" => "Val::Empty => serde_json::Value::Bool(false)" expect convert_value
//@   mutant constraint_becomes_null "&Val::Constraint(_) => {" => "&Val::Constraint(_) => { if true { return Ok(serde_json::Value::Null); }" expect convert_value
//@   mutant nonfinite_float_becomes_null "None => { return Err(std::io::Error::new( std::io::ErrorKind::InvalidData, format!(\"Float is too large or Not a Number {}\", f), )); }" => "None => { return Ok(serde_json::Value::Null); }" expect convert_value
//@ end

} // verus!

fn main() {}
