// ---- prelude/prec_tokens_spec.rs: the vocabulary that links units/prec_tokens.unit.rs (which PROVES it about
// parse_operand_list and the operator token recognisers) with units/prec.unit.rs (which may ASSUME it) ----
// Needs from the including unit: BinaryExprType, Element, Expression (opaque or extracted), Position (opaque),
// SliceIter (prelude/ap_slice.rs), `use std::rc::Rc;` before `verus!`.
//@ extract src/ast/mod.rs :: enum TokenType
//@   rule R0
//@ end
//@ extract src/ast/mod.rs :: struct Token
//@   rule R0
//@ end

// ---------- oracle: operator spelling -> operator ----------
// docsite/site/content/reference/expressions.md: "Selector operators" (`.`), "Numeric Operators" (+ - * /),
// "Comparison Operators" (== != >= <= < > in), "Type test expressions" (is), "Boolean Operators" (&& ||) and the
// table "Operator Precedence" (adds %% "Modulus", "Regex Match", !~ "Negated Regex Match").
// The table spells the regex match `=~`; the language has no such token (`"a" =~ "a"` is a parse error on the real
// binary), the operator is written `~` - as in units/hooks.py::DOC_OP the `=~` row is the row of the `~` token.
pub open spec fn punct_op(f: Seq<char>) -> Option<BinaryExprType> {
    if f == "."@ { Some(BinaryExprType::DOT) }
    else if f == "+"@ { Some(BinaryExprType::Add) }
    else if f == "-"@ { Some(BinaryExprType::Sub) }
    else if f == "*"@ { Some(BinaryExprType::Mul) }
    else if f == "/"@ { Some(BinaryExprType::Div) }
    else if f == "%%"@ { Some(BinaryExprType::Mod) }
    else if f == "&&"@ { Some(BinaryExprType::AND) }
    else if f == "||"@ { Some(BinaryExprType::OR) }
    else if f == "=="@ { Some(BinaryExprType::Equal) }
    else if f == "!="@ { Some(BinaryExprType::NotEqual) }
    else if f == "~"@ { Some(BinaryExprType::REMatch) }
    else if f == "!~"@ { Some(BinaryExprType::NotREMatch) }
    else if f == "<="@ { Some(BinaryExprType::LTEqual) }
    else if f == ">="@ { Some(BinaryExprType::GTEqual) }
    else if f == "<"@ { Some(BinaryExprType::LT) }
    else if f == ">"@ { Some(BinaryExprType::GT) }
    else { None }
}
pub open spec fn word_op(f: Seq<char>) -> Option<BinaryExprType> {
    if f == "in"@ { Some(BinaryExprType::IN) }
    else if f == "is"@ { Some(BinaryExprType::IS) }
    else { None }
}
// the operator a token spells (symbols are PUNCT tokens, `in`/`is` are BAREWORD tokens), if any
pub open spec fn tok_op(t: Token) -> Option<BinaryExprType> {
    match t.typ {
        TokenType::PUNCT => punct_op(t.fragment@),
        TokenType::BAREWORD => word_op(t.fragment@),
        _ => None,
    }
}
pub open spec fn cur_tok_op(i: SliceIter<Token>) -> Option<BinaryExprType> {
    if i.offset < i.source@.len() { tok_op(i.source@[i.offset as int]) } else { None }
}

// non_op_expression (src/parse/mod.rs, the whole expression grammar below the operator level) is OUTSIDE this unit
// (R8). Assumed only: a Complete result is over the same token slice and consumed at least one token. The two
// predicates are uninterpreted names for "non_op_expression may return e for tokens from..to" / "may fail at from";
// nothing is assumed about which expression it returns, nor that it is deterministic.
pub uninterp spec fn operand_at(src: Seq<Token>, from: int, to: int, e: Expression) -> bool;
pub uninterp spec fn operand_fails(src: Seq<Token>, from: int) -> bool;

// list[k] (k-th element of the operand list) covers the tokens a..b: an operand (even k) is what non_op_expression
// returned for that range; an operator (odd k) is exactly ONE token and is the operator that token spells.
pub open spec fn elem_at(src: Seq<Token>, el: Element, k: int, a: int, b: int) -> bool {
    0 <= a < b <= src.len()
    && if k % 2 == 0 { el is Expr && operand_at(src, a, b, *el->Expr_0) }
       else { el is Op && b == a + 1 && tok_op(src[a]) == Some(el->Op_0) }
}
// st[k] .. st[k+1] is the token range of list[k]; the ranges tile from..to in order, without gaps.
pub open spec fn layout(src: Seq<Token>, list: Seq<Element>, st: Seq<int>, from: int, to: int) -> bool {
    &&& st.len() == list.len() + 1 && st[0] == from && st[list.len() as int] == to
    &&& forall|k: int| 0 <= k < list.len() ==> elem_at(src, #[trigger] list[k], k, st[k], st[k + 1])
}
