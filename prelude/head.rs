#![feature(allocator_api)]
#![allow(unused_imports, unused_variables, unused_mut, dead_code, unused_macros, non_snake_case, unused_assignments, unreachable_code, unused_parens, unused_braces)]
// Assembled by /verif/fw/assemble.py on every run from /repo's current sources. Do not edit.
use vstd::prelude::*;
