"""C01 bounded stand-ins.

semantics_table: a table of small programs, one per construct / interaction the property names, with the value the language reference
defines for each (reviewed by hand against docsite/site/content/reference; recorded in golden_c01.json).  Evaluated through the real
FileBuilder::eval_string.  Bounded: exactly the listed programs.  Every entry added for the gap classes carries a `basis`:
  "reference"  the value follows from reference/expressions.md (worked out by hand, then compared with the pinned tree);
  "same value" a cast between primitive types keeps the value where the target type can hold it (int(3.0) is 3, float(2) is 2.0,
               int("-5") is -5, str(1.5) is "1.5"): forced by the word `cast`, the reference gives no table;
  "recorded"   the reference is silent (rounding direction of int(<fractional float>), which texts bool()/int() refuse, bool(<number>)):
               the value of the pinned tree, recorded so that a change of behaviour is reported; reviewed for plausibility only.

self_copies / self_copies_build: generated copy expressions with `self`, nested to depth 3, against the mini-UCG reference interpreter
of bounded/c10.py (`self` = base tuple of the innermost enclosing copy; the base of a nested copy is evaluated in the enclosing copy's
body; after a copy ends `self` is what it was before -- at top level: unbound).
cast_values: casts over pools of ints, floats and texts against a Python oracle (see there for what is forced and what is recorded).
closure_*: the C10 closure families (functions closing over their definition-time scope, per function VALUE), see bounded/c10.py."""
import json
import math
import os
import random
import re

import realcode as R
from . import c10 as X

HERE = os.path.dirname(os.path.abspath(__file__))
HOW = X.HOW

# Genuine defects of the real code inside these families (reported; excluded so that the stand-ins pass on HEAD).
KNOWN = [
]
# `ucg build` only (the type checker; FileBuilder::eval_string accepts all of these and yields the reference value).  The type checker refuses
# valid copy programs -- no invalid program is admitted, no value is wrong:
#   a. a copy whose base is a dotted path outside a copy body: `let t = {a = 1, inner = {a = 2}}; let x = t.inner{b = 1};` -> "Type error:
#      Invalid field selector" (same root as bounded/c10.py KNOWN_FIELD_CALL: the right operand of `.` is a copy / call expression);
#   b. a NEW field whose value is a copy of a tuple inside self: `let x = t{n1 = self.inner{q = 1}};` -> "Invalid field selector" (overriding
#      `inner = self.inner{..}` and `n1 = self{..}` pass);
#   c. fields added by a nested copy, by a function that copies its parameter or by a copying map callback are unknown afterwards:
#      `let x = t{inner = self.inner{n1 = 1}}; let y = x.inner.n1;` -> "Field 'n1' not found in tuple";
#      `let g = func (u) => u{z = 5}; let y = g(t).z;` -> "No candidate type has field 'z'".
# Excluded from the BUILDFILE self family (SelfGen(typed=True)) exactly: (a) copies at statement level / in function bodies take a plain name
# as base (the inner tuples are bound to names first), (b) new fields copy `self` but not `self.<path>`, (c) the values are pinned through a
# format expression (`"@{item.inner.n1}" % x`, whose selectors the type checker does not see) instead of top-level selectors.
# The eval family keeps all of these forms.
KNOWN_TYPED = 'ucg build refuses valid copy programs (type checker)'


def norm(out):
    o, ins, i = [], False, 0
    while i < len(out):
        ch = out[i]
        if ins:
            o.append(ch)
            if ch == '\\' and i + 1 < len(out):
                o.append(out[i + 1]); i += 1
            elif ch == '"':
                ins = False
        else:
            if ch == '"':
                ins = True; o.append(ch)
            elif not ch.isspace():
                o.append(ch)
        i += 1
    return re.sub(r',([\]\}])', r'\1', ''.join(o))


def standin_semantics_table(tier, seed):
    gold = json.load(open(os.path.join(HERE, 'golden_c01.json')))
    res = R.driver('eval', [g['program'] for g in gold])
    bound = ('%d programs covering operators, short-circuit, select, closures (several instances of one func expression), copy/self (nested), modules, map/filter/reduce over '
             'lists/tuples/strings, format, range, casts (edge cases), in/is, fail, and programs mixing closures + self + casts' % len(gold))
    for g, (st, out) in zip(gold, res):
        ok = st == g['status'] and (st != 'OK' or norm(out) == g['value'])
        if not ok:
            return dict(name='semantics_table', bound=bound, cases=len(gold), status='violation',
                        detail='`%s` evaluates to %s %s; the reference defines %s %s' % (g['program'].replace('\n', ' '), st, norm(out)[:200] if st == 'OK' else out[:200], g['status'], g['value'] or '(a build error)'),
                        input=dict(source=g['program'], expected='%s %s' % (g['status'], g['value'] or ''), observed='%s %s' % (st, out[:300]), how='replay driver `eval` (FileBuilder::eval_string)'))
    return dict(name='semantics_table', bound=bound, cases=len(gold), status='ok')


# ------------------------------------------------------------------ `self` inside copy expressions
TI = X.TI
INTF = ['a', 'b', 'c', 'd']
NEWF = ['n1', 'n2', 'n3', 'q', 'z2']


class SelfGen:
    """programs: two nested tuples (depth 3, all ints distinct), helper functions (one of which copies its argument using its own `self`),
    then copy statements whose bodies use `self` in overridden and new fields, in lists, in function-call arguments, in the base of nested
    copies (`self.inner{..}`, `self{..}`, another tuple`{..}`) before and after which `self` is used again, in map callbacks that copy"""

    def __init__(self, rnd, typed=False):
        self.rnd = rnd
        self.typed = typed                            # True: only forms the type checker of `ucg build` accepts (KNOWN_TYPED)
        self.vals = rnd.sample(range(1, 90), 40)
        self.ty, self.env, self.stmts, self.lets = {}, {}, [], []
        self.fresh_i = 0

    def val(self):
        return ('int', self.vals.pop())

    def tuple_lit(self, depth):
        rnd = self.rnd
        fs = [('a', TI, self.val())]
        for n in rnd.sample(INTF[1:], rnd.randint(1, 2)):
            fs.append((n, TI, self.val()))
        if rnd.random() < 0.4:
            fs.append(('l', ('L', TI, 2), ('list', [self.val(), self.val()])))
        if depth < 3:
            t, a = self.tuple_lit(depth + 1)
            fs.append(('inner', t, a))
        rnd.shuffle(fs)
        return ('T', tuple((n, t) for n, t, _ in fs)), ('tuple', [(n, a) for n, _, a in fs])

    def bind(self, name, t, a):
        self.ty[name] = t
        self.env[name] = X.cev(a, self.env)
        self.lets.append((name, a))
        self.stmts.append('let %s = %s;' % (name, X.csrc(a)))

    # every (expression, type) reachable from `root` of type t by field / index selection
    def leaves(self, root, t):
        out = [(root, t)]
        if t[0] == 'T':
            for n, ft in t[1]:
                out += self.leaves(('fld', root, n), ft)
        elif t[0] == 'L':
            for i in range(t[2]):
                out += self.leaves(('idx', root, i), t[1])
        return out

    def iexpr(self, self_t, d, loc=()):
        rnd = self.rnd
        selfints = [e for e, t in self.leaves(('self',), self_t) if t == TI] if self_t else []
        selftups = [e for e, t in self.leaves(('self',), self_t) if t[0] == 'T' and dict(t[1]).get('a') == TI] if self_t else []
        tops = [e for n, t in self.ty.items() if t[0] in 'TL' for e, lt in self.leaves(('ref', n), t) if lt == TI]
        opts = ['lit'] + ['self'] * 6 * bool(selfints) + ['top'] * bool(tops) + ['loc'] * 2 * bool(loc)
        if d > 0:
            opts += ['bin'] * 2 + ['f'] * 2 + ['gz'] * 2 * bool(selftups) + ['cpz'] * 2 * bool(selftups)
        c = rnd.choice(opts)
        if c == 'lit':
            return ('int', rnd.randint(1, 9))
        if c == 'self':
            return rnd.choice(selfints)
        if c == 'top':
            return rnd.choice(tops)
        if c == 'loc':
            return ('ref', rnd.choice(loc))
        if c == 'bin':
            return ('bin', rnd.choice('++-*'), self.iexpr(self_t, d - 1, loc), self.iexpr(self_t, d - 1, loc))
        if c == 'f':
            return ('call', ('ref', 'f'), [self.iexpr(self_t, d - 1, loc), self.iexpr(self_t, d - 1, loc)])
        if c == 'gz':                                 # g copies its argument with a self of its own
            return ('fld', ('call', ('ref', 'g'), [rnd.choice(selftups)]), 'z')
        selftups = [e for e in selftups if noidx(e)]
        base = rnd.choice(selftups)                   # a nested copy used for one of its fields: inside it self is ITS base
        bt = dict(self.leaves(('self',), self_t))[base]
        return ('fld', ('copy', base, [('z9', self.iexpr(bt, d - 1, loc))]), 'z9')

    def copy(self, base, bt, nest, loc=()):
        """copy expression over `base` (of tuple type bt); returns (type, ast)"""
        rnd = self.rnd
        fields = dict(bt[1])
        order = [n for n, _ in bt[1]]
        body, done = [], set()
        for _ in range(rnd.randint(2, 4) if nest < 3 else rnd.randint(1, 2)):
            ints = [n for n in order if fields[n] == TI and n not in done]
            tups = [n for n in order if fields[n][0] == 'T' and n not in done]
            lsts = [n for n in order if fields[n][0] == 'L' and fields[n][1] == TI and n not in done]
            news = [n for n in NEWF if n not in fields and n not in done]
            others = [(('ref', n), t) for n, t in self.ty.items() if t[0] == 'T']
            opts = ['ovr_int'] * 3 * bool(ints) + ['new_int'] * 3 * bool(news) + ['ovr_tup'] * 5 * bool(tups and nest < 3) + ['ovr_lst'] * bool(lsts)
            opts += (['new_self'] * 2 + ['new_other'] * 2 * bool(others) + ['new_list'] + ['new_g'] + ['new_map']) * bool(news and nest < 3)
            if not opts:
                break
            c = rnd.choice(opts)
            if c == 'ovr_int':
                n = rnd.choice(ints)
                t, a = TI, self.iexpr(bt, 2, loc)
            elif c == 'new_int':
                n = rnd.choice(news)
                t, a = TI, self.iexpr(bt, 2, loc)
            elif c == 'ovr_tup':
                n = rnd.choice(tups)
                t, a = self.copy(('fld', ('self',), n), fields[n], nest + 1, loc)
            elif c == 'ovr_lst':
                n = rnd.choice(lsts)
                t, a = fields[n], ('list', [self.iexpr(bt, 1, loc) for _ in range(fields[n][2])])
            elif c == 'new_self':                     # a copy of self itself / of a tuple inside self, as a new field
                n = rnd.choice(news)
                cands = [(e, t) for e, t in self.leaves(('self',), bt) if t[0] == 'T' and noidx(e) and (not self.typed or e == ('self',))]
                e, t0 = rnd.choice(cands)
                t, a = self.copy(e, t0, nest + 1, loc)
            elif c == 'new_other':                    # a copy of an unrelated tuple: inside it self is THAT tuple
                n = rnd.choice(news)
                e, t0 = rnd.choice(others)
                t, a = self.copy(e, t0, nest + 1, loc)
            elif c == 'new_list':
                n = rnd.choice(news)
                t, a = ('L', TI, 3), ('list', [self.iexpr(bt, 1, loc) for _ in range(3)])
            elif c == 'new_g':
                n = rnd.choice(news)
                cands = [(e, t) for e, t in self.leaves(('self',), bt) if t[0] == 'T' and dict(t[1]).get('a') == TI and 'z' not in dict(t[1])]
                if not cands:
                    continue
                e, t0 = rnd.choice(cands)
                t, a = ('T', t0[1] + (('z', TI),)), ('call', ('ref', 'g'), [e])
            else:
                n = rnd.choice(news)
                t = ('L', ('T', (('v', TI), ('w', TI))), 2)
                a = ('map', ('func', ['e'], ('copy', ('ref', 'e'), [('w', ('bin', '*', ('fld', ('self',), 'v'), ('int', rnd.randint(2, 5))))])),
                     ('list', [('tuple', [('v', self.iexpr(bt, 1, loc))]), ('tuple', [('v', self.iexpr(bt, 1, loc))])]))
            done.add(n)
            body.append((n, a))
            if n not in fields:
                order.append(n)
            fields[n] = t
        if not body:
            body = [('z8', self.iexpr(bt, 1, loc))]
            order.append('z8')
            fields['z8'] = TI
        return ('T', tuple((n, fields[n]) for n in order)), ('copy', base, body)

    def build(self, ncopies):
        rnd = self.rnd
        for name in ('t', 'o'):
            t, a = self.tuple_lit(1)
            self.bind(name, t, a)
            if self.typed:                            # inner tuples get names of their own
                ti = dict(t[1])['inner']
                self.bind(name + 'i', ti, ('fld', ('ref', name), 'inner'))
                self.bind(name + 'ii', dict(ti[1])['inner'], ('fld', ('fld', ('ref', name), 'inner'), 'inner'))
        self.bind('f', X.F2, ('func', ['x', 'y'], ('bin', '+', ('bin', '*', ('ref', 'x'), ('int', 10)), ('ref', 'y'))))
        self.bind('g', ('F', (), TI), ('func', ['u'], ('copy', ('ref', 'u'), [('z', ('bin', '+', ('fld', ('self',), 'a'), ('int', 1)))])))
        for i in range(ncopies):
            bases = [(e, t) for n, t0 in self.ty.items() if t0[0] == 'T' for e, t in self.leaves(('ref', n), t0) if t[0] == 'T' and noidx(e) and (not self.typed or e[0] == 'ref')]
            e, t0 = rnd.choice(bases)
            if rnd.random() < 0.25:                  # the copy stands in a function body; the function's parameter is used next to self
                t, a = self.copy(e, t0, 1, ('p',))
                self.bind('k%d' % i, ('F', (), TI), ('func', ['p'], a))
                self.bind('c%d' % i, t, ('call', ('ref', 'k%d' % i), [('int', rnd.randint(1, 9))]))
            else:
                t, a = self.copy(e, t0, 1)
                self.bind('c%d' % i, t, a)
        return self


def noidx(e):
    return e[0] != 'idx' and (e[0] != 'fld' or noidx(e[1]))


def self_programs(rnd, n, typed=False):
    out = []
    while len(out) < n:
        try:
            out.append(SelfGen(rnd, typed).build(rnd.randint(2, 4)))
        except X.TooBig:
            pass
    return out


SELF_BOUND = ('%d seeded programs: two nested tuple literals (depth 3, distinct ints), 2..4 copy statements (bases: the tuples, their inner tuples, earlier copies; a quarter inside a '
              'function body next to its parameter) whose bodies override and add int fields, lists, nested copies of self.<tuple> / self / another tuple (to depth 3, `self` used before and after '
              'them), call f(self.x, ..), call a function that copies its argument with its own self, take one field of a nested copy, map a copying callback over tuples built from self')


def standin_self_copies(tier, seed):
    rnd = random.Random(seed + 501)
    progs = self_programs(rnd, 250 if tier == 'thorough' else 40)
    cases, meta = [], []
    for g in progs:
        whole = '\n'.join(g.stmts)
        exp = dict((n, X.cshow(v)) for n, v in g.env.items())
        cases.append(whole); meta.append(exp)
        # after the copy ends `self` is gone: at top level, behind a copy inside one expression, inside a function called from a copy body
        last = X.csrc(g.lets[-1][1])
        cases.append(whole + '\nlet zz = self.a;'); meta.append(None)
        cases.append(whole + '\nlet zz = [%s, self.a];' % (last if g.lets[-1][1][0] == 'copy' else 't{n1 = self.a}')); meta.append(None)
        cases.append(whole + '\nlet leak = func (x) => self.a + x;\nlet zz = t{n1 = leak(1)};'); meta.append(None)
    order = sorted(range(len(cases)), key=lambda i: len(cases[i]))            # the shortest failing input is the one reported
    cases, meta = [cases[i] for i in order], [meta[i] for i in order]
    res = R.driver('eval', cases)
    bound = SELF_BOUND % len(progs) + '; each program also followed by `self` at top level, behind a finished copy in the same expression, and in a function called from a copy body (build errors)'
    for src_, exp, (st, out) in zip(cases, meta, res):
        bad = None
        if exp is None:
            if st != 'ERR':
                bad = '`self` outside the body of a copy must be a build error, observed %s %s' % (st, out[:200].replace('\n', ' '))
        else:
            got = X.cfields(out) if st == 'OK' else None
            if got is None:
                bad = 'must build, observed %s %s' % (st, out[:200].replace('\n', ' '))
            elif got != exp:
                bad = '; '.join('%s = %s, expected %s' % (n, got.get(n, '(unbound)'), exp.get(n, '(unbound)')) for n in sorted(set(got) | set(exp)) if got.get(n) != exp.get(n))
        if bad:
            return dict(name='self_copies', bound=bound, cases=len(cases), status='violation', detail='`%s`: %s' % (src_.replace('\n', ' '), bad),
                        input=dict(source=src_, expected='build error' if exp is None else json.dumps(exp, sort_keys=True), observed='%s %s' % (st, out[:800]), how=HOW['eval']))
    return dict(name='self_copies', bound=bound, cases=len(cases), status='ok')


def standin_self_copies_build(tier, seed):
    rnd = random.Random(seed + 1501)
    progs = self_programs(rnd, 200 if tier == 'thorough' else 30, typed=True)
    cases = []
    for g in progs:
        lines, tail = [], []
        for i, ((n, _), s) in enumerate(zip(g.lets, g.stmts)):
            lines.append(s)
            leaves = int_leaves('', g.env[n])
            if leaves:
                # one pin per binding, through a format expression (its embedded selectors are not subject to the type checker, see KNOWN_TYPED)
                chk = 'select (("%s" %% %s) == "%s") => {true = 1};' % (':'.join('@{item%s}' % p for p, _ in leaves), n, ':'.join(str(v) for _, v in leaves))
                lines.append('let chk%d = %s' % (2 * i, chk))
                tail.append('let chk%d = %s' % (2 * i + 1, chk))
        cases.append('\n'.join(lines + tail))
    cases.sort(key=len)
    res = R.driver('buildfile', cases)
    bound = SELF_BOUND % len(progs) + '; every int / int list inside every bound tuple pinned to the reference value right after its binding and again at the end of the file'
    return X.judge_build('self_copies_build', bound, cases, res)          # isolated type checker refusals are skipped (c10.KNOWN_TYPECHECK_RARE)


# ------------------------------------------------------------------ casts
I64_MAX = 2 ** 63 - 1
CAST_INTS = [0, 1, -1, 2, 7, -7, 10, 42, -42, 255, 1000, -1000, 2 ** 31 - 1, 2 ** 31, -(2 ** 31), 2 ** 32 + 1, 10 ** 15, -(10 ** 15), 2 ** 53, -(2 ** 53),
             2 ** 53 + 1, 10 ** 18, -(10 ** 18), I64_MAX, -I64_MAX, -I64_MAX - 1]
CAST_WHOLE = ['0.0', '1.0', '2.0', '3.0', '4.0', '10.0', '255.0', '1000000.0', '4294967296.0', '9007199254740992.0', '1000000000000000000.0']
CAST_FRAC = ['0.5', '1.5', '2.5', '3.5', '4.5', '0.25', '0.75', '0.1', '0.9', '0.999', '0.001', '1.001', '1.999', '2.999', '7.000001', '99.99', '123456.789', '1000000000.5',
             '4503599627370495.5', '0.49999999999999994', '0.5000000000000001']


def ilit(i):
    return str(i) if i >= 0 else ('(0 - %d)' % -i if i != -I64_MAX - 1 else '(0 - %d - 1)' % I64_MAX)


def cast_cases():
    """(expression, expected normalised Display, basis)"""
    cs = []
    for i in CAST_INTS:
        L = ilit(i)
        cs.append(('int(%s)' % L, str(i), 'same value'))
        cs.append(('str(%s)' % L, '"%d"' % i, 'same value'))
        cs.append(('int("%d")' % i, str(i), 'same value'))                       # signed text
        cs.append(('int(str(%s))' % L, str(i), 'same value'))
        cs.append(('str(int("%d"))' % i, '"%d"' % i, 'same value'))
        if abs(i) <= 2 ** 53:                                                    # exactly representable: the float has the same value
            F = '%d.0' % i if i >= 0 else '(0.0 - %d.0)' % -i
            cs.append(('float(%s) == %s' % (L, F), 'true', 'same value'))
            cs.append(('float(%s) is "float"' % L, 'true', 'same value'))
            cs.append(('float(%s) is "int"' % L, 'false', 'same value'))
            cs.append(('int(float(%s))' % L, str(i), 'same value'))
            cs.append(('int(%s)' % F, str(i), 'same value'))
            cs.append(('int(%s) is "int"' % F, 'true', 'same value'))
            cs.append(('float("%d") == %s' % (i, F), 'true', 'same value'))
            cs.append(('float(str(%s)) == %s' % (L, F), 'true', 'same value'))
    for w in CAST_WHOLE:
        n = int(float(w))
        for sign in (1, -1):
            F = w if sign > 0 else '(0.0 - %s)' % w
            cs.append(('int(%s)' % F, str(sign * n), 'same value'))
            cs.append(('float(%s) == %s' % (F, F), 'true', 'same value'))
            cs.append(('float(int(%s)) == %s' % (F, F), 'true', 'same value'))
    for x in CAST_FRAC:
        v = float(x)
        for sign in (1, -1):
            F = x if sign > 0 else '(0.0 - %s)' % x
            T = x if sign > 0 else '-' + x
            # the reference does not say which way int(<fractional float>) rounds; the pinned tree drops the fraction (toward zero, like the integer division
            # `(0 - 7) / 2 == -3` of the table): recorded
            cs.append(('int(%s)' % F, str(sign * math.trunc(v)), 'recorded'))
            cs.append(('int(%s) is "int"' % F, 'true', 'same value'))
            cs.append(('float(%s) == %s' % (F, F), 'true', 'same value'))
            cs.append(('float("%s") == %s' % (T, F), 'true', 'same value'))
            cs.append(('float(str(%s)) == %s' % (F, F), 'true', 'same value'))       # whatever the text looks like, it denotes the same number
            cs.append(('str(%s) is "str"' % F, 'true', 'same value'))
            cs.append(('int(%s) + int(%s)' % (F, x if sign < 0 else '(0.0 - %s)' % x), '0', 'recorded'))   # symmetric
            cs.append(('float(int(%s)) == %s' % (F, F), 'false', 'same value'))      # the fraction cannot survive an int
    for b in ('true', 'false'):
        cs.append(('bool("%s")' % b, b, 'same value'))
        cs.append(('str(%s)' % b, '"%s"' % b, 'same value'))
        cs.append(('bool(%s)' % b, b, 'same value'))
        cs.append(('bool(str(%s))' % b, b, 'same value'))
        cs.append(('str(bool("%s"))' % b, '"%s"' % b, 'same value'))
        cs.append(('bool("%s") is "bool"' % b, 'true', 'same value'))
    for s in ('', 'a', 'a b', '12', '1.5', 'true', 'NULL'):
        cs.append(('str("%s")' % s, '"%s"' % s, 'same value'))
    # not castable: a build error (reference: "a failed cast is a compile error", "do not resolve to a primitive type that is castable")
    for e in ['int("abc")', 'int("")', 'int("12abc")', 'int("1 2")', 'float("abc")', 'float("")', 'float("1.5.2")', 'bool("abc")', 'bool("")', 'int([1])', 'int({a = 1})', 'float([1.0])',
              'float({a = 1})', 'str([1])', 'str({a = 1})', 'bool([true])', 'bool({a = true})', 'int(func (x) => x)', 'str(func (x) => x)', 'int("9223372036854775808")',
              'int("-9223372036854775809")', 'int("99999999999999999999999")']:
        cs.append((e, None, 'reference'))
    # the pinned tree is "very conservative" here; the reference names no table: recorded
    for e in ['int("1.5")', 'int("2.0")', 'int(true)', 'int(false)', 'float(true)', 'bool(1)', 'bool(0)', 'bool(1.0)', 'bool("yes")', 'bool("True")', 'bool("1")', 'bool("0")', 'bool(NULL)', 'int(NULL)', 'float(NULL)']:
        cs.append((e, None, 'recorded'))
    return cs


def standin_cast_values(tier, seed):
    cs = cast_cases()
    # each expression on its own, inside a function body, inside a map callback and through the type checker
    progs = ['let x = %s;' % e for e, _, _ in cs]
    res = R.driver('eval', progs)
    wrapped = ['let f = func (u) => %s;\nlet x = f(0);' % e for e, _, _ in cs]
    res_w = R.driver('eval', wrapped)
    res_b = R.driver('buildfile', ['let x = %s;%s' % (e, '' if v is None else '\nlet chk = select (x == %s) => {true = 1};' % unshow(v)) for e, v, _ in cs])
    n_rec = len([1 for _, _, b in cs if b == 'recorded'])
    bound = ('%d cast expressions x {top level, inside a function body, `ucg build` with the value pinned}: int / str / float round trips over %d ints (signed texts, |i| up to 2^63), %d whole and %d fractional '
             'floats of both signs (.5 cases, just below / above .5, large magnitudes), bool / str of booleans, texts and values with no cast (build errors); %d of them record the pinned tree where the '
             'reference is silent (int(<fractional float>) drops the fraction toward zero; refused texts / operands)' % (len(cs), len(CAST_INTS), len(CAST_WHOLE), len(CAST_FRAC), n_rec))
    for (e, v, basis), p, w, (st, out), (stw, outw), (stb, outb) in zip(cs, progs, wrapped, res, res_w, res_b):
        for prog, how, s, o in ((p, HOW['eval'], st, out), (w, HOW['eval'], stw, outw)):
            got = (X.cfields(o) or {}).get('x') if s == 'OK' else None
            if (v is None and s != 'ERR') or (v is not None and got != v):
                return dict(name='cast_values', bound=bound, cases=3 * len(cs), status='violation',
                            detail='`%s` evaluates to %s %s; expected %s (%s)' % (prog.replace('\n', ' '), s, got if s == 'OK' else o[:160].replace('\n', ' '), v or 'a build error', basis),
                            input=dict(source=prog, expected=v or 'build error', observed='%s %s' % (s, o[:300]), how=how, basis=basis))
        if (v is None) != (stb != 'OK'):
            prog = 'let x = %s;%s' % (e, '' if v is None else '\nlet chk = select (x == %s) => {true = 1};' % unshow(v))
            return dict(name='cast_values', bound=bound, cases=3 * len(cs), status='violation',
                        detail='`%s`: expected %s (%s), observed %s %s' % (prog.replace('\n', ' '), 'a build that finds the pinned value' if v else 'a build error', basis, stb, outb[:200].replace('\n', ' ')),
                        input=dict(source=prog, expected=v or 'build error', observed='%s %s' % (stb, outb[:300]), how=HOW['buildfile'], basis=basis))
    return dict(name='cast_values', bound=bound, cases=3 * len(cs), status='ok')


# ------------------------------------------------------------------ select: which field a value names
# reference/expressions.md "Conditionals": the selected expression resolves "to a string or boolean naming the field to select"; "If the field
# selected is not in the tuple then the default value will be used.  If no default is specified then select will throw a compile failure for
# the unhandled case."  A boolean names the field `true` / `false` (the reference's own example), a string names the field of that text.
SEL_NAMES = ['true', 'false', 'on', 'off']
# (source of the selected expression, the field name it names)
SEL_CONDS = [('true', 'true'), ('false', 'false'), ('1 == 1', 'true'), ('1 == 2', 'false'), ('"true"', 'true'), ('"false"', 'false'), ('"on"', 'on'), ('"off"', 'off'),
             ('"zz"', 'zz'), ('"True"', 'True'), ('"FALSE"', 'FALSE'), ('"of" + "f"', 'off'), ('str(1 == 2)', 'false'), ('"tru"', 'tru'), ('"falsey"', 'falsey'), ('"o"', 'o')]
SEL_QUICK = ['true', 'false', '1 == 1', '1 == 2', '"true"', '"false"', '"on"', '"off"', '"zz"', '"True"', '"tru"', '"falsey"']


def sel_field_lists(tier, seed=0):
    import itertools
    out = []
    for k in (1, 2, 3) + ((4,) if tier == 'thorough' else ()):
        perms = list(itertools.permutations(SEL_NAMES, k))
        if tier != 'thorough' and k == 3:
            perms = perms[seed % 2::2]              # quick: every second list of three (which half depends on the seed)
        out += perms
    if tier != 'thorough':
        out += [('on', 'off', 'false', 'true'), ('off', 'true', 'on', 'false'), ('true', 'false', 'on', 'off'), ('false', 'on', 'true', 'off')]
    return out


def select_cases(tier, seed=0):
    """(program, expected value text or None for a build error, cond, fields, has default, form)"""
    cs = []
    for li, fl in enumerate(sel_field_lists(tier, seed)):
        for ci, (cond, names) in enumerate(SEL_CONDS):
            if tier != 'thorough' and cond not in SEL_QUICK:
                continue
            for dflt in (True, False):
                if tier != 'thorough' and cond.startswith('"') and (li + ci + dflt) % 2:     # quick: strings with OR without a default, alternating
                    continue
                # every second tuple quotes its field names ("quoted field" = .. is the same field, reference "Selector operators")
                quoted = (li + ci) % 2 == 1
                body = ', '.join('%s = "F:%s"' % (('"%s"' % n) if quoted else n, n) for n in fl)
                exp = ('"F:%s"' % names) if names in fl else ('"D"' if dflt else None)
                head = 'select (%s, "D")' if dflt else 'select (%s)'
                form = (li + ci + dflt) % 3
                if form == 0:       # the selected expression stands in the select
                    prog = 'let x = %s => {%s};' % (head % cond, body)
                elif form == 1:     # it is a function's parameter
                    prog = 'let f = func (c) => %s => {%s};\nlet x = f(%s);' % (head % 'c', body, cond)
                else:               # it is a field of a tuple / the select is a field value
                    prog = 'let t = {c = %s};\nlet r = {v = %s => {%s}};\nlet x = r.v;' % (cond, head % 't.c', body)
                cs.append((prog, exp, cond, fl, dflt, form))
    return cs


def standin_select_matrix(tier, seed):
    cs = select_cases(tier, seed)
    # the driver's Display does not escape a backslash inside a string: values holding one are compared inside the program instead
    def pin(c):
        return c[0] + '\nlet chk = (x == %s) || fail "PINNED-VALUE-DIFFERS";' % X.cshow(c[1])
    inprog = [c[1] is not None and '\\' in c[1] for c in cs]
    progs = [pin(c) if ip else c[0] for c, ip in zip(cs, inprog)]
    res = R.driver('eval', progs)
    # the same programs through `ucg build` (type checker + VM), the value pinned by a fail expression behind `||`
    rnd = random.Random(seed + 77)
    bidx = list(range(len(cs))) if tier == 'thorough' else sorted(rnd.sample(range(len(cs)), 100))
    bprogs = [cs[i][0] + ('' if cs[i][1] is None else '\nlet chk = (x == %s) || fail "PINNED-VALUE-DIFFERS";' % cs[i][1]) for i in bidx]
    resb = R.driver('buildfile', bprogs)
    bound = ('%d select expressions: selected value in {%s} x field lists = every '
             'ordered choice of 1..%s of the names {true, false, on, off} (%d lists; bare / quoted names alternate) x default present / absent%s, rotating over 3 forms (in place, function parameter, tuple field); '
             'expected: the field the value names, else the default, else a build error; + %d of them through `ucg build` with the value pinned'
             % (len(cs), ', '.join(c for c, _ in SEL_CONDS if tier == 'thorough' or c in SEL_QUICK), '4' if tier == 'thorough' else '2, half of those of 3 (+ 4 lists of all four)', len(sel_field_lists(tier, seed)),
                '' if tier == 'thorough' else ' (string values: alternating)', len(bidx)))
    n = len(cs) + len(bidx)
    for (prog, exp, cond, fl, dflt, form), (st, out) in zip(cs, res):
        got = (X.cfields(out) or {}).get('x') if st == 'OK' else None
        if (exp is None and st != 'ERR') or (exp is not None and got != exp):
            want = exp or 'a build error (unhandled case, no default)'
            return dict(name='select_matrix', bound=bound, cases=n, status='violation',
                        detail='`%s`: x is %s; the reference defines %s (the value names the field `%s`, the tuple has %s, %s)' % (
                            prog.replace('\n', ' '), ('%s %s' % (st, got)) if st == 'OK' else '%s %s' % (st, out[:120].replace('\n', ' ')), want, dict(SEL_CONDS)[cond], list(fl), 'default "D"' if dflt else 'no default'),
                        input=dict(source=prog, expected=want, observed='%s %s' % (st, out[:300]), how=HOW['eval']))
    for i, prog, (st, out) in zip(bidx, bprogs, resb):
        exp = cs[i][1]
        if (exp is None) != (st != 'OK'):
            return dict(name='select_matrix', bound=bound, cases=n, status='violation',
                        detail='`%s`: expected %s, observed %s %s' % (prog.replace('\n', ' '), 'a build that finds x == %s' % exp if exp else 'a build error (unhandled case, no default)', st, out[:200].replace('\n', ' ')),
                        input=dict(source=prog, expected=exp or 'build error', observed='%s %s' % (st, out[:300]), how=HOW['buildfile']))
    return dict(name='select_matrix', bound=bound, cases=n, status='ok')


# ------------------------------------------------------------------ format expressions: placeholders vs arguments
# reference/expressions.md "Format Expressions": "a string followed by the `%` operator and a list of arguments in parentheses separated by commas ... The format
# string should have `@` characters in each location where a value should be placed.  Any primitive value can be used as an argument." / "The `@` symbol can
# be escaped with a double slash" (`"...\\@@:@/" % (host, port)`) / "If the `%` operator is followed by a parenthesized expression it will be treated as the
# first form with one item."  One argument per placeholder, in order; a different number of arguments is a build error (known_findings.txt, fix 631b477: surplus
# arguments used to shift every placeholder; 7d66449: too few used to panic).
# NOT in the family (the pinned tree deviates from the reference, reported): the reference says "Trailing commas are allowed" -- `"@" % (1,)` and
# `"@ @" % (1, 2,)` are parse errors ("Expected format arguments") on the pinned tree; an empty argument list `"a" % ()` is a parse error as well (the
# reference does not mention it).
FMT_KNOWN = ['format-args-trailing-comma']
FMT_ARGS = {
    'ints': [('11', '11'), ('22', '22'), ('33', '33'), ('44', '44'), ('55', '55')],
    'strs': [('"a"', 'a'), ('"bb"', 'bb'), ('"c c"', 'c c'), ('""', ''), ('"e@e"', 'e@e')],
    'mixed': [('1 + 1', '2'), ('"s"', 's'), ('true', 'true'), ('2.5', '2.5'), ('"é" + "ü"', 'éü')],
    'refs': [('t.a', '7'), ('t.l.1', '9'), ('t.s', 'str'), ('t.a * 2', '14'), ('t.a == 7', 'true')],
}


def fmt_templates(p):
    """(source text of the template inside the quotes, [literal pieces around the p placeholders]) -- several shapes per p"""
    E = '\\\\@'                     # the escaped `@` as it is written in UCG source (reference: "escaped with a double slash")
    shapes = []
    shapes.append(['p%d=' % i for i in range(p)] + [';'])                                 # text before every placeholder and at the end
    shapes.append([''] * (p + 1))                                                         # nothing but placeholders: "@@@"
    shapes.append([''] + [' '] * (p - 1) + ['']) if p >= 2 else None                      # "@ @ @"
    shapes.append(['<'] + ['|'] * (p - 1) + ['>'] if p else ['<>'])                       # "<@|@>"
    shapes.append(['é:'] + ['·'] * (p - 1) + [' ✓'] if p else ['é ✓'])                    # non-ASCII text around
    out = []
    for lits in shapes:
        out.append((''.join(l + '@' for l in lits[:-1]) + lits[-1], lits))
    # escaped @ before / between / after the placeholders (an escaped @ is text, never a placeholder)
    base = ['x'] + ['-'] * (p - 1) + ['y'] if p else ['xy']
    for at in sorted(set([0, len(base) // 2, len(base) - 1])):
        src_l = [l + (E if i == at else '') for i, l in enumerate(base)]
        val_l = [l + ('@' if i == at else '') for i, l in enumerate(base)]
        out.append((''.join(l + '@' for l in src_l[:-1]) + src_l[-1], val_l))
    out.append((E + ''.join('@' + E for _ in range(p)), ['@'] * (p + 1)))                 # `\\@@\\@@\\@`: escaped and real ones alternate
    # an escaped backslash (four backslashes in UCG source = two in the template = ONE literal backslash) directly before every
    # placeholder and at the very end: the placeholder after it stays a placeholder
    BS = '\\' * 4
    out.append((''.join('a' + BS + '@' for _ in range(p)) + 'z' + BS, ['a\\'] * p + ['z\\']))
    return out


def format_cases(tier):
    cs = []
    k = 0
    for p in range(0, 5):
        for ti, (tsrc, lits) in enumerate(fmt_templates(p)):
            for n in range(1, 6):
                for ai, (aname, pool) in enumerate(sorted(FMT_ARGS.items())):
                    k += 1
                    if tier != 'thorough' and p != n and (k % 2):        # quick: every matching pair, half of the mismatching ones
                        continue
                    args = pool[ti % 5:] + pool[:ti % 5]
                    args = args[:n]
                    exp = None
                    if p == n:
                        exp = ''.join(l + a[1] for l, a in zip(lits, args)) + lits[-1]
                    pre = 'let t = {a = 7, l = [8, 9], s = "str"};\n' if aname == 'refs' else ''
                    alist = ', '.join(a[0] for a in args)
                    ctx = k % 5
                    if ctx == 0:
                        prog = pre + 'let x = "%s" %% (%s);' % (tsrc, alist)
                    elif ctx == 1:      # inside a function that is called later; the arguments are its parameters
                        ps = ', '.join('a%d' % i for i in range(n))
                        prog = pre + 'let f = func (%s) => "%s" %% (%s);\nlet x = f(%s);' % (ps, tsrc, ps, alist)
                    elif ctx == 2:      # inside a map callback
                        prog = pre + 'let l = map(func (q) => "%s" %% (%s), [0]);\nlet x = l.0;' % (tsrc, alist)
                    elif ctx == 3:      # a tuple field next to other fields, selected afterwards
                        prog = pre + 'let r = {before = 1, v = "%s" %% (%s), after = "@"};\nlet x = r.v;' % (tsrc, alist)
                    else:               # operand of a concatenation inside a module
                        prog = pre + 'let m = module {k = 0} => (r) { %slet r = "[" + "%s" %% (%s) + "]"; };\nlet x = m{};' % (pre.replace('\n', ' '), tsrc, alist)
                        if exp is not None:
                            exp = '[' + exp + ']'
                    cs.append((prog, exp, p, n))
    return cs


def standin_format_counts(tier, seed):
    cs = format_cases(tier)
    # the driver's Display does not escape a backslash inside a string: values holding one are compared inside the program instead
    def pin(c):
        return c[0] + '\nlet chk = (x == %s) || fail "PINNED-VALUE-DIFFERS";' % X.cshow(c[1])
    inprog = [c[1] is not None and '\\' in c[1] for c in cs]
    progs = [pin(c) if ip else c[0] for c, ip in zip(cs, inprog)]
    res = R.driver('eval', progs)
    rnd = random.Random(seed + 78)
    bidx = list(range(len(cs))) if tier == 'thorough' else sorted(rnd.sample(range(len(cs)), 100))
    bprogs = [cs[i][0] + ('' if cs[i][1] is None else '\nlet chk = (x == %s) || fail "PINNED-VALUE-DIFFERS";' % X.cshow(cs[i][1])) for i in bidx]
    resb = R.driver('buildfile', bprogs)
    n = len(cs) + len(bidx)
    bound = ('%d list-form format expressions: templates with p = 0..4 `@` placeholders in 9..10 shapes each (text around, none, blanks, non-ASCII text, an escaped `\\\\@` before / between / after, escaped and real '
             'ones alternating, an escaped backslash before every placeholder and at the end) x n = 1..5 arguments (ints, strings incl. one holding an @, mixed primitives, selectors / arithmetic) in 5 contexts (top level, function body with the parameters as arguments, '
             'map callback, tuple field, module body)%s; expected: p == n renders every argument in order, p != n is a build error; + %d of them through `ucg build` with the value pinned; the '
             'reference\'s trailing comma in the argument list is NOT enumerated (parse error on the pinned tree, reported)' % (len(cs), '' if tier == 'thorough' else ' [all p == n, half of the p != n]', len(bidx)))
    for (prog, exp, p, na), (st, out), ip in zip(cs, res, inprog):
        if ip:      # never handed to the Display parser (an unescaped trailing backslash swallows the closing quote)
            got = X.cshow(exp) if st == 'OK' else None
        else:
            got = (X.cfields(out) or {}).get('x') if st == 'OK' else None
        if (exp is None and st != 'ERR') or (exp is not None and got != X.cshow(exp)):
            want = X.cshow(exp) if exp is not None else 'a build error (%d placeholders, %d arguments)' % (p, na)
            return dict(name='format_counts', bound=bound, cases=n, status='violation',
                        detail='`%s`: x is %s; expected %s' % (prog.replace('\n', ' '), ('%s %s' % (st, got)) if st == 'OK' else '%s %s' % (st, out[:120].replace('\n', ' ')), want),
                        input=dict(source=prog, expected=want, observed='%s %s' % (st, out[:300]), how=HOW['eval']))
    for i, prog, (st, out) in zip(bidx, bprogs, resb):
        exp = cs[i][1]
        if (exp is None) != (st != 'OK'):
            return dict(name='format_counts', bound=bound, cases=n, status='violation',
                        detail='`%s`: expected %s, observed %s %s' % (prog.replace('\n', ' '), 'a build that finds x == %s' % X.cshow(exp) if exp is not None else 'a build error (%d placeholders, %d arguments)' % (cs[i][2], cs[i][3]),
                                                                     st, out[:200].replace('\n', ' ')),
                        input=dict(source=prog, expected=X.cshow(exp) if exp is not None else 'build error', observed='%s %s' % (st, out[:300]), how=HOW['buildfile']))
    return dict(name='format_counts', bound=bound, cases=n, status='ok')


def int_leaves(path, v):
    """(selector path, int) for every int inside the value"""
    if isinstance(v, dict):
        return [x for n, y in v.items() for x in int_leaves('%s.%s' % (path, n), y)]
    if isinstance(v, list):
        return [x for i, y in enumerate(v) for x in int_leaves('%s.%d' % (path, i), y)]
    return [(path, v)] if isinstance(v, int) else []


def unshow(v):
    """UCG source of a normalised Display value (ints, strings, booleans)"""
    if v == str(-I64_MAX - 1):
        return ilit(-I64_MAX - 1)
    return '(0 - %s)' % v[1:] if re.match(r'-\d+$', v) else v


def standin_format_expr_groups(tier, seed):
    """expression templates: an unescaped `@` starts an embedded expression only together with its `{ ... }` group (braces nest); an `@`
    without a group holds no expression and the template is refused (reference: the expression is written `@{...}`)."""
    ctxs = [('let x = %s;', ''), ('let f = func (v) => %s;\nlet x = f(3);', 'v'), ('let l = map(func (v) => %s, [3]);\nlet x = l.0;', 'v')]
    good = [('"v=@{item}"', 'v=3'), ('"v=@{ {a = item}.a }!"', 'v=3!'), ('"@{item}@{item + 1}"', '34'), ('"\\\\@{item} @{item}"', '@{item} 3'),
            ('"@{ {a = {b = item}}.a.b }|@{[item, 0].0}"', '3|3'), ('"}@{item}{"', '}3{'), ('""', ''), ('"no expression"', 'no expression')]
    bad = ['"cost: @item"', '"n=@item + 1"', '"@"', '"a@ b"', '"@{item} and @item"', '"@ {item}"', '"@(item)"', '"tail @"']
    cs = []
    for tmpl, arg0 in ctxs:
        arg = arg0 or '3'
        for t, exp in good:
            cs.append((tmpl % ('%s %% %s' % (t, arg)), exp))
        for t in bad:
            cs.append((tmpl % ('%s %% %s' % (t, arg)), None))
    progs = [c[0] + ('' if c[1] is None else '\nlet chk = (x == %s) || fail "PINNED-VALUE-DIFFERS";' % X.cshow(c[1])) for c in cs]
    bound = ('%d expression-format programs: %d well-formed templates (plain, nested braces, two groups, escaped `@`, stray braces outside a group, no expression) with the value pinned '
             'and %d templates whose unescaped `@` has no `{..}` group (must be a build error), each at top level, in a function body and in a map callback; through eval_string and `ucg build`'
             % (2 * len(cs), len(good), len(bad)))
    for mode in ('eval', 'buildfile'):
        res = R.driver(mode, progs)
        for (prog, exp), p, (st, out) in zip(cs, progs, res):
            if (exp is None) != (st != 'OK'):
                want = 'a build error (an `@` without a brace group)' if exp is None else 'x == %s' % X.cshow(exp)
                return dict(name='format_expr_groups', bound=bound, cases=2 * len(cs), status='violation',
                            detail='`%s`: expected %s, observed %s %s' % (prog.replace('\n', ' '), want, st, out[:200].replace('\n', ' ')),
                            input=dict(source=p, expected=want, observed='%s %s' % (st, out[:300]), how=HOW[mode]))
    return dict(name='format_expr_groups', bound=bound, cases=2 * len(cs), status='ok')


STANDINS = [standin_semantics_table, standin_select_matrix, standin_format_counts, standin_format_expr_groups, standin_self_copies, standin_self_copies_build, standin_cast_values,
            X.standin_closure_cases_eval, X.standin_closure_prefixes]
