// ---- prelude/lit_roundtrip_ap.rs: abortable_parser result type over a byte stepper; std models for the literal layer ----
// Error<C> is only constructed and moved by the extracted code (R5): opaque. Message text dropped.
#[verifier::external_body]
#[verifier::accept_recursive_types(C)]
pub struct Error<C> { _c: core::marker::PhantomData<C> }

impl<C> Error<C> {
    #[verifier::external_body]
    pub fn new<D>(msg: D, ctx: Box<C>) -> Self { unimplemented!() }
}

//@ extract dep:abortable_parser/src/lib.rs :: enum Result
//@   rule R0
//@   subst "I: InputIter" => "I"
//@ end

// std::string::FromUtf8Error is only matched with `Err(_)`.
#[verifier::external_type_specification]
#[verifier::external_body]
pub struct ExFromUtf8Error(std::string::FromUtf8Error);

// TRUSTED model of String::from_utf8 (std docs: "Returns Err if the slice is not UTF-8"; otherwise the String
// holding exactly these bytes).  valid_utf8 / decode_utf8 are vstd::utf8's definitions.
pub assume_specification [String::from_utf8] (v: Vec<u8>) -> (r: core::result::Result<String, std::string::FromUtf8Error>)
    ensures
        valid_utf8(v@) ==> (r matches Ok(s) && s@ == decode_utf8(v@)),
        !valid_utf8(v@) ==> r is Err;

// TRUSTED model of char::is_ascii_alphabetic (std docs: U+0041 'A' ..= U+005A 'Z' or U+0061 'a' ..= U+007A 'z').
pub open spec fn ascii_alpha(c: char) -> bool { ('a' <= c && c <= 'z') || ('A' <= c && c <= 'Z') }
pub assume_specification [char::is_ascii_alphabetic] (c: &char) -> (r: bool)
    ensures r == ascii_alpha(*c);

// R9': `s.chars().nth(0)` is redirected to this VERIFIED model (Iterator::nth docs: "nth(0) returns the first
// value", i.e. next()).  Assumption: Chars::nth(0) behaves like Chars::next().
pub fn verif_chars_nth0(s: &str) -> (r: Option<char>)
    ensures
        s@.len() > 0 ==> r == Some(s@[0]),
        s@.len() == 0 ==> r.is_none(),
{
    let mut it = s.chars();
    it.next()
}
