//@ unit map_yaml
//@ serves C03
//@ must_verify YamlConverter::convert_value YamlConverter::convert_list YamlConverter::convert_tuple YamlConverter::convert_env lemma_obj_fold data list_data tuple_data yview
//@ include prelude/head.rs
use std::rc::Rc;

verus! {
//@ include prelude/core.rs
//@ include prelude/map_json_data.rs
//@ include prelude/map_yaml_models.rs

// C03, the ucg-owned half for YAML: `Val -> serde_yaml::Value`.
// For ALL values v (any nesting, any strings, any i64, any f64, duplicate field names included):
//   convert_value(v) is Ok(j)  <=>  data(Yaml, v) is a tree, and then  yview(j) == that tree
//   convert_value(v) is Err    <=>  data(Yaml, v) is None  (a constraint value somewhere inside v - nothing
//                                   is dropped or defaulted to make the rest go through).
// In addition (more than C03 asks): a mapping lists its keys in the order of their first occurrence.

//@ extract src/convert/yaml.rs :: struct YamlConverter
//@   rule R0
//@ end

//@ extract src/convert/yaml.rs :: impl YamlConverter :: fn convert_list
//@   ret r
//@   sig <<<
        ensures yaml_agrees(list_data(Fmt::Yaml, items@), r)
        decreases items@, 1int
//@   >>>
//@   loop 1 iter it <<<
            invariant
                it.seq().len() == items@.len(),
                forall|k: int| 0 <= k < items@.len() ==> *it.seq()[k] == items@[k],
                v@.len() == it.index@,
                forall|k: int| 0 <= k < it.index@ ==> data(Fmt::Yaml, *(#[trigger] items@[k])) is Some,
                forall|k: int| 0 <= k < it.index@ ==> yview(#[trigger] v@[k]) == data(Fmt::Yaml, *items@[k])->Some_0,
//@   >>>
//@   before "v.push" <<<
            assert(*val == items@[it.index@]);
//@   >>>
//@   after_loop 1 <<<
        assert(ylist(v@) =~= list_entries(Fmt::Yaml, items@, items@.len() as int));
//@   >>>
//@   mutant list_element_skipped_on_error "v.push(self.convert_value(val)?);" => "match self.convert_value(val) { Ok(x) => { v.push(x); } Err(_) => { } }" expect convert_list
//@   mutant list_built_in_reverse "v.push(self.convert_value(val)?);" => "v.push(self.convert_value(&items[items.len() - 1 - v.len()])?);" expect convert_list
//@ end

//@ extract src/convert/yaml.rs :: impl YamlConverter :: fn convert_env
//@   ret r
//@   sig <<<
        ensures
            yaml_agrees(env_data(Fmt::Yaml, items@), r),
            yaml_key_order(r, first_occurrences(env_names(items@, items@.len() as int))),
//@   >>>
//@   loop 1 iter it <<<
            invariant
                it.seq().len() == items@.len(),
                forall|k: int| 0 <= k < items@.len() ==> *it.seq()[k] == items@[k],
                yobj(mp@) =~= obj_fold(false, env_entries(items@, it.index@ as int)),
                mp.keys@ == first_occurrences(env_names(items@, it.index@ as int)),
//@   >>>
//@   before "mp.insert" <<<
            proof {
                let n = it.index@ as int;
                assert(items@[n].0 == *k && items@[n].1 == *v);
                assert(env_entries(items@, n + 1).drop_last() =~= env_entries(items@, n));
                assert(env_entries(items@, n + 1).last() == (k@, D::Str(v@)));
                assert(env_names(items@, n + 1).drop_last() =~= env_names(items@, n));
                assert(env_names(items@, n + 1).last() == k@);
            }
//@   >>>
//@   mutant env_key_value_swapped "serde_yaml::Value::String(k.to_string()), serde_yaml::Value::String(v.to_string())," => "serde_yaml::Value::String(v.to_string()), serde_yaml::Value::String(k.to_string())," expect convert_env
//@ end

//@ extract src/convert/yaml.rs :: impl YamlConverter :: fn convert_tuple
//@   ret r
//@   sig <<<
        ensures
            yaml_agrees(tuple_data(Fmt::Yaml, items@), r),
            yaml_key_order(r, first_occurrences(tuple_names(items@, items@.len() as int))),
        decreases items@, 1int
//@   >>>
//@   loop 1 iter it <<<
            invariant
                it.seq().len() == items@.len(),
                forall|k: int| 0 <= k < items@.len() ==> *it.seq()[k] == items@[k],
                forall|k: int| 0 <= k < it.index@ ==> data(Fmt::Yaml, *(#[trigger] items@[k]).1) is Some,
                yobj(mapping@) =~= obj_fold(false, tuple_entries(Fmt::Yaml, items@, it.index@ as int)),
                mapping.keys@ == first_occurrences(tuple_names(items@, it.index@ as int)),
//@   >>>
//@   before "mapping.insert" <<<
            proof {
                let n = it.index@ as int;
                assert(items@[n].0 == *k && items@[n].1 == *v);
                assert(tuple_entries(Fmt::Yaml, items@, n + 1).drop_last() =~= tuple_entries(Fmt::Yaml, items@, n));
                assert(tuple_entries(Fmt::Yaml, items@, n + 1).last() == (k@, data(Fmt::Yaml, **v)->Some_0));
                assert(tuple_names(items@, n + 1).drop_last() =~= tuple_names(items@, n));
                assert(tuple_names(items@, n + 1).last() == k@);
            }
//@   >>>
//@   mutant null_field_dropped "mapping.insert( serde_yaml::Value::String(k.to_string()), self.convert_value(v)?, );" => "if let Val::Empty = **v { } else { mapping.insert( serde_yaml::Value::String(k.to_string()), self.convert_value(v)?, ); }" expect convert_tuple
//@   mutant field_error_swallowed "mapping.insert( serde_yaml::Value::String(k.to_string()), self.convert_value(v)?, );" => "match self.convert_value(v) { Ok(x) => { mapping.insert(serde_yaml::Value::String(k.to_string()), x); } Err(_) => { } }" expect convert_tuple
//@ end

//@ extract src/convert/yaml.rs :: impl YamlConverter :: fn convert_value
//@   rule R1 R3
//@   subst all "std::io::Error::new" => "verif_io_error"
//@   subst "serde_yaml::Value::Bool(b)" => "serde_yaml::Value::Bool(*b)"
//@   subst "serde_yaml::to_value(f)" => "serde_yaml::to_value(*f)"
//@   subst "serde_yaml::to_value(i)" => "serde_yaml::to_value(*i)"
//@   ret r
//@   sig <<<
        ensures yaml_agrees(data(Fmt::Yaml, *v), r)
        decreases *v, 0int
//@   >>>
//@   mutant null_becomes_empty_string "&Val::Empty => serde_yaml::Value::Null" => "&Val::Empty => serde_yaml::Value::String(String::new())" expect convert_value
//@   mutant constraint_becomes_null "&Val::Constraint(_) => {" => "&Val::Constraint(_) => { if true { return Ok(serde_yaml::Value::Null); }" expect convert_value
// (written against the text after the `*` substitutions above)
//@   mutant int_through_f64 "serde_yaml::to_value(*i)" => "serde_yaml::to_value(*i as f64)" expect convert_value
//@   mutant string_emptied "Val::Str(s) => serde_yaml::Value::String(s.to_string())" => "Val::Str(s) => serde_yaml::Value::String(String::new())" expect convert_value
//@ end

} // verus!

fn main() {}
