//@ unit translate_fmtlist
//@ serves C01
//@ must_verify format_list_arm lemma_count_ph_push lemma_count_ph_drop_first lemma_count_ph_reverse
//@ include prelude/head.rs
use std::rc::Rc;

// C01, the translator's side, the `"..@..@.." % (a, b, ..)` arm of AST::translate_expr: which argument is rendered
// into which placeholder, and in which order the pieces are concatenated.  (Companion of unit translate_ops; the
// panic-freedom of the same arm is unit fmt_arms, C04.)

verus! {
//@ include prelude/core.rs
//@ include prelude/translate_ops_base.rs
//@ include prelude/translate_ops_fmt.rs

// ---------- counting placeholders ----------
pub open spec fn is_ph(p: TemplatePart) -> bool { p is PlaceHolder }
pub open spec fn count_ph(s: Seq<TemplatePart>) -> nat
    decreases s.len()
{
    if s.len() == 0 { 0 } else { count_ph(s.drop_last()) + (if is_ph(s.last()) { 1nat } else { 0nat }) }
}
pub open spec fn no_expr_parts(s: Seq<TemplatePart>) -> bool { forall|k: int| 0 <= k < s.len() ==> !(#[trigger] s[k] is Expression) }

proof fn lemma_count_ph_push(s: Seq<TemplatePart>, p: TemplatePart)
    ensures count_ph(s.push(p)) == count_ph(s) + (if is_ph(p) { 1nat } else { 0nat })
{
    assert(s.push(p).drop_last() =~= s);
}
proof fn lemma_count_ph_drop_first(s: Seq<TemplatePart>)
    requires s.len() > 0
    ensures count_ph(s) == count_ph(s.drop_first()) + (if is_ph(s[0]) { 1nat } else { 0nat })
    decreases s.len()
{
    if s.len() == 1 {
        assert(s.drop_first() =~= Seq::<TemplatePart>::empty());
        assert(s.drop_last() =~= Seq::<TemplatePart>::empty());
    } else {
        lemma_count_ph_drop_first(s.drop_last());
        assert(s.drop_last().drop_first() =~= s.drop_first().drop_last());
    }
}
proof fn lemma_count_ph_reverse(s: Seq<TemplatePart>)
    ensures count_ph(s.reverse()) == count_ph(s)
    decreases s.len()
{
    if s.len() > 0 {
        lemma_count_ph_reverse(s.drop_last());
        lemma_count_ph_drop_first(s.reverse());
        assert(s.reverse().drop_first() =~= s.drop_last().reverse());
    } else {
        assert(s.reverse() =~= s);
    }
}

// the `@` template parser (build/format.rs SimpleTemplate::parse, R8) - ASSUMED here, PROVED in unit fmt_arms: it always
// succeeds, the part list is not empty and holds only literal pieces and placeholders.  The parser is a
// deterministic function of the text: `simple_parts` names its result.
pub uninterp spec fn simple_parts(t: Seq<char>) -> Seq<TemplatePart>;
pub struct SimpleTemplate();
impl SimpleTemplate {
    pub fn new() -> Self { Self() }
    #[verifier::external_body]
    pub fn parse(&self, input: &str) -> (r: Result<Vec<TemplatePart>, VBoxError>)
        ensures r matches Ok(parts) && parts@ == simple_parts(input@) && parts@.len() >= 1 && no_expr_parts(parts@)
    { unimplemented!() }
}

// ---------- oracle ----------
// Reference: "The format string should have `@` characters in each location where a value should be placed": the q-th
// `@` shows the q-th argument; a format string whose number of `@`s differs from the number of arguments is a build
// error (a message and `Bang`).
// The VM concatenates with `Add`, whose LEFT operand is the top of the stack, so the pieces are emitted LAST piece
// first: with R the reversed part list and RE the reversed argument list, piece R[0], then R[i] followed by `Add` for
// every further piece.  A literal piece is one `Val` with its text; a placeholder is its argument's code and `Render`;
// the i-th piece, if a placeholder, shows RE[number of placeholders among R[0..i)] - and because the counts agree
// this is "the q-th `@` shows the q-th argument".
// `bs[i]` is the index behind piece i's last op (see `seg_start`).
pub open spec fn pieces_at(r: Seq<TemplatePart>, re: Seq<Expression>, s: Seq<Op>, start: int, bs: Seq<int>, done: int) -> bool {
    &&& bs.len() == done && 0 <= done <= r.len()
    &&& forall|i: int| 0 <= i < done && #[trigger] case_no(i) ==> {
            let st = seg_start(start, bs, i);
            let e = if i == 0 { bs[i] } else { bs[i] - 1 };
            &&& start <= st < e && bs[i] <= s.len()
            &&& (i > 0 ==> s[bs[i] - 1] == Op::Add)
            &&& match r[i] {
                    TemplatePart::Str(cs) => e == st + 1 && (s[st] matches Op::Val(Primitive::Str(t)) && t@ == cs@),
                    TemplatePart::PlaceHolder(_) => 0 <= count_ph(r.take(i)) < re.len()
                        && code_at(re[count_ph(r.take(i)) as int], s, st, e - 1) && s[e - 1] == Op::Render,
                    TemplatePart::Expression(_) => false,
                }
        }
    &&& 0 <= start <= seg_start(start, bs, done) <= s.len()
}
pub open spec fn format_list_emits(a: OpsMap, b: OpsMap, def: FormatDef, elems: Seq<Expression>) -> bool {
    let n0 = a.ops@.len() as int;
    let n = b.ops@.len() as int;
    let s = b.ops@;
    let parts = simple_parts(def.template@);
    &&& appended(a, b)
    &&& if count_ph(parts) != elems.len() {
            n == n0 + 2 && (s[n0] matches Op::Val(Primitive::Str(_))) && s[n0 + 1] == Op::Bang
        } else {
            exists|bs: Seq<int>| #[trigger] ends(bs) && pieces_at(parts.reverse(), elems.reverse(), s, n0, bs, parts.len() as int)
                && seg_start(n0, bs, parts.len() as int) == n
        }
}

//@ extract src/build/opcode/translate.rs :: impl AST :: fn translate_expr :: arm "FormatArgs::List(mut elems) =>"
//@   wrap <<<
fn format_list_arm(def: FormatDef, elems__in: Vec<Expression>, ops: &mut OpsMap, root: &VPath)
{ let mut elems = elems__in;
  let ghost mut bs: Seq<int> = Seq::empty();      // ghost: where each piece's ops end
$BODY
}
//@   >>>
//@   rule R1
//@   subst "let mut placeholders = 0;" => "let mut placeholders: usize = 0;"
//@   subst "for p in parts.iter()" => "for p in it: parts.iter()"
//@   subst "let mut elems_iter = elems.drain(0..);" => "let mut elems_iter = verif_drain_all(&mut elems);"
//@   subst "let mut parts_iter = parts.drain(0..);" => "let mut parts_iter = verif_drain_all(&mut parts);"
//@   subst "for p in parts_iter {" => "while let Some(p) = parts_iter.next() {"
//@   subst all "Self::translate_template_part" => "translate_template_part"
//@   subst all "verif_msg()" => "verif_msg().vinto()"
//@   sig <<<
        ensures format_list_emits(*old(ops), *final(ops), def, elems__in@)
//@   >>>
//@   before "for p in it: parts.iter()" <<<
                        proof { axiom_vec_len_bound(&parts); }
//@   >>>
//@   loop 1 <<<
                            invariant
                                it.seq().len() == parts@.len(),
                                forall|k: int| 0 <= k < parts@.len() ==> *it.seq()[k] == parts@[k],
                                placeholders == count_ph(parts@.take(it.index@)),
                                placeholders <= it.index@, parts@.len() <= usize::MAX,
//@   >>>
//@   after "for p in it: parts.iter() {" <<<
                            proof {
                                lemma_count_ph_push(parts@.take(it.index@), parts@[it.index@]);
                                assert(parts@.take(it.index@ + 1) =~= parts@.take(it.index@).push(parts@[it.index@]));
                            }
//@   >>>
//@   after_loop 1 <<<
                        proof { assert(parts@.take(parts@.len() as int) =~= parts@); }
                        let ghost parts0 = parts@;
//@   >>>
//@   after "parts.reverse();" <<<
                        proof { lemma_count_ph_reverse(parts0); }
                        let ghost r = parts@;
                        let ghost re = elems@;
                        proof {
                            assert(r.take(0) =~= Seq::<TemplatePart>::empty());
                            assert forall|k: int| 0 <= k < r.len() implies !(#[trigger] r[k] is Expression) by {
                                assert(r[k] == parts0[parts0.len() - 1 - k]);
                            }
                        }
//@   >>>
//@   before "translate_template_part( def.pos.clone(), parts_iter.next().unwrap()," <<<
                        proof { lemma_count_ph_drop_first(r); assert(re.skip(0) =~= re); }
//@   >>>
//@   before "while let Some(p) = parts_iter.next() {" <<<
                        proof {
                            bs = bs.push(ops.ops@.len() as int);
                            lemma_count_ph_push(r.take(0), r[0]);
                            assert(r.take(1) =~= r.take(0).push(r[0]));
                            assert(parts_iter.rest@ =~= r.skip(1));
                            if is_ph(r[0]) { assert(re.skip(0).drop_first() =~= re.skip(1)); }
                        }
//@   >>>
//@   loop 2 <<<
                            invariant
                                r.len() >= 1, no_expr_parts(r), re.len() == count_ph(r),
                                1 <= bs.len() <= r.len(),
                                parts_iter.rest@ == r.skip(bs.len() as int),
                                count_ph(r.take(bs.len() as int)) + count_ph(parts_iter.rest@) == count_ph(r),
                                elems_iter.rest@ == re.skip(count_ph(r.take(bs.len() as int)) as int),
                                appended(*old(ops), *ops),
                                ends(bs),
                                pieces_at(r, re, ops.ops@, old(ops).ops@.len() as int, bs, bs.len() as int),
                                ops.ops@.len() == seg_start(old(ops).ops@.len() as int, bs, bs.len() as int),
                            ensures parts_iter.rest@.len() == 0
                            decreases parts_iter.rest@.len()
//@   >>>
//@   after "while let Some(p) = parts_iter.next() {" <<<
                            proof {
                                let i = bs.len() as int;
                                lemma_count_ph_drop_first(r.skip(i));
                                lemma_count_ph_push(r.take(i), r[i]);
                                assert(r.take(i + 1) =~= r.take(i).push(r[i]));
                                assert(r.skip(i).drop_first() =~= r.skip(i + 1));
                                if is_ph(r[i]) { assert(re.skip(count_ph(r.take(i)) as int).drop_first() =~= re.skip(count_ph(r.take(i)) as int + 1)); }
                                assert(p == r[i]);
                            }
//@   >>>
//@   after "true, root, );" nth 2 <<<
                            // (anchored before the `Add` push so that a change to that push cannot lose the anchor: the piece ends behind it)
                            proof { bs = bs.push((ops.ops@.len() + 1) as int); }
//@   >>>
//@   mutant fmt_list_args_not_reversed "elems.reverse();" => "" expect format_list_arm
//@   mutant fmt_list_no_concat "ops.push(Op::Add, def.pos.clone());" => "ops.push(Op::Noop, def.pos.clone());" expect format_list_arm
//@   mutant fmt_list_concat_swapped_for_sub "ops.push(Op::Add, def.pos.clone());" => "ops.push(Op::Sub, def.pos.clone());" expect format_list_arm
//@   mutant fmt_list_surplus_args_accepted "if placeholders != elems.len() {" => "if placeholders > elems.len() {" expect format_list_arm
//@ end

} // verus!

fn main() {}
