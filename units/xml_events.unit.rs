//@ unit xml_events
//@ serves C12
//@ must_verify XmlConverter::get_str_val XmlConverter::get_tuple_val XmlConverter::get_list_val XmlConverter::is_element XmlConverter::write_node XmlConverter::write Val::is_empty lemma_last_idx lemma_field_unique lemma_example_document lemma_node_balanced lemma_kids_balanced lemma_depth_concat
// C12, the ucg-owned half (a PARTIAL claim): WHICH xml-rs events `out xml` / `convert xml` feeds to xml-rs's
// EventWriter, for ALL document tuples (any depth, any number of children, any strings).
//
// Verified text: XmlConverter::{get_str_val, get_tuple_val, get_list_val, is_element, write_node, write}
// (src/convert/xml.rs) and Val::is_empty (src/build/ir.rs), all extracted.  xml-rs is a model
// (prelude/xml_events_model.rs, trusted): `EventWriter::write(e)` appends the abstract event to a ghost log;
// the builder chain `XmlEvent::start_element(n).attr(k, v).ns(p, u)` builds the abstract StartElement.
//
// Oracle = the document tuple DSL of reference/converters.md as recursive spec functions
// (doc_events / node_events / tuple_events / elem_events / children_events below).  Contract:
//   * the document is expressible  =>  Ok and the events appended are EXACTLY doc_events(doc): StartDocument
//     {version, encoding, standalone as given}, then per element Start{name, attrs, ns} .. children in order ..
//     End (balanced, End also for childless elements), Characters(text) for bare strings and {text=..} nodes,
//     NULL attrs / NULL attribute values / NULL children / NULL ns omitted; or Err only because xml-rs / the sink
//     reported an error (`failed`);
//   * the document is NOT expressible (doc_events is None: not a tuple, no root, root not an element, version
//     not "1.0"/"1.1", mistyped field, node that is neither tuple nor string, node with both name and text,
//     node tuple with neither, ns that is neither string nor {prefix, uri} ...)  =>  Err; for the
//     document-level cases NOTHING is emitted, and a value that is not a node never gets a start tag or text of
//     its own emitted (only the already opened ancestors stay in the log); nothing emitted is ever retracted.
// ASSUMED (xml-rs): rendering of the events: well-formedness checks, escaping, indentation, encoding default.
//
// Written against the text with /scratch/patches/xml_1..3.patch applied (three genuine defects, see the mutants
// nameless_node_accepted, untyped_ns_ignored, text_root_accepted which restore the pinned behaviour).
//@ include prelude/head.rs
use std::rc::Rc;

verus! {
//@ include prelude/core.rs
//@ include prelude/conv_env_types.rs
//@ include prelude/xml_events_model.rs

//@ extract src/build/ir.rs :: type TupleFields
//@   rule R0
//@ end

//@ extract src/build/ir.rs :: impl Val :: fn is_empty
//@   rule R3
//@   ret r
//@   sig <<<
        ensures r == (*self is Empty)
//@   >>>
//@ end

// ====================== the oracle: the document tuple DSL of the reference ======================
pub type Fields = Seq<(Rc<str>, Rc<Val>)>;
pub type Pair = (Seq<char>, Seq<char>);

// index of the last field called `key` among the first `i` fields, -1 if there is none
// (UCG tuples have no duplicate names - the VM merges them; if one had, the last one counts)
pub open spec fn last_idx(fs: Fields, key: Seq<char>, i: int) -> int
    decreases i
{
    if i <= 0 { -1 } else if fs[i - 1].0@ == key { i - 1 } else { last_idx(fs, key, i - 1) }
}

// the same, a field given as NULL counting as not given ("If NULL then no attributes are emitted", ...)
pub open spec fn last_set_idx(fs: Fields, key: Seq<char>, i: int) -> int
    decreases i
{
    if i <= 0 { -1 } else if fs[i - 1].0@ == key && !(*fs[i - 1].1 is Empty) { i - 1 } else { last_set_idx(fs, key, i - 1) }
}

// "`ns` if set is required to be either a string in which case the default xml namespace is set or a tuple with
// `prefix` and `uri` fields": the declaration (prefix, uri) it makes; the default namespace has the empty prefix
pub open spec fn ns_decl(v: Val) -> Option<Pair> {
    match v {
        Val::Str(s) => Some((Seq::<char>::empty(), s@)),
        Val::Tuple(nfs) => {
            let pi = last_set_idx(nfs@, "prefix"@, nfs@.len() as int);
            let ui = last_set_idx(nfs@, "uri"@, nfs@.len() as int);
            if pi >= 0 && ui >= 0 && *nfs@[pi].1 is Str && *nfs@[ui].1 is Str
                && nfs@[pi].1->Str_0@.len() > 0 && nfs@[ui].1->Str_0@.len() > 0 {
                Some((nfs@[pi].1->Str_0@, nfs@[ui].1->Str_0@))
            } else {
                None
            }
        }
        _ => None,
    }
}
pub open spec fn ns_typed(v: Val) -> bool {
    match v {
        Val::Empty => true,
        Val::Str(_) => true,
        Val::Tuple(nfs) => ns_decl(v) is Some
            && forall|j: int| 0 <= j < nfs@.len() && ((#[trigger] nfs@[j]).0@ == "prefix"@ || nfs@[j].0@ == "uri"@)
                ==> *nfs@[j].1 is Str || *nfs@[j].1 is Empty,
        _ => false,
    }
}

// the types the reference gives the fields of a node tuple
pub open spec fn node_field_ok(k: Seq<char>, v: Val) -> bool {
    &&& k == "name"@ ==> v is Str
    &&& k == "ns"@ ==> ns_typed(v)
    &&& k == "attrs"@ ==> v is Tuple || v is Empty          // "required to be a tuple or NULL"
    &&& k == "children"@ ==> v is List || v is Empty        // "required to be a list ... or NULL"
    &&& k == "text"@ ==> v is Str || v is Empty
}
pub open spec fn node_fields_ok(fs: Fields) -> bool {
    forall|j: int| 0 <= j < fs.len() ==> node_field_ok((#[trigger] fs[j]).0@, *fs[j].1)
}

// "The tuple should have only string values or null for each field."
pub open spec fn attrs_ok(a: Fields) -> bool {
    forall|j: int| 0 <= j < a.len() ==> *(#[trigger] a[j]).1 is Str || *a[j].1 is Empty
}
// "each field is turned into an attribute on the element ... If NULL then the attribute is not set": the
// attributes of the first n fields, in field order
pub open spec fn attr_pairs(a: Fields, n: int) -> Seq<Pair>
    decreases n
{
    if n <= 0 {
        Seq::<Pair>::empty()
    } else if *a[n - 1].1 is Empty {
        attr_pairs(a, n - 1)
    } else {
        attr_pairs(a, n - 1).push((a[n - 1].0@, a[n - 1].1->Str_0@))
    }
}

pub open spec fn start_ev(name: Seq<char>, attrs: Fields, ns: Option<Pair>) -> Ev {
    Ev::StartElement {
        name,
        attrs: attr_pairs(attrs, attrs.len() as int),
        ns: match ns {
            // the uri reaches the writer escaped like an attribute value: xml-rs copies namespace declarations
            // into the document verbatim (fix 26eb7a5; mutant ns_uri_not_escaped restores the pinned behaviour)
            Some(d) => if d.0.len() == 0 { seq![(Seq::<char>::empty(), xml_esc_attr(d.1))] } else { seq![(d.0, xml_esc_attr(d.1))] },
            None => Seq::<Pair>::empty(),
        },
    }
}

// A node: a bare string or {text = ..} is a text node; a tuple with `name` is an element; anything else (and a
// tuple with both, or with neither) is not a node.  None = "the DSL cannot express this".
pub open spec fn node_events(v: Val) -> Option<Seq<Ev>>
    decreases v, 0int
{
    match v {
        Val::Str(s) => Some(seq![Ev::Characters(s@)]),
        Val::Tuple(fs) => tuple_events(fs@),
        _ => None,
    }
}

pub open spec fn tuple_events(fs: Fields) -> Option<Seq<Ev>>
    decreases fs, 0int
{
    let n = fs.len() as int;
    let ni = last_idx(fs, "name"@, n);
    let ti = last_set_idx(fs, "text"@, n);
    let ai = last_set_idx(fs, "attrs"@, n);
    let ci = last_set_idx(fs, "children"@, n);
    let si = last_set_idx(fs, "ns"@, n);
    if !node_fields_ok(fs) {
        None
    } else if ni >= 0 && ti >= 0 {
        None                                        // both name and text
    } else if ni >= 0 {
        let name = fs[ni].1->Str_0@;
        let attrs = if ai >= 0 { fs[ai].1->Tuple_0@ } else { Seq::<(Rc<str>, Rc<Val>)>::empty() };
        let ns = if si >= 0 { ns_decl(*fs[si].1) } else { None };
        if 0 <= ci < n && *fs[ci].1 is List {
            let cs = fs[ci].1->List_0@;
            elem_events(name, attrs, ns, kids_ok(cs), kids_events(cs, cs.len() as int))
        } else {
            elem_events(name, attrs, ns, true, Seq::<Ev>::empty())     // "If NULL then no children are output"
        }
    } else if ti >= 0 {
        Some(seq![Ev::Characters(fs[ti].1->Str_0@)])
    } else {
        None                                        // neither an element (`name` is required) nor a text node
    }
}

// what has to hold of a node ITSELF (as opposed to its descendants) before anything is emitted for it
pub open spec fn node_head_ok(v: Val) -> bool {
    match v {
        Val::Str(_) => true,
        Val::Tuple(fs) => {
            let n = fs@.len() as int;
            let ni = last_idx(fs@, "name"@, n);
            let ti = last_set_idx(fs@, "text"@, n);
            let ai = last_set_idx(fs@, "attrs"@, n);
            &&& node_fields_ok(fs@)
            &&& (ni >= 0) != (ti >= 0)
            &&& (ni >= 0 && ai >= 0) ==> attrs_ok(fs@[ai].1->Tuple_0@)
        }
        _ => false,
    }
}

// every child is a node
pub open spec fn kids_ok(cs: Seq<Rc<Val>>) -> bool
    decreases cs, 1int
{
    forall|j: int| 0 <= j < cs.len() ==> node_events(*(#[trigger] cs[j])) is Some
}
// the events of the first n children, concatenated in order
pub open spec fn kids_events(cs: Seq<Rc<Val>>, n: int) -> Seq<Ev>
    decreases cs, n
{
    if n <= 0 || n > cs.len() {
        Seq::<Ev>::empty()
    } else {
        kids_events(cs, n - 1) + node_events(*cs[n - 1])->Some_0
    }
}

// an element: Start{name, attrs, ns}, the events of its children in order, End
pub open spec fn elem_events(name: Seq<char>, attrs: Fields, ns: Option<Pair>, kids_ok: bool, kids: Seq<Ev>) -> Option<Seq<Ev>> {
    if attrs_ok(attrs) && kids_ok {
        Some(seq![start_ev(name, attrs, ns)] + kids + seq![Ev::EndElement])
    } else {
        None
    }
}
pub open spec fn elem_of(name: Seq<char>, attrs: Fields, ns: Option<Pair>, cs: Seq<Rc<Val>>) -> Option<Seq<Ev>> {
    elem_events(name, attrs, ns, kids_ok(cs), kids_events(cs, cs.len() as int))
}

// the document tuple: optional version / encoding / standalone and the required root ELEMENT
pub open spec fn doc_field_ok(k: Seq<char>, v: Val) -> bool {
    &&& k == "version"@ ==> v is Str
    &&& k == "encoding"@ ==> v is Str
}
pub open spec fn is_elem(v: Val) -> bool {
    v matches Val::Tuple(fs) && last_idx(fs@, "name"@, fs@.len() as int) >= 0
}
// what has to hold before anything is emitted
pub open spec fn doc_head_ok(v: Val) -> bool {
    v matches Val::Tuple(fs) && {
        let n = fs@.len() as int;
        let vi = last_idx(fs@, "version"@, n);
        let ri = last_idx(fs@, "root"@, n);
        &&& forall|j: int| 0 <= j < n ==> doc_field_ok((#[trigger] fs@[j]).0@, *fs@[j].1)
        &&& ri >= 0 && is_elem(*fs@[ri].1)
        &&& vi >= 0 ==> fs@[vi].1->Str_0@ == "1.0"@ || fs@[vi].1->Str_0@ == "1.1"@
    }
}
pub open spec fn doc_start(fs: Fields) -> Ev {
    let n = fs.len() as int;
    let vi = last_idx(fs, "version"@, n);
    let ei = last_idx(fs, "encoding"@, n);
    let si = last_idx(fs, "standalone"@, n);
    Ev::StartDocument {
        // no version given: 1.0 (what the reference's example document shows)
        version: if vi >= 0 && fs[vi].1->Str_0@ == "1.1"@ { XmlVersion::Version11 } else { XmlVersion::Version10 },
        encoding: if ei >= 0 { Some(fs[ei].1->Str_0@) } else { None },
        standalone: if si >= 0 && *fs[si].1 is Boolean { Some(fs[si].1->Boolean_0) } else { None },
    }
}
pub open spec fn doc_events(v: Val) -> Option<Seq<Ev>> {
    if !doc_head_ok(v) {
        None
    } else {
        let fs = v->Tuple_0@;
        match node_events(*fs[last_idx(fs, "root"@, fs.len() as int)].1) {
            Some(ne) => Some(seq![doc_start(fs)] + ne),
            None => None,
        }
    }
}

// The shape of every contract below.  s0 / s1: the sink before / after; evs: what the oracle says.
pub open spec fn xw_wrote(s0: VDynWrite, s1: VDynWrite, evs: Option<Seq<Ev>>, r: ConvertResult) -> bool {
    // nothing that was emitted is ever retracted
    &&& s0.events@.is_prefix_of(s1.events@)
    // Ok: the document is expressible and exactly its events were appended
    &&& r is Ok ==> evs is Some && s1.events@ =~= s0.events@ + evs->Some_0 && s1.failed@ == s0.failed@
    // a document the DSL cannot express is an error
    &&& evs is None ==> r is Err
    // an expressible document only fails when xml-rs / the sink fails
    &&& (r is Err && evs is Some) ==> s1.failed@
}

// ---------- views of the converter's local variables ----------
pub open spec fn opt_fields(o: Option<&Vec<(Rc<str>, Rc<Val>)>>) -> Fields {
    match o { Some(a) => a@, None => Seq::<(Rc<str>, Rc<Val>)>::empty() }
}
pub open spec fn opt_list(o: Option<&Vec<Rc<Val>>>) -> Seq<Rc<Val>> {
    match o { Some(a) => a@, None => Seq::<Rc<Val>>::empty() }
}
pub open spec fn opt_ns(o: Option<(&str, &str)>) -> Option<Pair> {
    match o { Some(d) => Some((d.0@, d.1@)), None => None }
}
// `name` / `text` after the first i fields
pub open spec fn str_at(o: Option<&str>, fs: Fields, k: int) -> bool {
    if k >= 0 { *fs[k].1 is Str && o is Some && o->Some_0@ == fs[k].1->Str_0@ } else { o is None }
}
pub open spec fn ns_at(o: Option<(&str, &str)>, fs: Fields, k: int) -> bool {
    if k >= 0 {
        match (o, ns_decl(*fs[k].1)) {
            (Some(d), Some(e)) => d.0@ =~= e.0 && d.1@ =~= e.1,
            _ => false,
        }
    } else {
        o is None
    }
}
// `prefix` / `uri` of an ns tuple after the first i fields
pub open spec fn nstr_at(s: &str, nfs: Fields, k: int) -> bool {
    if k >= 0 { *nfs[k].1 is Str && s@ == nfs[k].1->Str_0@ } else { s@.len() == 0 }
}

pub proof fn lemma_last_idx(fs: Fields, key: Seq<char>, i: int)
    requires 0 <= i <= fs.len()
    ensures
        -1 <= last_idx(fs, key, i) < i,
        last_idx(fs, key, i) >= 0 ==> fs[last_idx(fs, key, i)].0@ == key,
        forall|j: int| last_idx(fs, key, i) < j < i ==> (#[trigger] fs[j]).0@ != key,
        -1 <= last_set_idx(fs, key, i) < i,
        last_set_idx(fs, key, i) >= 0 ==> fs[last_set_idx(fs, key, i)].0@ == key && !(*fs[last_set_idx(fs, key, i)].1 is Empty),
        forall|j: int| last_set_idx(fs, key, i) < j < i ==> (#[trigger] fs[j]).0@ != key || *fs[j].1 is Empty,
    decreases i
{
    if i > 0 { lemma_last_idx(fs, key, i - 1); }
}

// With unique field names (every tuple the VM builds) `last_idx` / `last_set_idx` are plain lookup: THE field of
// that name, wherever it stands.
pub proof fn lemma_field_unique(fs: Fields, key: Seq<char>, k: int)
    requires
        0 <= k < fs.len(), fs[k].0@ == key,
        forall|a: int, b: int| 0 <= a < b < fs.len() ==> (#[trigger] fs[a]).0@ != (#[trigger] fs[b]).0@,
    ensures
        last_idx(fs, key, fs.len() as int) == k,
        last_set_idx(fs, key, fs.len() as int) == (if *fs[k].1 is Empty { -1 } else { k }),
{
    lemma_last_idx(fs, key, fs.len() as int);
    let l = last_idx(fs, key, fs.len() as int);
    if l < k { assert(fs[k].0@ != key); }
    if l > k { assert(fs[k].0@ != fs[l].0@); }
    let m = last_set_idx(fs, key, fs.len() as int);
    if m >= 0 && m < k { assert(fs[k].0@ != fs[m].0@); }
    if m > k { assert(fs[k].0@ != fs[m].0@); }
    if m < k { assert(fs[k].0@ != key || *fs[k].1 is Empty); }
}

//@ extract src/convert/xml.rs :: struct XmlConverter
//@   rule R0
//@ end

//@ extract src/convert/xml.rs :: impl XmlConverter :: fn get_str_val
//@   subst "Box<dyn Error>>" => "VError>"
//@   ret r
//@   sig <<<
        ensures match r { Ok(s) => *v is Str && s@ == v->Str_0@, Err(_) => !(*v is Str) }
//@   >>>
//@ end

//@ extract src/convert/xml.rs :: impl XmlConverter :: fn get_tuple_val
//@   subst "Box<dyn Error>>" => "VError>"
//@   ret r
//@   sig <<<
        ensures match r { Ok(fs) => *v is Tuple && *fs == v->Tuple_0, Err(_) => !(*v is Tuple) }
//@   >>>
//@ end

//@ extract src/convert/xml.rs :: impl XmlConverter :: fn get_list_val
//@   subst "Box<dyn Error>>" => "VError>"
//@   ret r
//@   sig <<<
        ensures match r { Ok(fs) => *v is List && *fs == v->List_0, Err(_) => !(*v is List) }
//@   >>>
//@ end

//@ extract src/convert/xml.rs :: impl XmlConverter :: fn is_element
//@   ret r
//@   sig <<<
        ensures r == is_elem(*v)
//@   >>>
//@   loop 1 indexed <<<
                invariant
                    i__1 <= it__1@.len(), it__1@ == fs@,
                    named == (last_idx(fs@, "name"@, i__1 as int) >= 0),
                decreases it__1@.len() - i__1
//@   >>>
//@   mutant element_by_any_field "if field.as_ref() == \"name\" {" => "if field.as_ref() == \"name\" || field.as_ref() == \"text\" {" expect is_element
//@ end

// R7: `W: std::io::Write` is monomorphised to the one instance xml.rs uses, `&mut dyn Write` (the sink stand-in).
//@ extract src/convert/xml.rs :: impl XmlConverter :: fn write_node
//@   subst "write_node<W: std::io::Write>" => "write_node<'a>"
//@   subst "EventWriter<W>" => "EventWriter<&'a mut VDynWrite>"
//@   subst "xml::escape::escape_str_attribute(uri).into_owned()" => "verif_xml_escape_attr(uri)"
//@   ret r
//@   sig <<<
        ensures
            *final(final(w).sink) == *final(old(w).sink),
            xw_wrote(*old(w).sink, *final(w).sink, node_events(*v), r),
            // a value that is not a node: nothing is emitted for it (no start tag, no text)
            !node_head_ok(*v) ==> final(w).sink.events@ =~= old(w).sink.events@,
        decreases *v
//@   >>>
//@   body_start <<<
        proof { reveal_strlit(""); }
//@   >>>
//@   loop 1 indexed <<<
                invariant
                    i__1 <= it__1@.len(), it__1@ == fs@, ""@.len() == 0,
                    *v is Tuple, v->Tuple_0 == *fs,
                    *w == *old(w),
                    forall|j: int| 0 <= j < i__1 ==> node_field_ok((#[trigger] fs@[j]).0@, *fs@[j].1),
                    str_at(name, fs@, last_idx(fs@, "name"@, i__1 as int)),
                    str_at(text, fs@, last_set_idx(fs@, "text"@, i__1 as int)),
                    ns_at(ns, fs@, last_set_idx(fs@, "ns"@, i__1 as int)),
                    ({ let k = last_set_idx(fs@, "attrs"@, i__1 as int);
                       if k >= 0 { *fs@[k].1 is Tuple && attrs == Some(&fs@[k].1->Tuple_0) } else { attrs is None } }),
                    ({ let k = last_set_idx(fs@, "children"@, i__1 as int);
                       if k >= 0 { *fs@[k].1 is List && children == Some(&fs@[k].1->List_0) } else { children is None } }),
                    children is Some ==> decreases_to!(*v => children->Some_0@),
                decreases it__1@.len() - i__1
//@   >>>
//@   after_loop 1 <<<
            proof {
                let n = fs@.len() as int;
                lemma_last_idx(fs@, "name"@, n); lemma_last_idx(fs@, "text"@, n); lemma_last_idx(fs@, "attrs"@, n);
                lemma_last_idx(fs@, "children"@, n); lemma_last_idx(fs@, "ns"@, n);
            }
//@   >>>
//@   loop 2 indexed <<<
                            invariant
                                i__2 <= it__2@.len(), it__2@ == fs@, ""@.len() == 0,
                                *w == *old(w),
                                *v is Tuple, 1 <= i__1 <= v->Tuple_0@.len(),
                                v->Tuple_0@[i__1 - 1].0@ == "ns"@, *v->Tuple_0@[i__1 - 1].1 == Val::Tuple(*fs),
                                forall|j: int| 0 <= j < i__2 && ((#[trigger] fs@[j]).0@ == "prefix"@ || fs@[j].0@ == "uri"@)
                                    ==> *fs@[j].1 is Str || *fs@[j].1 is Empty,
                                nstr_at(prefix, fs@, last_set_idx(fs@, "prefix"@, i__2 as int)),
                                nstr_at(uri, fs@, last_set_idx(fs@, "uri"@, i__2 as int)),
                            decreases it__2@.len() - i__2
//@   >>>
//@   loop 3 indexed <<<
                        invariant
                            i__3 <= it__3@.len(), it__3@ == attrs@,
                            forall|j: int| 0 <= j < i__3 ==> *(#[trigger] attrs@[j]).1 is Str || *attrs@[j].1 is Empty,
                            start.b_name@ == name@, start.b_ns@ =~= Seq::<Pair>::empty(),
                            start.b_attrs@ =~= attr_pairs(attrs@, i__3 as int),
                            *w == *old(w),
                            node_events(*v) == elem_of(name@, attrs@, opt_ns(ns), opt_list(children)),
                        decreases it__3@.len() - i__3
//@   >>>
//@   loop 4 indexed <<<
                        invariant
                            i__4 <= it__4@.len(), it__4@ == children@,
                            *final(w.sink) == *final(old(w).sink),
                            node_events(*v) == elem_of(name@, opt_fields(attrs), opt_ns(ns), children@),
                            attrs_ok(opt_fields(attrs)), node_head_ok(*v),
                            decreases_to!(*v => children@),
                            forall|j: int| 0 <= j < i__4 ==> node_events(*(#[trigger] children@[j])) is Some,
                            w.sink.events@ =~= old(w).sink.events@ + seq![start_ev(name@, opt_fields(attrs), opt_ns(ns))]
                                + kids_events(children@, i__4 as int),
                            w.sink.failed@ == old(w).sink.failed@,
                        decreases it__4@.len() - i__4
//@   >>>
//@   mutant children_reversed "self.write_node(child.as_ref(), w)?;" => "self.write_node(children[children.len() - i__4].as_ref(), w)?;" expect write_node
//@   mutant attr_name_value_swapped "start.attr(name.as_ref(), Self::get_str_val(val.as_ref())?)" => "start.attr(Self::get_str_val(val.as_ref())?, name.as_ref())" expect write_node
//@   mutant null_attr_written_empty "if val.is_empty() { continue; } start = start.attr(" => "if val.is_empty() { start = start.attr(name.as_ref(), \"\"); continue; } start = start.attr(" expect write_node
//@   mutant childless_end_missing "w.write(XmlEvent::end_element())?;" => "if children.is_some() { w.write(XmlEvent::end_element())?; }" expect write_node
//@   mutant bare_text_dropped "w.write(XmlEvent::characters(s.as_ref()))?;" => "" expect write_node
//@   mutant text_node_dropped "w.write(XmlEvent::characters(text))?;" => "" expect write_node
//@   mutant name_and_text_accepted "if name.is_some() && text.is_some() {" => "if false && name.is_some() && text.is_some() {" expect write_node
//@   mutant ns_prefix_uri_swapped "start.ns(prefix, uri.as_str())" => "start.ns(uri.as_str(), prefix)" expect write_node
//@   mutant ns_uri_not_escaped "let uri = verif_xml_escape_attr(uri);" => "let uri = uri.to_string();" expect write_node
//@   mutant child_error_swallowed "self.write_node(child.as_ref(), w)?;" => "let _ = self.write_node(child.as_ref(), w);" expect write_node
//@   mutant text_emitted_before_both_error "if name.is_some() && text.is_some() {" => "if name.is_some() && text.is_some() { w.write(XmlEvent::characters(text.unwrap()))?;" expect write_node
//@   mutant nameless_node_accepted "if name.is_none() && text.is_none() {" => "if false && name.is_none() && text.is_none() {" expect write_node
//@   mutant incomplete_ns_ignored "ns = Some((prefix, uri)); } else {" => "ns = Some((prefix, uri)); } else if false {" expect write_node
//@   mutant untyped_ns_ignored "} else if !val.is_empty() {" => "} else if false && !val.is_empty() {" expect write_node
//@ end

//@ extract src/convert/xml.rs :: impl XmlConverter :: fn write
//@   subst "&mut dyn Write" => "&mut VDynWrite"
//@   ret r
//@   sig <<<
        ensures
            xw_wrote(*old(w), *final(w), doc_events(*v), r),
            // a document-level error: nothing at all is emitted
            !doc_head_ok(*v) ==> final(w).events@ =~= old(w).events@,
//@   >>>
//@   body_start <<<
        proof {
            reveal_strlit("1.0"); reveal_strlit("1.1");
            assert("1.0"@ != "1.1"@) by { assert("1.0"@[2] != "1.1"@[2]); }
        }
//@   >>>
//@   loop 1 indexed <<<
                invariant
                    i__1 <= it__1@.len(), it__1@ == fs@,
                    *v is Tuple, v->Tuple_0 == *fs,
                    *w == *old(w),
                    forall|j: int| 0 <= j < i__1 ==> doc_field_ok((#[trigger] fs@[j]).0@, *fs@[j].1),
                    str_at(version, fs@, last_idx(fs@, "version"@, i__1 as int)),
                    str_at(encoding, fs@, last_idx(fs@, "encoding"@, i__1 as int)),
                    ({ let k = last_idx(fs@, "standalone"@, i__1 as int);
                       standalone == (if k >= 0 && *fs@[k].1 is Boolean { Some(fs@[k].1->Boolean_0) } else { None::<bool> }) }),
                    ({ let k = last_idx(fs@, "root"@, i__1 as int);
                       if k >= 0 { root == Some(fs@[k].1) } else { root is None } }),
                decreases it__1@.len() - i__1
//@   >>>
//@   after_loop 1 <<<
            proof {
                let n = fs@.len() as int;
                lemma_last_idx(fs@, "version"@, n); lemma_last_idx(fs@, "encoding"@, n);
                lemma_last_idx(fs@, "standalone"@, n); lemma_last_idx(fs@, "root"@, n);
            }
//@   >>>
//@   mutant version_ignored "Some(XmlVersion::Version11)" => "Some(XmlVersion::Version10)" expect write
//@   mutant encoding_dropped "encoding, standalone, })?;" => "encoding: None, standalone, })?;" expect write
//@   mutant no_document_start "writer.write(XmlEvent::StartDocument { version: version.unwrap_or(XmlVersion::Version10), encoding, standalone, })?;" => "" expect write
//@   mutant text_root_accepted "if !Self::is_element(n.as_ref()) {" => "if false && !Self::is_element(n.as_ref()) {" expect write
//@   mutant missing_root_is_empty_document "None => Err(BuildError::new( \"XML doc tuples must have a root field\", ErrorType::TypeFail, ) .to_boxed())," => "None => Ok(())," expect write
//@ end

// ---------- the oracle only describes balanced event sequences ----------
// open elements after the events e: #Start - #End
pub open spec fn ev_delta(e: Ev) -> int {
    match e { Ev::StartElement { .. } => 1, Ev::EndElement => -1, _ => 0 }
}
pub open spec fn depth(e: Seq<Ev>) -> int
    decreases e.len()
{
    if e.len() == 0 { 0 } else { depth(e.drop_last()) + ev_delta(e.last()) }
}
pub proof fn lemma_depth_concat(a: Seq<Ev>, b: Seq<Ev>)
    ensures depth(a + b) == depth(a) + depth(b)
    decreases b.len()
{
    if b.len() == 0 {
        assert(a + b =~= a);
    } else {
        assert((a + b).drop_last() =~= a + b.drop_last());
        assert((a + b).last() == b.last());
        lemma_depth_concat(a, b.drop_last());
    }
}
pub proof fn lemma_depth_one(e: Ev)
    ensures depth(seq![e]) == ev_delta(e)
{
    assert(seq![e].drop_last() =~= Seq::<Ev>::empty());
    assert(depth(seq![e].drop_last()) == 0);
}
// the parts of an element tuple, as tuple_events reads them
pub open spec fn t_start(f: Fields) -> Ev {
    let n = f.len() as int;
    let ai = last_set_idx(f, "attrs"@, n);
    let si = last_set_idx(f, "ns"@, n);
    start_ev(
        f[last_idx(f, "name"@, n)].1->Str_0@,
        if ai >= 0 { f[ai].1->Tuple_0@ } else { Seq::<(Rc<str>, Rc<Val>)>::empty() },
        if si >= 0 { ns_decl(*f[si].1) } else { None },
    )
}
pub open spec fn t_has_kids(f: Fields) -> bool {
    let ci = last_set_idx(f, "children"@, f.len() as int);
    0 <= ci < f.len() && *f[ci].1 is List
}
pub open spec fn t_text(f: Fields) -> Seq<char> {
    f[last_set_idx(f, "text"@, f.len() as int)].1->Str_0@
}
pub open spec fn kid(cs: Seq<Rc<Val>>, j: int) -> Val { *cs[j] }
pub open spec fn t_kids(f: Fields) -> Seq<Rc<Val>> {
    f[last_set_idx(f, "children"@, f.len() as int)].1->List_0@
}
// every node the DSL can express opens and closes the same number of elements (each Start has its End)
pub proof fn lemma_node_balanced(v: Val)
    requires node_events(v) is Some
    ensures depth(node_events(v)->Some_0) == 0
    decreases v, 0int
{
    match v {
        Val::Str(s) => { lemma_depth_one(Ev::Characters(s@)); }
        Val::Tuple(fs) => {
            let f = fs@;
            let n = f.len() as int;
            let ni = last_idx(f, "name"@, n);
            let ti = last_set_idx(f, "text"@, n);
            if ni >= 0 {
                let st = t_start(f);
                lemma_depth_one(st);
                lemma_depth_one(Ev::EndElement);
                if t_has_kids(f) {
                    let cs = t_kids(f);
                    lemma_kids_balanced(cs, cs.len() as int);
                    let ke = kids_events(cs, cs.len() as int);
                    lemma_depth_concat(seq![st], ke);
                    lemma_depth_concat(seq![st] + ke, seq![Ev::EndElement]);
                } else {
                    let ke = Seq::<Ev>::empty();
                    lemma_depth_concat(seq![st], ke);
                    lemma_depth_concat(seq![st] + ke, seq![Ev::EndElement]);
                }
            } else {
                lemma_depth_one(Ev::Characters(t_text(f)));
            }
        }
        _ => {}
    }
}
pub proof fn lemma_kids_balanced(cs: Seq<Rc<Val>>, n: int)
    requires kids_ok(cs), 0 <= n <= cs.len()
    ensures depth(kids_events(cs, n)) == 0
    decreases cs, n
{
    if n > 0 {
        lemma_kids_balanced(cs, n - 1);
        assert(node_events(*cs[n - 1]) is Some);
        lemma_node_balanced(kid(cs, n - 1));
        lemma_depth_concat(kids_events(cs, n - 1), node_events(kid(cs, n - 1))->Some_0);
    }
}

// ---------- the reference's own example document, through the oracle ----------
// (sanity of the oracle: a two-level tree with a prefixed ns, one attribute, a bare-string child)
pub proof fn lemma_example_document(top: Fields, kids: Seq<Rc<Val>>, attrs: Fields, id: Rc<str>, txt: Rc<str>, nm: Rc<str>)
    requires
        top.len() == 3,
        top[0].0@ == "name"@, *top[0].1 == Val::Str(nm),
        top[1].0@ == "attrs"@, *top[1].1 matches Val::Tuple(a) && a@ == attrs,
        top[2].0@ == "children"@, *top[2].1 matches Val::List(c) && c@ == kids,
        attrs.len() == 1, attrs[0].0@ == "id"@, *attrs[0].1 == Val::Str(id),
        kids.len() == 1, *kids[0] == Val::Str(txt),
    ensures
        tuple_events(top) == Some(seq![
            Ev::StartElement { name: nm@, attrs: seq![("id"@, id@)], ns: Seq::<Pair>::empty() },
            Ev::Characters(txt@),
            Ev::EndElement,
        ]),
{
    reveal_strlit("name"); reveal_strlit("attrs"); reveal_strlit("children"); reveal_strlit("text"); reveal_strlit("ns");
    reveal_with_fuel(last_idx, 4);
    reveal_with_fuel(last_set_idx, 4);
    reveal_with_fuel(attr_pairs, 2);
    reveal_with_fuel(kids_events, 2);
    assert("name"@.len() == 4 && "attrs"@.len() == 5 && "children"@.len() == 8 && "ns"@.len() == 2 && "text"@.len() == 4);
    assert("name"@[0] != "text"@[0]);
    assert(node_fields_ok(top));
    assert(attrs_ok(attrs));
    assert(node_events(*kids[0]) == Some(seq![Ev::Characters(txt@)]));
    assert(kids_ok(kids));
    assert(kids_events(kids, 1) =~= seq![Ev::Characters(txt@)]);
    assert(attr_pairs(attrs, 1) =~= seq![("id"@, id@)]);
    let ev = tuple_events(top);
    assert(ev is Some);
    assert(ev->Some_0 =~= seq![
        Ev::StartElement { name: nm@, attrs: seq![("id"@, id@)], ns: Seq::<Pair>::empty() },
        Ev::Characters(txt@),
        Ev::EndElement,
    ]);
}

} // verus!

fn main() {}
