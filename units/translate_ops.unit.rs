//@ unit translate_ops
//@ serves C01
//@ must_verify OpsMap::push OpsMap::replace OpsMap::len bin_add_arm bin_and_arm
//@ include prelude/head.rs
use std::rc::Rc;

verus! {
//@ include prelude/core.rs
//@ opaque Position Expression VPath VShapeMap VLinks Hook ConstraintArmType
//@ clone_spec Position

//@ extract src/build/opcode/mod.rs :: enum Primitive
//@   rule R0
//@ end
//@ extract src/ast/mod.rs :: enum CastType
//@   rule R0
//@ end
//@ extract src/build/opcode/mod.rs :: enum Op
//@   rule R0
//@ end
//@ extract src/build/opcode/translate.rs :: struct OpsMap
//@   rule R0
//@   subst "shape_map: BTreeMap<Rc<str>, Shape>" => "shape_map: VShapeMap"
//@   subst "links: BTreeMap<Rc<str>, Position>" => "links: VLinks"
//@ end
//@ extract src/build/opcode/translate.rs :: impl OpsMap :: fn push
//@   sig <<<
        ensures final(self).ops@ == old(self).ops@.push(op), final(self).pos@ == old(self).pos@.push(pos),
            final(self).shape_map == old(self).shape_map, final(self).links == old(self).links,
//@   >>>
//@ end
//@ extract src/build/opcode/translate.rs :: impl OpsMap :: fn len
//@   ret r
//@   sig <<<
        ensures r == self.ops@.len()
//@   >>>
//@ end
//@ extract src/build/opcode/translate.rs :: impl OpsMap :: fn replace
//@   sig <<<
        requires idx < old(self).ops@.len()
        ensures final(self).ops@ == old(self).ops@.update(idx as int, op), final(self).pos == old(self).pos,
            final(self).shape_map == old(self).shape_map, final(self).links == old(self).links,
//@   >>>
//@ end

//@ extract src/ast/mod.rs :: enum BinaryExprType
//@   rule R0
//@ end
//@ extract src/ast/mod.rs :: struct BinaryOpDef
//@   rule R0
//@ end

// ---------- ghost labels for the opaque fragments ----------
// `frag(e, a, b)`: "a call translate_expr(e, ..) appended exactly the ops at indices [a, b)".
// `op_at(e, a, b, k, op)`: "... and the op it left at index k was `op`".
// Both are UNINTERPRETED: the assumed contract of the recursive call below says nothing about WHAT is emitted
// (under the interpretation `true` both clauses are vacuous); they only let a contract say which operand's code
// sits where and that it is still intact.  A proof has to go through for every interpretation, so code that
// emits the operands in another order, or overwrites an op inside a fragment, is rejected.
pub uninterp spec fn frag(e: Expression, a: int, b: int) -> bool;
pub uninterp spec fn op_at(e: Expression, a: int, b: int, k: int, op: Op) -> bool;

// the ops s[a..b) are the (intact) code of e
pub open spec fn code_at(e: Expression, s: Seq<Op>, a: int, b: int) -> bool {
    &&& frag(e, a, b)
    &&& 0 <= a < b <= s.len()
    &&& forall|k: int| a <= k < b ==> op_at(e, a, b, k, #[trigger] s[k])
}

// `b` extends `a`: at least one op appended, nothing that was there modified or removed; ops and positions stay in step
pub open spec fn appended(a: OpsMap, b: OpsMap) -> bool {
    &&& b.ops@.len() > a.ops@.len()
    &&& b.pos@.len() > a.pos@.len()
    &&& b.ops@.subrange(0, a.ops@.len() as int) =~= a.ops@
    &&& b.pos@.subrange(0, a.pos@.len() as int) =~= a.pos@
    &&& forall|k: int| 0 <= k < a.ops@.len() ==> (#[trigger] b.ops@[k]) == a.ops@[k]
    &&& forall|k: int| 0 <= k < a.pos@.len() ==> (#[trigger] b.pos@[k]) == a.pos@[k]
    &&& (a.pos@.len() == a.ops@.len() ==> b.pos@.len() == b.ops@.len())
}

// AST::translate_expr, the recursive call (R8) - ASSUMED: it appends at least one op and never modifies or removes
// ops already present (this is also what every arm below is proved to do: the induction hypothesis).
#[verifier::external_body]
fn translate_expr(expr: Expression, ops: &mut OpsMap, root: &VPath)
    ensures
        appended(*old(ops), *final(ops)),
        code_at(expr, final(ops).ops@, old(ops).ops@.len() as int, final(ops).ops@.len() as int),
{ unimplemented!() }

// ---------- oracle: binary operators ----------
// VM convention (units vm_arith / vm_ctrl): the LEFT operand is on top of the stack, so the code of the RIGHT
// operand runs first, then the code of the LEFT operand, then the operator's op(s) `tail`.
pub open spec fn binary_emits(a: OpsMap, b: OpsMap, l: Expression, r: Expression, tail: Seq<Op>) -> bool {
    let n0 = a.ops@.len() as int;
    let n = b.ops@.len() as int;
    &&& appended(a, b)
    &&& exists|m: int| #[trigger] frag(r, n0, m) && code_at(r, b.ops@, n0, m) && code_at(l, b.ops@, m, n - tail.len())
    &&& b.ops@.subrange(n - tail.len(), n) =~= tail
}

// Short-circuit operators (reference: `&&` / `||` evaluate the left operand first and the right one only if
// needed; unit vm_ctrl: `And(j)` / `Or(j)` at index i continue at i + j + 1 when they short-circuit):
// code(left), the jump op at index i, code(right), and i + j + 1 is exactly the end of the fragment.
pub open spec fn short_circuit_emits(a: OpsMap, b: OpsMap, l: Expression, r: Expression, is_and: bool) -> bool {
    let n0 = a.ops@.len() as int;
    let n = b.ops@.len() as int;
    &&& appended(a, b)
    &&& exists|i: int| #[trigger] frag(l, n0, i) && code_at(l, b.ops@, n0, i) && code_at(r, b.ops@, i + 1, n)
            && (n <= i32::MAX ==> (if is_and { b.ops@[i] == Op::And((n - 1 - i) as i32) } else { b.ops@[i] == Op::Or((n - 1 - i) as i32) }))
            && (b.ops@[i] is And || b.ops@[i] is Or)
}

//@ extract src/build/opcode/translate.rs :: impl AST :: fn translate_expr :: arm "BinaryExprType::Add =>"
//@   wrap <<<
fn bin_add_arm(def: BinaryOpDef, ops: &mut OpsMap, root: &VPath)
$BODY
//@   >>>
//@   subst all "Self::translate_expr" => "translate_expr"
//@   sig <<<
        ensures binary_emits(*old(ops), *final(ops), *def.left, *def.right, seq![Op::Add])
//@   >>>
//@ end

//@ extract src/build/opcode/translate.rs :: impl AST :: fn translate_expr :: arm "BinaryExprType::AND =>"
//@   wrap <<<
fn bin_and_arm(def: BinaryOpDef, ops: &mut OpsMap, root: &VPath)
$BODY
//@   >>>
//@   subst all "Self::translate_expr" => "translate_expr"
//@   sig <<<
        ensures short_circuit_emits(*old(ops), *final(ops), *def.left, *def.right, true)
//@   >>>
//@ end

} // verus!

fn main() {}
