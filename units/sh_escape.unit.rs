//@ unit sh_escape
//@ serves C08
//@ must_verify shell_escape_single_quoted shell_escape_double_quoted verif_replace_char lemma_squote_one_word lemma_dquote_one_word lemma_sq_scan lemma_dq_scan lemma_dq_is_map lemma_dq_one lemma_replace_concat lemma_replace_absent lemma_sq_contract lemma_dq_contract
//@ include prelude/head.rs

verus! {
//@ include prelude/core.rs
//@ include prelude/sh_escape_models.rs
//@ include prelude/sh_escape_posix.rs

// The two blocks below are prelude/sh_escape_fns.rs plus seeded mutants.
// R9': `X.replace(c, t)` -> `verif_replace_char(X, c, t)`; assumption: std's str::replace::<char> behaves like
// the verified loop model (left to right, every occurrence).
//@ extract src/convert/mod.rs :: fn shell_escape_single_quoted
//@   subst "s.replace(" => "verif_replace_char(s, "
//@   ret r
//@   sig <<<
    ensures sq_contract(s@, r@)
//@   >>>
//@   body_start <<<
    proof {
        reveal_strlit("'\\''");
        assert("'\\''"@ =~= sq_to());
        lemma_sq_contract(s@);
    }
//@   >>>
//@   mutant sq_no_reopen "\"'\\\\''\"" => "\"'\\\\'\"" expect shell_escape_single_quoted
//@   mutant sq_no_backslash "\"'\\\\''\"" => "\"'''\"" expect shell_escape_single_quoted
//@   mutant sq_wrong_char "'\\''" => "'\"'" expect shell_escape_single_quoted
//@ end

// (mutants of shell_escape_double_quoted are matched against the rewritten call chain)
//@ extract src/convert/mod.rs :: fn shell_escape_double_quoted
//@   subst <<<
s.replace('\\', "\\\\")
        .replace('"', "\\\"")
        .replace('$', "\\$")
        .replace('`', "\\`")
//@ ===
    verif_replace_char(verif_replace_char(verif_replace_char(verif_replace_char(s, '\\', "\\\\").as_str(),
        '"', "\\\"").as_str(),
        '$', "\\$").as_str(),
        '`', "\\`")
//@   >>>
//@   ret r
//@   sig <<<
    ensures dq_contract(s@, r@)
//@   >>>
//@   body_start <<<
    proof {
        reveal_strlit("\\\\");
        reveal_strlit("\\\"");
        reveal_strlit("\\$");
        reveal_strlit("\\`");
        assert("\\\\"@ =~= seq!['\\', '\\']);
        assert("\\\""@ =~= seq!['\\', '"']);
        assert("\\$"@ =~= seq!['\\', '$']);
        assert("\\`"@ =~= seq!['\\', '`']);
        lemma_dq_contract(s@);
    }
//@   >>>
//@   mutant dq_backslash_second "s, '\\\\', \"\\\\\\\\\").as_str(), '\"', \"\\\\\\\"\")" => "s, '\"', \"\\\\\\\"\").as_str(), '\\\\', \"\\\\\\\\\")" expect shell_escape_double_quoted
//@   mutant dq_dollar_unescaped "'$', \"\\\\$\"" => "'$', \"$\"" expect shell_escape_double_quoted
//@   mutant dq_backquote_dropped "'`', \"\\\\`\"" => "'`', \"\"" expect shell_escape_double_quoted
//@   mutant dq_quote_unescaped "'\"', \"\\\\\\\"\"" => "'\"', \"\\\"\"" expect shell_escape_double_quoted
//@ end

} // verus!

fn main() {}
