// ---- prelude/err_pos_run_values.rs: a COPY of prelude/vm_values.rs WITHOUT its model of opcode::Error ----
//@ opaque Position VPathBuf Stack Builtins Func Module ConstraintVal ReservedWords
//@ clone_spec Position

// opcode::Error is NOT modelled here: unit err_pos_run extracts the real struct from error.rs.
//@ extract src/build/opcode/mod.rs :: enum Primitive
//@   rule R0
//@ end
//@ extract src/build/opcode/mod.rs :: enum Composite
//@   rule R0
//@ end
//@ extract src/build/opcode/mod.rs :: enum Value
//@   rule R0
//@ end
use Primitive::{Bool, Empty, Float, Int, Str};
use Composite::{List, Tuple};
use Value::{C, F, K, M, P, S, T};

// R0: derived Clone assumed structural; Rc::clone is pointer copy.
impl Clone for Value {
    #[verifier::external_body]
    fn clone(&self) -> (r: Self)
        ensures r == *self
    { unimplemented!() }
}

// R6: float arithmetic is uninterpreted (operand order is still pinned by the contracts).
pub uninterp spec fn f64_add(a: f64, b: f64) -> f64;
pub uninterp spec fn f64_sub(a: f64, b: f64) -> f64;
pub uninterp spec fn f64_mul(a: f64, b: f64) -> f64;
pub uninterp spec fn f64_div(a: f64, b: f64) -> f64;
pub uninterp spec fn f64_rem(a: f64, b: f64) -> f64;
#[verifier::external_body] pub fn verif_f64_add(a: f64, b: f64) -> (r: f64) ensures r == f64_add(a, b) { a + b }
#[verifier::external_body] pub fn verif_f64_sub(a: f64, b: f64) -> (r: f64) ensures r == f64_sub(a, b) { a - b }
#[verifier::external_body] pub fn verif_f64_mul(a: f64, b: f64) -> (r: f64) ensures r == f64_mul(a, b) { a * b }
#[verifier::external_body] pub fn verif_f64_div(a: f64, b: f64) -> (r: f64) ensures r == f64_div(a, b) { a / b }
#[verifier::external_body] pub fn verif_f64_rem(a: f64, b: f64) -> (r: f64) ensures r == f64_rem(a, b) { a % b }

// exec float comparisons are unconstrained in Verus; same treatment (operand order pinned).
pub uninterp spec fn f64_gt(a: f64, b: f64) -> bool;
pub uninterp spec fn f64_lt(a: f64, b: f64) -> bool;
pub uninterp spec fn f64_ge(a: f64, b: f64) -> bool;
pub uninterp spec fn f64_le(a: f64, b: f64) -> bool;
#[verifier::external_body] pub fn verif_f64_gt(a: f64, b: f64) -> (r: bool) ensures r == f64_gt(a, b) { a > b }
#[verifier::external_body] pub fn verif_f64_lt(a: f64, b: f64) -> (r: bool) ensures r == f64_lt(a, b) { a < b }
#[verifier::external_body] pub fn verif_f64_ge(a: f64, b: f64) -> (r: bool) ensures r == f64_ge(a, b) { a >= b }
#[verifier::external_body] pub fn verif_f64_le(a: f64, b: f64) -> (r: bool) ensures r == f64_le(a, b) { a <= b }

// String -> Rc<str> (`.into()`): content preserved.
#[verifier::external_body]
pub fn verif_string_into_rcstr(s: String) -> (r: Rc<str>)
    ensures r@ == s@
{ s.into() }
