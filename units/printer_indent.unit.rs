//@ unit printer_indent
//@ serves C04 C05
//@ must_verify AstPrinter::new AstPrinter::with_comment_map AstPrinter::has_comment AstPrinter::print_comment_group AstPrinter::render_missed_comments AstPrinter::render_comment_if_needed AstPrinter::is_bareword AstPrinter::escape_quotes AstPrinter::render_list_def AstPrinter::render_tuple_def AstPrinter::render_value AstPrinter::render_expr AstPrinter::render_expr__g0 AstPrinter::render_expr__g1 AstPrinter::render_expr__g2 AstPrinter::render_expr__g3 AstPrinter::render_stmt AstPrinter::render lemma_consumed_in_line_order lemma_kd Value::pos FuncOpDef::pos Expression::pos Statement::pos lemma_groups_inhabited lemma_e_parts lemma_fl_parts lemma_st_parts lemma_es_w lemma_fs_w lemma_ads_w lemma_arms_w lemma_sts_w
// C04 / C05 - the AST printer behind `ucg fmt`: `AstPrinter` (src/ast/printer/mod.rs), every method, over the real AST
// types of src/ast/mod.rs and the real std BTreeMap comment map - all extracted verbatim.
//
// Contract (C04: "formatting ... finishes with either a result or a diagnostic. None panics ... or fails to terminate"):
// for ALL statement lists, ALL comment maps, ALL line numbers in the tree and ANY writer (every write may fail)
//   * no arithmetic on `curr_indent` or on line numbers (`+= indent_size`, `-= indent_size`, `line - 1`,
//     `last_comment_line + 1`) leaves usize, no `unwrap` meets a None, no index leaves its list, make_indent is never
//     asked for more than isize::MAX bytes, every loop and every recursion terminates (`decreases` on the tree);
//   * `rpost`: the printer's invariant `pinv` holds again afterwards (also when a write failed), indent_size and the
//     comment map are untouched, and when the function succeeds `curr_indent` is back where it was - every
//     `+= indent_size` has met its `-= indent_size` on every path. (After a failed write the function returns early
//     with the indentation possibly still raised; nothing is rendered after that.)
// Caller obligations (`rpre`, with_comment_map's `requires`):
//   * room: curr_indent + e_w(tree, indent_size) <= isize::MAX, e_w = the deepest indentation the tree can reach: one
//     indent_size per nested list / tuple / argument list / module body / commented map-filter-reduce / parenthesis.
//     (`ucg fmt` always passes indent_size 4 - its `--indent` flag takes no value - and starts at 0.)
//   * the keys of the comment map are line numbers: 1 <= key < usize::MAX (the tokenizer counts lines from 1). A group
//     at line 0 would make `line - 1` in render_missed_comments underflow for a node at line 0.
//   * `pinv`, which `new` and `with_comment_map` establish: comment groups are pending only while a map is installed
//     (else render_missed_comments would never terminate), and they are the n largest keys of the map, descending.
// C05 frame ("contains every comment of the original ... in the same order"), as far as the printer's own state
// tells: with_comment_map makes EVERY key of the map pending; no render function ever adds a pending group; groups are
// consumed only by print_comment_group (one per call, after writing it), from the smallest line up, none skipped
// (lemma_consumed_in_line_order); render_missed_comments(line) consumes exactly the groups up to `line`; when `render`
// succeeds NO group is left pending. The written text itself is not modelled here.
//
// Model: `W: Write` stays generic over a local trait `Write` (any writer: every call may fail, the writer changes
// arbitrarily); `write!` / `writeln!` are the macros of prelude/printer_indent_macros.rs: arguments are evaluated, the
// text is dropped. make_indent's body (repeat_n + collect + from_utf8_lossy) is assumed: it needs curr_indent <=
// isize::MAX (Vec's capacity limit) and yields that many chars.
//@ include prelude/head.rs
use std::rc::Rc;
//@ include prelude/printer_indent_macros.rs
// the printer names two variants by their full path `crate::ast::ConstraintArm::..`: in this one-file crate the AST
// types sit in the root, `ast` re-exports them.
pub mod ast { pub use crate::*; }

verus! {
//@ include prelude/core.rs
//@ include prelude/printer_indent_world.rs
//@ include prelude/printer_indent_types.rs

//@ extract src/ast/printer/mod.rs :: struct AstPrinter
//@   rule R0 RV
//@ end

pub open spec fn maxi() -> int { isize::MAX as int }

// ---------- the printer's state invariant ----------
// The pending comment groups are kept as the vector of their lines, DESCENDING (the smallest line, the next group to
// print, is the last element). kd(m): all keys of the comment map in that order.
pub open spec fn kd(m: Map<usize, CommentGroup>) -> Seq<usize> {
    Seq::new(keys_asc(m).len(), |i: int| keys_asc(m)[keys_asc(m).len() - 1 - i])
}
// facts of the map alone: its keys are real line numbers (1-based, below usize::MAX: the printer computes `line - 1` and
// `last_comment_line + 1`), kd lists each key once, strictly descending.
pub open spec fn map_ok(m: Map<usize, CommentGroup>) -> bool {
    &&& forall|i: int| 0 <= i < kd(m).len() ==> 1 <= #[trigger] kd(m)[i] < usize::MAX && m.dom().contains(kd(m)[i])
    &&& forall|i: int, j: int| 0 <= i < j < kd(m).len() ==> kd(m)[i] > kd(m)[j]
    &&& forall|k: usize| m.dom().contains(k) ==> exists|i: int| 0 <= i < kd(m).len() && #[trigger] kd(m)[i] == k
}
pub proof fn lemma_kd(m: Map<usize, CommentGroup>)
    requires forall|k: usize| m.dom().contains(k) ==> 1 <= k < usize::MAX,
    ensures map_ok(m),
{
    axiom_keys_asc(m);
    let a = keys_asc(m);
    let n = a.len() as int;
    assert forall|k: usize| m.dom().contains(k) implies exists|i: int| 0 <= i < kd(m).len() && #[trigger] kd(m)[i] == k by {
        let j = choose|j: int| 0 <= j < a.len() && #[trigger] a[j] == k;
        assert(kd(m)[n - 1 - j] == k);
    }
}
// the invariant: without a map nothing is pending (or render_missed_comments would spin for ever); with a map the
// pending groups are the n LARGEST keys of the map, for some n: the groups are consumed from the smallest line up,
// none is skipped, none comes back. The big render functions only hand the invariant on (they `hide` it).
pub open spec fn cinv(mo: Option<Map<usize, CommentGroup>>, lines: Seq<usize>) -> bool {
    match mo {
        None => lines.len() == 0,
        Some(m) => map_ok(m) && lines.len() <= kd(m).len() && lines =~= kd(m).take(lines.len() as int),
    }
}
pub open spec fn pmap<'a, W: Write>(p: AstPrinter<'a, W>) -> Option<Map<usize, CommentGroup>> {
    match p.comment_map { Some(m) => Some(m@), None => None }
}
pub open spec fn pinv<'a, W: Write>(p: AstPrinter<'a, W>) -> bool {
    cinv(pmap(p), p.comment_group_lines@)
}
// C05 frame: what the invariant says about two states of one printer: the later pending groups are the earlier ones
// minus the groups of the smallest lines, and every group consumed in between lies below every group still pending.
pub proof fn lemma_consumed_in_line_order<'a, W: Write>(p: AstPrinter<'a, W>, q: AstPrinter<'a, W>)
    requires pinv(p), pinv(q), q.comment_map == p.comment_map, q.comment_group_lines@.len() <= p.comment_group_lines@.len(),
    ensures
        q.comment_group_lines@ =~= p.comment_group_lines@.take(q.comment_group_lines@.len() as int),
        forall|i: int, j: int| 0 <= i < q.comment_group_lines@.len() <= j < p.comment_group_lines@.len()
            ==> p.comment_group_lines@[j] < q.comment_group_lines@[i],
{
}

// ---------- how far to the right rendering a tree can move the indentation ----------
// e_w(e, s): an upper bound of the indentation (in columns, for indent_size s) that rendering `e` adds, at its deepest
// point, to the indentation it starts with. Every list / tuple / call argument list / format argument list / module
// body adds one step for its members, a map / filter / reduce and a parenthesised expression add (at most) one step
// for their operands (they do when a comment precedes an operand), everything else renders its operands at the
// indentation it was given. Lists are folded with (sequence, count) so that the definition is structural.
pub open spec fn nmax(a: nat, b: nat) -> nat { if a >= b { a } else { b } }

pub open spec fn e_w(e: Expression, s: nat) -> nat
    decreases e, 0nat
{
    match e {
        Expression::Simple(v) => v_w(v, s),
        Expression::Binary(d) => nmax(e_w(*d.left, s), e_w(*d.right, s)),
        Expression::Cast(d) => e_w(*d.target, s),
        Expression::Call(d) => nmax(v_w(d.funcref, s), s + es_w(d.arglist@, d.arglist@.len(), s)),
        Expression::Copy(d) => nmax(v_w(d.selector, s), fl_w(d.fields@, s)),
        Expression::Debug(d) => e_w(*d.expr, s),
        Expression::Fail(d) => e_w(*d.message, s),
        Expression::Convert(d) => e_w(*d.target, s),
        Expression::Format(d) => fa_w(d.args, s),
        Expression::Func(d) => nmax(ads_w(d.argdefs@, d.argdefs@.len(), s), e_w(*d.fields, s)),
        Expression::FuncOp(d) => s + fo_w(d, s),
        Expression::Grouped(x, _) => s + e_w(*x, s),
        Expression::Import(_) => 0,
        Expression::Include(_) => 0,
        Expression::Module(d) => nmax(fl_w(d.arg_set@, s), nmax(ob_w(d.out_expr, s), nmax(ob_w(d.out_constraint, s),
            s + sts_w(d.statements@, d.statements@.len(), s)))),
        Expression::Not(d) => e_w(*d.expr, s),
        Expression::Range(d) => nmax(e_w(*d.start, s), nmax(ob_w(d.step, s), e_w(*d.end, s))),
        Expression::Select(d) => nmax(e_w(*d.val, s), nmax(ob_w(d.default, s), fl_w(d.tuple@, s))),
        Expression::Constraint(d) => arms_w(d.arms@, d.arms@.len(), s),
    }
}
pub open spec fn ob_w(o: Option<Box<Expression>>, s: nat) -> nat
    decreases o, 0nat
{
    match o { Some(x) => e_w(*x, s), None => 0 }
}
pub open spec fn o_w(o: Option<Expression>, s: nat) -> nat
    decreases o, 0nat
{
    match o { Some(x) => e_w(x, s), None => 0 }
}
pub open spec fn es_w(v: Seq<Expression>, n: nat, s: nat) -> nat
    decreases v, n
{
    if n == 0 || n > v.len() { 0 } else { nmax(e_w(v[n - 1], s), es_w(v, (n - 1) as nat, s)) }
}
pub open spec fn f_w(f: (Token, Option<Expression>, Expression), s: nat) -> nat
    decreases f, 0nat
{
    nmax(o_w(f.1, s), e_w(f.2, s))
}
pub open spec fn fs_w(v: Seq<(Token, Option<Expression>, Expression)>, n: nat, s: nat) -> nat
    decreases v, n
{
    if n == 0 || n > v.len() { 0 } else { nmax(f_w(v[n - 1], s), fs_w(v, (n - 1) as nat, s)) }
}
// a field list ({..} of a tuple, a copy, a select, module parameters): one step for the fields
pub open spec fn fl_w(v: Seq<(Token, Option<Expression>, Expression)>, s: nat) -> nat
    decreases v, v.len() + 1
{
    s + fs_w(v, v.len(), s)
}
pub open spec fn ad_w(a: (PositionedItem<Rc<str>>, Option<Expression>), s: nat) -> nat
    decreases a, 0nat
{
    o_w(a.1, s)
}
pub open spec fn ads_w(v: Seq<(PositionedItem<Rc<str>>, Option<Expression>)>, n: nat, s: nat) -> nat
    decreases v, n
{
    if n == 0 || n > v.len() { 0 } else { nmax(ad_w(v[n - 1], s), ads_w(v, (n - 1) as nat, s)) }
}
pub open spec fn fa_w(a: FormatArgs, s: nat) -> nat
    decreases a, 0nat
{
    match a {
        FormatArgs::List(v) => s + es_w(v@, v@.len(), s),
        FormatArgs::Single(x) => e_w(*x, s),
    }
}
pub open spec fn fo_w(a: FuncOpDef, s: nat) -> nat
    decreases a, 0nat
{
    match a {
        FuncOpDef::Reduce(d) => nmax(e_w(*d.func, s), nmax(e_w(*d.acc, s), e_w(*d.target, s))),
        FuncOpDef::Map(d) => nmax(e_w(*d.func, s), e_w(*d.target, s)),
        FuncOpDef::Filter(d) => nmax(e_w(*d.func, s), e_w(*d.target, s)),
    }
}
pub open spec fn arm_w(a: ConstraintArm, s: nat) -> nat
    decreases a, 0nat
{
    match a {
        ConstraintArm::Range(d) => nmax(ob_w(d.start, s), ob_w(d.end, s)),
        ConstraintArm::Shape(x) => e_w(*x, s),
    }
}
pub open spec fn arms_w(v: Seq<ConstraintArm>, n: nat, s: nat) -> nat
    decreases v, n
{
    if n == 0 || n > v.len() { 0 } else { nmax(arm_w(v[n - 1], s), arms_w(v, (n - 1) as nat, s)) }
}
pub open spec fn v_w(a: Value, s: nat) -> nat
    decreases a, 0nat
{
    match a {
        Value::Tuple(t) => fl_w(t.val@, s),
        Value::List(l) => s + es_w(l.elems@, l.elems@.len(), s),
        _ => 0,
    }
}
pub open spec fn st_w(a: Statement, s: nat) -> nat
    decreases a, 0nat
{
    match a {
        Statement::Expression(x) => e_w(x, s),
        Statement::Let(d) => nmax(o_w(d.constraint, s), e_w(d.value, s)),
        Statement::Constraint(d) => e_w(d.value, s),
        Statement::Assert(_, x) => e_w(x, s),
        Statement::Output(_, _, x) => e_w(x, s),
    }
}
pub open spec fn sts_w(v: Seq<Statement>, n: nat, s: nat) -> nat
    decreases v, n
{
    if n == 0 || n > v.len() { 0 } else { nmax(st_w(v[n - 1], s), sts_w(v, (n - 1) as nat, s)) }
}

// every member of a list needs no more room than the list
pub proof fn lemma_es_w(v: Seq<Expression>, n: nat, s: nat)
    requires n <= v.len()
    ensures forall|k: int| 0 <= k < n ==> e_w(#[trigger] v[k], s) <= es_w(v, n, s)
    decreases n
{
    if n > 0 { lemma_es_w(v, (n - 1) as nat, s); }
}
pub proof fn lemma_fs_w(v: Seq<(Token, Option<Expression>, Expression)>, n: nat, s: nat)
    requires n <= v.len()
    ensures forall|k: int| 0 <= k < n ==> f_w(#[trigger] v[k], s) <= fs_w(v, n, s)
    decreases n
{
    if n > 0 { lemma_fs_w(v, (n - 1) as nat, s); }
}
pub proof fn lemma_ads_w(v: Seq<(PositionedItem<Rc<str>>, Option<Expression>)>, n: nat, s: nat)
    requires n <= v.len()
    ensures forall|k: int| 0 <= k < n ==> ad_w(#[trigger] v[k], s) <= ads_w(v, n, s)
    decreases n
{
    if n > 0 { lemma_ads_w(v, (n - 1) as nat, s); }
}
pub proof fn lemma_arms_w(v: Seq<ConstraintArm>, n: nat, s: nat)
    requires n <= v.len()
    ensures forall|k: int| 0 <= k < n ==> arm_w(#[trigger] v[k], s) <= arms_w(v, n, s)
    decreases n
{
    if n > 0 { lemma_arms_w(v, (n - 1) as nat, s); }
}
pub proof fn lemma_sts_w(v: Seq<Statement>, n: nat, s: nat)
    requires n <= v.len()
    ensures forall|k: int| 0 <= k < n ==> st_w(#[trigger] v[k], s) <= sts_w(v, n, s)
    decreases n
{
    if n > 0 { lemma_sts_w(v, (n - 1) as nat, s); }
}
// One level of e_w, as inequalities: the room each DIRECT part of an expression needs (plus the step the expression
// adds for it) is within the room of the expression. render_expr works with these facts only (e_w itself is hidden
// there: unfolding the 19-variant definition at every call site is what makes the proof expensive).
pub open spec fn ob_fits(o: Option<Box<Expression>>, s: nat, lim: nat) -> bool {
    o matches Some(x) ==> e_w(*x, s) <= lim
}
pub open spec fn o_fits(o: Option<Expression>, s: nat, lim: nat) -> bool {
    o matches Some(x) ==> e_w(x, s) <= lim
}
pub open spec fn arm_fits(a: ConstraintArm, s: nat, lim: nat) -> bool {
    match a {
        ConstraintArm::Range(rd) => ob_fits(rd.start, s, lim) && ob_fits(rd.end, s, lim),
        ConstraintArm::Shape(x) => e_w(*x, s) <= lim,
    }
}
pub open spec fn e_parts_fit(e: Expression, s: nat, lim: nat) -> bool {
    match e {
        Expression::Simple(v) => v_w(v, s) <= lim,
        Expression::Binary(d) => e_w(*d.left, s) <= lim && e_w(*d.right, s) <= lim,
        Expression::Cast(d) => e_w(*d.target, s) <= lim,
        Expression::Call(d) => v_w(d.funcref, s) <= lim && s <= lim
            && forall|k: int| 0 <= k < d.arglist@.len() ==> s + e_w(#[trigger] d.arglist@[k], s) <= lim,
        Expression::Copy(d) => v_w(d.selector, s) <= lim && fl_w(d.fields@, s) <= lim,
        Expression::Debug(d) => e_w(*d.expr, s) <= lim,
        Expression::Fail(d) => e_w(*d.message, s) <= lim,
        Expression::Convert(d) => e_w(*d.target, s) <= lim,
        Expression::Format(d) => match d.args {
            FormatArgs::Single(x) => e_w(*x, s) <= lim,
            FormatArgs::List(v) => s <= lim && forall|k: int| 0 <= k < v@.len() ==> s + e_w(#[trigger] v@[k], s) <= lim,
        },
        Expression::Func(d) => e_w(*d.fields, s) <= lim
            && forall|k: int| 0 <= k < d.argdefs@.len() ==> o_fits((#[trigger] d.argdefs@[k]).1, s, lim),
        Expression::FuncOp(d) => match d {
            FuncOpDef::Reduce(m) => s + e_w(*m.func, s) <= lim && s + e_w(*m.acc, s) <= lim && s + e_w(*m.target, s) <= lim,
            FuncOpDef::Map(m) => s + e_w(*m.func, s) <= lim && s + e_w(*m.target, s) <= lim,
            FuncOpDef::Filter(m) => s + e_w(*m.func, s) <= lim && s + e_w(*m.target, s) <= lim,
        },
        Expression::Grouped(x, _) => s + e_w(*x, s) <= lim,
        Expression::Import(_) => true,
        Expression::Include(_) => true,
        Expression::Module(d) => fl_w(d.arg_set@, s) <= lim && ob_fits(d.out_expr, s, lim) && ob_fits(d.out_constraint, s, lim)
            && s <= lim && forall|k: int| 0 <= k < d.statements@.len() ==> s + st_w(#[trigger] d.statements@[k], s) <= lim,
        Expression::Not(d) => e_w(*d.expr, s) <= lim,
        Expression::Range(d) => e_w(*d.start, s) <= lim && ob_fits(d.step, s, lim) && e_w(*d.end, s) <= lim,
        Expression::Select(d) => e_w(*d.val, s) <= lim && ob_fits(d.default, s, lim) && fl_w(d.tuple@, s) <= lim,
        Expression::Constraint(d) => forall|k: int| 0 <= k < d.arms@.len() ==> arm_fits(#[trigger] d.arms@[k], s, lim),
    }
}
pub proof fn lemma_e_parts(e: Expression, s: nat)
    ensures e_parts_fit(e, s, e_w(e, s))
{
    reveal_with_fuel(e_w, 3); reveal_with_fuel(ad_w, 2); reveal_with_fuel(arm_w, 2);
    match e {
        Expression::Call(d) => lemma_es_w(d.arglist@, d.arglist@.len(), s),
        Expression::Format(d) => match d.args { FormatArgs::List(v) => lemma_es_w(v@, v@.len(), s), _ => {} },
        Expression::Func(d) => lemma_ads_w(d.argdefs@, d.argdefs@.len(), s),
        Expression::Module(d) => lemma_sts_w(d.statements@, d.statements@.len(), s),
        Expression::Constraint(d) => lemma_arms_w(d.arms@, d.arms@.len(), s),
        _ => {}
    }
}
// ... the same for a field list ({..}: one step for the fields) and a statement
pub open spec fn fl_parts_fit(v: Seq<(Token, Option<Expression>, Expression)>, s: nat, lim: nat) -> bool {
    s <= lim && forall|k: int| 0 <= k < v.len() ==> s + e_w((#[trigger] v[k]).2, s) <= lim && o_fits(v[k].1, (s), (lim - s) as nat)
}
pub proof fn lemma_fl_parts(v: Seq<(Token, Option<Expression>, Expression)>, s: nat)
    ensures fl_parts_fit(v, s, fl_w(v, s))
{
    reveal_with_fuel(f_w, 2);
    lemma_fs_w(v, v.len(), s);
}
pub open spec fn st_parts_fit(a: Statement, s: nat, lim: nat) -> bool {
    match a {
        Statement::Expression(x) => e_w(x, s) <= lim,
        Statement::Let(d) => o_fits(d.constraint, s, lim) && e_w(d.value, s) <= lim,
        Statement::Constraint(d) => e_w(d.value, s) <= lim,
        Statement::Assert(_, x) => e_w(x, s) <= lim,
        Statement::Output(_, _, x) => e_w(x, s) <= lim,
    }
}
pub proof fn lemma_st_parts(a: Statement, s: nat)
    ensures st_parts_fit(a, s, st_w(a, s))
{
    reveal_with_fuel(st_w, 2);
}

// ---------- the contract of every render function ----------
// frame: what a render function may change of the printer besides the writer and last_line: it consumes pending
// comment groups - by the invariant from the smallest line up, see lemma_consumed_in_line_order - and never adds one.
pub open spec fn frame<'a, W: Write>(p: AstPrinter<'a, W>, q: AstPrinter<'a, W>) -> bool {
    &&& pinv(q)
    &&& q.indent_size == p.indent_size
    &&& q.comment_map == p.comment_map
    &&& q.comment_group_lines@.len() <= p.comment_group_lines@.len()
}
// ... and when it succeeds the indentation is back where it was: every `+= indent_size` has met its `-= indent_size`.
pub open spec fn rpost<'a, W: Write>(p: AstPrinter<'a, W>, q: AstPrinter<'a, W>, r: std::io::Result<()>) -> bool {
    &&& frame(p, q)
    &&& r is Ok ==> q.curr_indent == p.curr_indent
}
// caller obligation: the printer's invariant, and room for the deepest indentation of the tree (`w` columns)
pub open spec fn rpre<'a, W: Write>(p: AstPrinter<'a, W>, w: nat) -> bool {
    &&& pinv(p)
    &&& p.curr_indent + w <= maxi()
}

//@ extract src/ast/printer/mod.rs :: impl * AstPrinter<'a, W> * :: fn new
//@   rule R0
//@   ret r
//@   sig <<<
        ensures pinv(r), r.curr_indent == 0, r.indent_size == indent, r.comment_map is None,
//@   >>>
//@ end

//@ extract src/ast/printer/mod.rs :: impl * AstPrinter<'a, W> * :: fn with_comment_map
//@   rule R0 R4
//@   subst "map.keys().cloned().collect()" => "verif_btree_keys_vec(map)"
//@   ret r
//@   sig <<<
        requires
            forall|k: usize| map@.dom().contains(k) ==> 1 <= k < usize::MAX,
        ensures
            pinv(r), r.curr_indent == self.curr_indent, r.indent_size == self.indent_size,
            r.comment_map == Some(map),
            // every comment group of the map is pending
            r.comment_group_lines@ =~= kd(map@),
//@   >>>
//@   mutant comment_map_not_installed "self.comment_map = Some(map);" => "" expect with_comment_map
//@   body_start <<<
        proof { lemma_kd(map@); }
//@   >>>
//@ end

//@ extract src/ast/printer/mod.rs :: impl * AstPrinter<'a, W> * :: fn make_indent
//@   rule R0
//@   opaque_body
//@   ret r
//@   sig <<<
        requires self.curr_indent <= maxi(),
        ensures r@.len() == self.curr_indent,
//@   >>>
//@ end

//@ extract src/ast/printer/mod.rs :: impl * AstPrinter<'a, W> * :: fn has_comment
//@   rule R0
//@   ret r
//@   sig <<<
        ensures r == (self.comment_group_lines@.len() > 0 && self.comment_group_lines@.last() < line),
//@   >>>
//@ end

//@ extract src/ast/printer/mod.rs :: impl * AstPrinter<'a, W> * :: fn print_comment_group
//@   rule R0
//@   subst "c.fragment.chars().nth(0)" => "verif_first_char(&c.fragment)"
//@   ret r
//@   sig <<<
        requires self.curr_indent <= maxi(),
        ensures
            final(self).curr_indent == old(self).curr_indent,
            final(self).indent_size == old(self).indent_size,
            final(self).comment_map == old(self).comment_map,
            final(self).last_line == old(self).last_line,
            r is Ok && old(self).comment_map is Some && old(self).comment_group_lines@.len() > 0
                ==> final(self).comment_group_lines@ == old(self).comment_group_lines@.drop_last(),
            r is Ok && old(self).comment_map is None
                ==> final(self).comment_group_lines@ == old(self).comment_group_lines@,
            r is Err ==> final(self).comment_group_lines@ == old(self).comment_group_lines@,
//@   >>>
//@   loop 1 iter it <<<
            invariant
                self.curr_indent == old(self).curr_indent,
                self.indent_size == old(self).indent_size,
                self.comment_map == old(self).comment_map,
                self.last_line == old(self).last_line,
                self.comment_group_lines@ == old(self).comment_group_lines@,
//@   >>>
//@   mutant comment_group_dropped_unprinted "self.comment_group_lines.pop();" => "self.comment_group_lines.pop(); self.comment_group_lines.pop();" expect print_comment_group
//@   mutant missing_comment_group_unwrapped "map.get(&line).unwrap_or(&empty)" => "map.get(&line).unwrap()" expect print_comment_group
//@ end

//@ extract src/ast/printer/mod.rs :: impl * AstPrinter<'a, W> * :: fn render_missed_comments
//@   rule R0
//@   ret r
//@   sig <<<
        requires pinv(*old(self)), old(self).curr_indent <= maxi(),
        ensures
            pinv(*final(self)),
            final(self).curr_indent == old(self).curr_indent,
            final(self).indent_size == old(self).indent_size,
            final(self).comment_map == old(self).comment_map,
            final(self).last_line == old(self).last_line,
            // the comment groups are consumed monotonically, from the smallest line up
            final(self).comment_group_lines@.len() <= old(self).comment_group_lines@.len(),
            final(self).comment_group_lines@ == old(self).comment_group_lines@.take(final(self).comment_group_lines@.len() as int),
            // ... and on success exactly the groups up to `line` are consumed
            r is Ok ==> forall|i: int| 0 <= i < final(self).comment_group_lines@.len() ==> final(self).comment_group_lines@[i] > line,
            forall|i: int| final(self).comment_group_lines@.len() <= i < old(self).comment_group_lines@.len() ==> old(self).comment_group_lines@[i] <= line,
//@   >>>
//@   loop 1 <<<
            invariant
                pinv(*self),
                self.curr_indent <= maxi(),
                self.curr_indent == old(self).curr_indent,
                self.indent_size == old(self).indent_size,
                self.comment_map == old(self).comment_map,
                self.last_line == old(self).last_line,
                self.comment_group_lines@.len() <= old(self).comment_group_lines@.len(),
                self.comment_group_lines@ == old(self).comment_group_lines@.take(self.comment_group_lines@.len() as int),
                forall|i: int| self.comment_group_lines@.len() <= i < old(self).comment_group_lines@.len() ==> old(self).comment_group_lines@[i] <= line,
            ensures
                forall|i: int| 0 <= i < self.comment_group_lines@.len() ==> self.comment_group_lines@[i] > line,
            decreases self.comment_group_lines@.len()
//@   >>>
//@   mutant group_on_the_line_itself_left_pending "if next_comment_line <= line {" => "if next_comment_line < line {" expect render_missed_comments
//@   mutant blank_line_test_two_lines_back "if next_comment_line < line - 1 {" => "if next_comment_line < line - 2 {" expect render_missed_comments
//@   mutant later_group_spins_instead_of_stopping "} else { break; }" => "} else { continue; }" expect render_missed_comments
//@ end

//@ extract src/ast/printer/mod.rs :: impl * AstPrinter<'a, W> * :: fn render_comment_if_needed
//@   rule R0
//@   ret r
//@   sig <<<
        requires pinv(*old(self)), old(self).curr_indent <= maxi(),
        ensures
            pinv(*final(self)),
            final(self).curr_indent == old(self).curr_indent,
            final(self).indent_size == old(self).indent_size,
            final(self).comment_map == old(self).comment_map,
            final(self).comment_group_lines@.len() <= old(self).comment_group_lines@.len(),
            final(self).comment_group_lines@ == old(self).comment_group_lines@.take(final(self).comment_group_lines@.len() as int),
            r is Ok ==> final(self).last_line == line,
            r is Ok ==> forall|i: int| 0 <= i < final(self).comment_group_lines@.len() ==> final(self).comment_group_lines@[i] > line,
//@   >>>
//@ end

//@ extract src/ast/printer/mod.rs :: impl * AstPrinter<'a, W> * :: fn is_bareword
//@   rule R0
//@   subst "s.chars().nth(0)" => "verif_first_char(s)"
//@ end

//@ extract src/ast/printer/mod.rs :: impl * AstPrinter<'a, W> * :: fn escape_quotes
//@   rule R0
//@ end

//@ extract src/ast/printer/mod.rs :: impl * AstPrinter<'a, W> * :: fn render_list_def
//@   rule R0
//@   impl_header #[verifier::loop_isolation(false)] impl<'a, W> AstPrinter<'a, W> where W: Write,
//@   ret r
//@   sig <<<
        requires rpre(*old(self), old(self).indent_size as nat + es_w(def.elems@, def.elems@.len(), old(self).indent_size as nat)),
        ensures rpost(*old(self), *final(self), r),
        decreases def
//@   >>>
//@   body_start <<<
        hide(cinv);
        proof { lemma_es_w(def.elems@, def.elems@.len(), old(self).indent_size as nat); }
//@   >>>
//@   loop 1 iter it <<<
            invariant
                frame(*old(self), *self),
                self.curr_indent == old(self).curr_indent + old(self).indent_size,
//@   >>>
//@   mutant list_indent_undone_twice "self.curr_indent -= self.indent_size; if has_fields" => "self.curr_indent -= self.indent_size; self.curr_indent -= self.indent_size; if has_fields" expect render_list_def
//@ end

//@ extract src/ast/printer/mod.rs :: impl * AstPrinter<'a, W> * :: fn render_tuple_def
//@   rule R0
//@   impl_header #[verifier::loop_isolation(false)] impl<'a, W> AstPrinter<'a, W> where W: Write,
//@   ret r
//@   sig <<<
        requires rpre(*old(self), fl_w(def@, old(self).indent_size as nat)),
        ensures rpost(*old(self), *final(self), r),
        decreases def@
//@   >>>
//@   body_start <<<
        hide(cinv); hide(e_w); hide(fl_w);
        proof { lemma_fl_parts(def@, old(self).indent_size as nat); }
//@   >>>
//@   loop 1 iter it <<<
            invariant
                frame(*old(self), *self),
                self.curr_indent == old(self).curr_indent + old(self).indent_size,
//@   >>>
//@   mutant tuple_indent_raised_by_more_than_undone "self.curr_indent += self.indent_size;" => "self.curr_indent += self.indent_size + 1;" expect render_tuple_def
//@ end

//@ extract src/ast/printer/mod.rs :: impl * AstPrinter<'a, W> * :: fn render_value
//@   rule R0 R1
//@   subst "text.contains('.')" => "verif_str_contains_char(&text, '.')"
//@   ret r
//@   sig <<<
        requires rpre(*old(self), v_w(*v, old(self).indent_size as nat)),
        ensures rpost(*old(self), *final(self), r),
        decreases v
//@   >>>
//@ end

// ---------- render_expr ----------
// One Z3 query for the whole 19-arm function does not finish (> 8 min); every third of the arms alone takes 5-9 s.
// So the proof is a CASE SPLIT over the kind of expression, without touching the text: the real function is extracted
// four times (only its NAME differs: render_expr__g0 .. __g3), each copy is verified IN FULL against the one contract
// under the extra hypothesis that the expression belongs to group k (the arms of the other groups are then dead code
// for the prover). The hand-written `render_expr` (prelude/printer_indent_dispatch.rs) is the case split itself - it is verified, not assumed: it
// proves that the four groups cover every expression, it is what the recursive calls inside the copies refer to (the
// induction hypothesis), and it keeps all of this inside one recursion group, so that `decreases` is checked at every
// recursive call.
pub open spec fn grp(e: Expression) -> int {
    match e {
        Expression::Binary(_) | Expression::Cast(_) | Expression::Call(_) | Expression::Copy(_) | Expression::Debug(_)
        | Expression::Fail(_) | Expression::Convert(_) => 0,
        Expression::Format(_) | Expression::Func(_) | Expression::Grouped(_, _) | Expression::Import(_) | Expression::Include(_) => 1,
        Expression::FuncOp(_) => 2,
        Expression::Module(_) | Expression::Not(_) | Expression::Range(_) | Expression::Select(_) | Expression::Simple(_)
        | Expression::Constraint(_) => 3,
    }
}
// the case split (hand-written, VERIFIED; prelude/printer_indent_dispatch.rs says why it is pulled in by `extract`)
//@ extract /verif/prelude/printer_indent_dispatch.rs :: impl * AstPrinter<'a, W> * :: fn render_expr
//@   ret r
//@   sig <<<
        requires rpre(*old(self), e_w(*expr, old(self).indent_size as nat)),
        ensures rpost(*old(self), *final(self), r),
        decreases expr, 1int
//@   >>>
//@ end
// the extra hypothesis of each copy (`grp(*expr) == k`) is satisfiable together with the contract's precondition:
// every group has an expression that needs no room at all (the vacuity canary of the runner covers `rpre` itself).
pub proof fn lemma_groups_inhabited(d: ImportDef, pos: Position, s: nat)
    ensures
        ({ let e = Expression::Debug(DebugDef { pos, expr: Box::new(Expression::Import(d)) }); grp(e) == 0 && e_w(e, s) == 0 }),
        ({ let e = Expression::Import(d); grp(e) == 1 && e_w(e, s) == 0 }),
        ({ let e = Expression::FuncOp(FuncOpDef::Map(MapFilterOpDef { func: Box::new(Expression::Import(d)), target: Box::new(Expression::Import(d)), pos }));
           grp(e) == 2 && e_w(e, s) == s }),
        ({ let e = Expression::Not(NotDef { pos, expr: Box::new(Expression::Import(d)) }); grp(e) == 3 && e_w(e, s) == 0 }),
{
    reveal_with_fuel(e_w, 3);
}

//@ extract src/ast/printer/mod.rs :: impl * AstPrinter<'a, W> * :: fn render_expr
//@   rule R0 R1
//@   impl_header #[verifier::loop_isolation(false)] impl<'a, W> AstPrinter<'a, W> where W: Write,
//@   subst "pub fn render_expr" => "pub fn render_expr__g0"
//@   ret r
//@   sig <<<
        requires rpre(*old(self), e_w(*expr, old(self).indent_size as nat)), grp(*expr) == 0,
        ensures rpost(*old(self), *final(self), r),
        decreases expr, 0int
//@   >>>
//@   body_start <<<
        hide(cinv); hide(e_w); hide(v_w); hide(fl_w); hide(st_w);
        proof { lemma_e_parts(*expr, old(self).indent_size as nat); }
//@   >>>
//@   loop 1 iter it <<<
            invariant frame(*old(self), *self), self.curr_indent == old(self).curr_indent + old(self).indent_size,
//@   >>>
//@   loop 2 iter it <<<
            invariant frame(*old(self), *self), self.curr_indent == old(self).curr_indent + old(self).indent_size,
//@   >>>
//@   loop 3 iter it <<<
            invariant frame(*old(self), *self), self.curr_indent == old(self).curr_indent,
//@   >>>
//@   loop 4 iter it <<<
            invariant frame(*old(self), *self), self.curr_indent == old(self).curr_indent + old(self).indent_size,
//@   >>>
//@   loop 5 indexed <<<
            invariant
                frame(*old(self), *self), self.curr_indent == old(self).curr_indent,
                it__5@ == def.arms@, 0 <= i__5 <= it__5@.len(),
            decreases it__5@.len() - i__5
//@   >>>
//@   mutant call_args_indent_never_undone "self.curr_indent -= self.indent_size; if has_args {" => "if has_args {" expect render_expr__g0
//@ end

//@ extract src/ast/printer/mod.rs :: impl * AstPrinter<'a, W> * :: fn render_expr
//@   rule R0 R1
//@   impl_header #[verifier::loop_isolation(false)] impl<'a, W> AstPrinter<'a, W> where W: Write,
//@   subst "pub fn render_expr" => "pub fn render_expr__g1"
//@   ret r
//@   sig <<<
        requires rpre(*old(self), e_w(*expr, old(self).indent_size as nat)), grp(*expr) == 1,
        ensures rpost(*old(self), *final(self), r),
        decreases expr, 0int
//@   >>>
//@   body_start <<<
        hide(cinv); hide(e_w); hide(v_w); hide(fl_w); hide(st_w);
        proof { lemma_e_parts(*expr, old(self).indent_size as nat); }
//@   >>>
//@   loop 1 iter it <<<
            invariant frame(*old(self), *self), self.curr_indent == old(self).curr_indent + old(self).indent_size,
//@   >>>
//@   loop 2 iter it <<<
            invariant frame(*old(self), *self), self.curr_indent == old(self).curr_indent + old(self).indent_size,
//@   >>>
//@   loop 3 iter it <<<
            invariant frame(*old(self), *self), self.curr_indent == old(self).curr_indent,
//@   >>>
//@   loop 4 iter it <<<
            invariant frame(*old(self), *self), self.curr_indent == old(self).curr_indent + old(self).indent_size,
//@   >>>
//@   loop 5 indexed <<<
            invariant
                frame(*old(self), *self), self.curr_indent == old(self).curr_indent,
                it__5@ == def.arms@, 0 <= i__5 <= it__5@.len(),
            decreases it__5@.len() - i__5
//@   >>>
//@   mutant func_single_param_taken_from_empty_list "if _def.argdefs.len() == 1 {" => "if _def.argdefs.len() <= 1 {" expect render_expr__g1
//@   mutant func_param_index_past_the_end "_def.argdefs.first().unwrap()" => "&_def.argdefs[1]" expect render_expr__g1
//@   mutant grouped_indent_undone_twice "if did_indent { writeln!(self.w)?; }" => "if did_indent { writeln!(self.w)?; self.curr_indent -= self.indent_size; }" expect render_expr__g1
//@   mutant format_list_indent_never_undone "self.curr_indent -= self.indent_size; self.w.write_all(b\")\")?;" => "self.w.write_all(b\")\")?;" expect render_expr__g1
//@ end

//@ extract src/ast/printer/mod.rs :: impl * AstPrinter<'a, W> * :: fn render_expr
//@   rule R0 R1
//@   impl_header #[verifier::loop_isolation(false)] impl<'a, W> AstPrinter<'a, W> where W: Write,
//@   subst "pub fn render_expr" => "pub fn render_expr__g2"
//@   ret r
//@   sig <<<
        requires rpre(*old(self), e_w(*expr, old(self).indent_size as nat)), grp(*expr) == 2,
        ensures rpost(*old(self), *final(self), r),
        decreases expr, 0int
//@   >>>
//@   body_start <<<
        hide(cinv); hide(e_w); hide(v_w); hide(fl_w); hide(st_w);
        proof { lemma_e_parts(*expr, old(self).indent_size as nat); }
//@   >>>
//@   loop 1 iter it <<<
            invariant frame(*old(self), *self), self.curr_indent == old(self).curr_indent + old(self).indent_size,
//@   >>>
//@   loop 2 iter it <<<
            invariant frame(*old(self), *self), self.curr_indent == old(self).curr_indent + old(self).indent_size,
//@   >>>
//@   loop 3 iter it <<<
            invariant frame(*old(self), *self), self.curr_indent == old(self).curr_indent,
//@   >>>
//@   loop 4 iter it <<<
            invariant frame(*old(self), *self), self.curr_indent == old(self).curr_indent + old(self).indent_size,
//@   >>>
//@   loop 5 indexed <<<
            invariant
                frame(*old(self), *self), self.curr_indent == old(self).curr_indent,
                it__5@ == def.arms@, 0 <= i__5 <= it__5@.len(),
            decreases it__5@.len() - i__5
//@   >>>
// the seeded change C04_5: the map arm marks the indentation as raised without raising it
//@   mutant c04_5_map_target_marks_indent_without_raising_it "if !did_indent { self.curr_indent += self.indent_size; } did_indent = true; self.w.write_all(b\"\\n\")?; } else { write!(self.w, \", \")?; } self.render_expr(&_def.target)?; write!(self.w, \")\")?; } }," => "did_indent = true; self.w.write_all(b\"\\n\")?; } else { write!(self.w, \", \")?; } self.render_expr(&_def.target)?; write!(self.w, \")\")?; } }," expect render_expr__g2
//@   mutant filter_raises_indent_twice "FuncOpDef::Filter(_def) => { write!(self.w, \"filter(\")?; if self.has_comment(_def.func.pos().line) { self.curr_indent += self.indent_size;" => "FuncOpDef::Filter(_def) => { write!(self.w, \"filter(\")?; if self.has_comment(_def.func.pos().line) { self.curr_indent += self.indent_size; self.curr_indent += self.indent_size;" expect render_expr__g2
//@ end

//@ extract src/ast/printer/mod.rs :: impl * AstPrinter<'a, W> * :: fn render_expr
//@   rule R0 R1
//@   impl_header #[verifier::loop_isolation(false)] impl<'a, W> AstPrinter<'a, W> where W: Write,
//@   subst "pub fn render_expr" => "pub fn render_expr__g3"
//@   ret r
//@   sig <<<
        requires rpre(*old(self), e_w(*expr, old(self).indent_size as nat)), grp(*expr) == 3,
        ensures rpost(*old(self), *final(self), r),
        decreases expr, 0int
//@   >>>
//@   body_start <<<
        hide(cinv); hide(e_w); hide(v_w); hide(fl_w); hide(st_w);
        proof { lemma_e_parts(*expr, old(self).indent_size as nat); }
//@   >>>
//@   loop 1 iter it <<<
            invariant frame(*old(self), *self), self.curr_indent == old(self).curr_indent + old(self).indent_size,
//@   >>>
//@   loop 2 iter it <<<
            invariant frame(*old(self), *self), self.curr_indent == old(self).curr_indent + old(self).indent_size,
//@   >>>
//@   loop 3 iter it <<<
            invariant frame(*old(self), *self), self.curr_indent == old(self).curr_indent,
//@   >>>
//@   loop 4 iter it <<<
            invariant frame(*old(self), *self), self.curr_indent == old(self).curr_indent + old(self).indent_size,
//@   >>>
//@   loop 5 indexed <<<
            invariant
                frame(*old(self), *self), self.curr_indent == old(self).curr_indent,
                it__5@ == def.arms@, 0 <= i__5 <= it__5@.len(),
            decreases it__5@.len() - i__5
//@   >>>
//@   mutant not_recurses_on_itself "write!(self.w, \"not \")?; self.render_expr(&_def.expr)?;" => "write!(self.w, \"not \")?; self.render_expr(expr)?;" expect render_expr__g3
//@   mutant module_body_indent_never_undone "self.curr_indent -= self.indent_size; write!(self.w, \"}}\")?;" => "write!(self.w, \"}}\")?;" expect render_expr__g3
//@ end


//@ extract src/ast/printer/mod.rs :: impl * AstPrinter<'a, W> * :: fn render_stmt
//@   rule R0
//@   ret r
//@   sig <<<
        requires rpre(*old(self), st_w(*stmt, old(self).indent_size as nat)),
        ensures rpost(*old(self), *final(self), r),
        decreases stmt
//@   >>>
//@ end

//@ extract src/ast/printer/mod.rs :: impl * AstPrinter<'a, W> * :: fn render
//@   rule R0
//@   impl_header #[verifier::loop_isolation(false)] impl<'a, W> AstPrinter<'a, W> where W: Write,
//@   subst "for v in stmts {" => "for v in stmts.iter() {"
//@   ret r
//@   sig <<<
        requires rpre(*old(self), sts_w(stmts@, stmts@.len(), old(self).indent_size as nat)),
        ensures
            rpost(*old(self), *final(self), r),
            // C05 frame: when the whole file has been rendered no comment group is left pending
            r is Ok ==> final(self).comment_group_lines@.len() == 0,
//@   >>>
//@   body_start <<<
        proof { lemma_sts_w(stmts@, stmts@.len(), old(self).indent_size as nat); }
//@   >>>
//@   loop 1 iter it <<<
            invariant
                frame(*old(self), *self),
                self.curr_indent == old(self).curr_indent,
//@   >>>
//@   mutant trailing_comments_never_rendered "if let Some(last_comment_line) = comment_line { self.render_missed_comments(last_comment_line + 1)?; }" => "" expect render
//@   mutant trailing_comments_line_overflows "self.render_missed_comments(last_comment_line + 1)?;" => "self.render_missed_comments(last_comment_line + 2)?;" expect render
//@ end

} // verus!

fn main() {}
