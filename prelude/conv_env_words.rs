// ---- prelude/conv_env_words.rs: unquoted ordinary text in front of a word (inside verus!; needs sh_escape_posix.rs) ----
// A character the shell's tokenizer delivers as itself when it stands unquoted: not a blank/newline, not a quote
// or backslash, and not one of the characters sh_unq_active lists.
pub open spec fn sh_plain(c: char) -> bool {
    !sh_delim(c) && c != '\'' && c != '"' && c != '\\' && !sh_unq_active(c)
}
pub open spec fn sh_all_plain(p: Seq<char>) -> bool { forall|k: int| 0 <= k < p.len() ==> sh_plain(#[trigger] p[k]) }

pub proof fn lemma_plain_prefix(p: Seq<char>, t: Seq<char>)
    requires sh_all_plain(p)
    ensures ({
        let w = sh_word(t); let pw = sh_word(p + t);
        pw.word =~= p + w.word && pw.active == w.active && pw.complete == w.complete && pw.rest == w.rest
    })
    decreases p.len()
{
    if p.len() == 0 {
        assert(p + t =~= t);
    } else {
        let p1 = p.subrange(1, p.len() as int);
        assert forall|k: int| 0 <= k < p1.len() implies sh_plain(#[trigger] p1[k]) by { assert(p1[k] == p[k + 1]); }
        lemma_plain_prefix(p1, t);
        assert(sh_plain(p[0]));
        assert((p + t)[0] == p[0]);
        assert(sh_tail(p + t) =~= p1 + t);
        assert(seq![p[0]] + p1 =~= p);
    }
}


// An unquoted run of ordinary characters followed by a blank/newline (or the end) is read as exactly that word.
// Under the unit's Display assumption (Display of i64/f64/bool yields only [0-9A-Za-z.+-], all ordinary) this is
// the "one unaltered word" statement for the non-string scalars.
pub proof fn lemma_plain_word(p: Seq<char>, following: Seq<char>)
    requires sh_all_plain(p), sh_at_delim(following)
    ensures sh_yields(sh_word(p + following), p, following)
{
    lemma_plain_prefix(p, following);
    assert(sh_word(following) == sh_stop(true, following));
    assert(p + Seq::<char>::empty() =~= p);
}

pub proof fn lemma_bool_words_plain()
    ensures sh_all_plain("true"@), sh_all_plain("false"@)
{
    reveal_strlit("true");
    reveal_strlit("false");
}
