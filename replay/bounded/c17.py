"""C17 bounded stand-ins: the real `ucg build` on generated programs with exactly ONE injected fault.

Every program is generated VALID (3..12 top-level statements over several lines each: lets, tuples, lists, functions and calls, modules
and instantiations, selects, format strings, map / filter / reduce, copies, ranges, asserts, imports of a second file; comment lines, blank
lines, indented statements, tabs, two statements on one line).  The generator knows the source span of every statement it emits: first
character .. terminating `;` (line and column, 1-based, one column per character; all programs are ASCII).  Then one fault is injected and
these builds are compared (each program is its own file, `ucg build <file>`; many files per invocation, see `how` of a report):
   b  the faulty program;
   p  the faulty program with 1..3 unrelated valid statements (1..3 lines each) inserted at statement boundaries before the faulty
      statement (in the faulty file; sometimes also in the other file) and 0..2 after it;
   and, only for a program the oracle objects to (second pass, every build alone in a fresh directory):
   v  the valid twin (slot filled with a valid expression / statement without the mutation): must build, otherwise the program is not
      counted (a tree that refuses the valid program has another problem than C17);
   u  (only faults inside a function / module / callback) the faulty program with the outermost call replaced by a constant.
8 % of the programs are written with \\r\\n line ends; some tuple fields hold a string literal that spans two lines.
Diagnostic = everything printed after `Building <file>`; its positions are all `[file: F ]line: L column: C` occurrences in order; the
PRIMARY position is the first one that is not on a `VIA:` line, all others are SECONDARY.

Oracle, clause by clause from the property statement:
  (1) the primary (L, C) lies inside the span of the statement containing the fault: (start) <= (L, C) <= (position of its `;`), and
      column C exists on line L (C <= length of the line; for a syntax fault +1: the line break inside a multi-line statement); when the diagnostic names
      a file it is the file containing the fault, and a fault in the imported file MUST be reported with that file's name.
      Tolerance (statement ambiguous, HEAD defensible): a MISSING `;` may also be reported at the boundary = first character of the next
      token after the statement (start of the next statement, or the end of input when nothing follows).  No other tolerance.
  (2) fault inside a function body / module body / module out expression / callback evaluated because of a call elsewhere: every statement on
      the call chain (the outermost calling statement and the definitions the call passes through) contains a secondary position (`VIA:`)
      of the same file.  Not demanded when build u still fails: then the fault is found without any call (statically), there is no
      calling statement to list (decided by experiment, not by message wording).
  (3) invariance: every position of p's diagnostic (primary and secondary, in order) = the position of b's diagnostic with the line moved by
      exactly the number of lines inserted before it in its file, the column unchanged.
  (4) a faulty program never builds silently, its diagnostic always has a primary position, with line >= 1 and column >= 1.
Genuine defects of the pinned HEAD inside these families are listed in KNOWN (each switches off one position / one tolerance, see there).
Bounded: exactly the generated programs named in each `bound`; a violation found in a batch is re-run alone (`ucg build <file>`, fresh
directory) and only reported when it shows alone too."""
import concurrent.futures
import os
import random
import re
import shutil
import subprocess
import tempfile

import realcode as R

WORKERS = 8
CHUNK = 24
SLOT = '\x01'                    # where the fault expression (or its valid filler) goes
CALL_L, CALL_R = '\x02', '\x03'  # around the call expression of the outermost calling statement (replaced by a constant in build u)

# ------------------------------------------------------------------------------------------------------------------------ KNOWN
# Behaviour of the real code on the pinned HEAD that breaks a clause of the statement (checked by hand).  Each entry removes ONE carrier /
# mutation from the families (look for known('<id>')); deleting an entry re-arms the strict oracle for it.
KNOWN = [
    dict(id='format-embedded-expression',
         clause='(1) primary line and column inside the statement containing the fault (and (4): here the diagnostic carries no file either)',
         input='a.ucg:\nlet tp = {a = 1};\nlet r = "v=@{item.a + 1} w=@{1 / 0}" % tp;',
         observed='`Division by zero or integer overflow in 1 / 0 at line: 1 column: 5` - no file, and line/column count from the start of the text inside `@{...}`, '
                  'not from the start of the file; the statement is on line 2 (every fault kind behaves so: `@{nope}` -> `line: 1 column: 1`)',
         what='an expression embedded in a format string (`"...@{expr}..." % value`) is parsed as a text of its own; positions of faults inside it are relative to that '
              'text and carry no file name',
         excluded='the nesting position format_embedded of standin_fault_top_level (19 other positions of the family stay)'),
    dict(id='imported-syntax-error',
         clause='(1) primary line and column inside the statement containing the fault; the fault is in the imported file, the position given is in the importing file',
         input='a.ucg:\nlet a = 1;\nlet lib = import "lib.ucg";\nlet c = 3;\nlib.ucg:\nlet q = 1;\nlet r = [1, 2;\nlet s = 1;',
         observed='`Type error: Failed to parse imported file: <dir>/lib.ucg at file: <dir>/a.ucg line: 2 column: 18` - the imported file is named in the message, but no '
                  'line / column inside it is given; the only position is the import expression of a.ucg (`ucg build lib.ucg` itself reports `line: 2 column: 9`)',
         what='the type checker resolves imports first; when the imported file does not parse it reports its own error at the import expression and drops the parse '
              "error's position",
         excluded='syntax mutations of statements of the IMPORTED file in standin_fault_syntax (mutations of the built file stay)'),
    dict(id='typechecker-no-via',
         clause='(2) a fault inside a function body / module out expression reached through a call: the diagnostic also lists the calling statement',
         input='a.ucg:\nlet f1 = func(p) => 1 + "a";\nlet v = f1(9);',
         observed='`Type error: Expected int but got str at file: <dir>/a.ucg line: 1 column: 10` and no VIA line; with `let v = 0;` as second statement the file builds, so '
                  'the fault IS found because of the call (same for `func(p) => tp.nofield`, for a module `=> ("a" + 1) {...}` instantiated elsewhere, for definitions in an imported file)',
         what='the static type checker checks a function body / module out expression when it meets a call; its diagnostic has the position inside the definition only, the run-time '
              'diagnostic of the same fault (e.g. `[p, 1 + "a"]`, which the checker does not see) has the VIA line',
         excluded='clause (2) is not demanded when the first line of the diagnostic starts with `Type error:` (clauses (1), (3), (4) still are)'),
    dict(id='typechecker-operand-origin',
         clause='(1) primary line and column inside the statement containing the fault',
         input='a.ucg:\nlet sv = "zz";\nlet pad = 1;\nlet x = 47 + sv;',
         observed='`Type error: Expected int but got str at file: <dir>/a.ucg line: 1 column: 10` = the literal "zz" of statement 1, which is valid; the mismatch is in statement 3 '
                  '(same for a right operand `tp.s` -> position of the field value in the tuple literal, `f(1)` -> position of the func expression, an imported binding -> position '
                  'in the imported file; `sv + 1`, where the offending operand is a literal, is reported in statement 3)',
         what='the shape the checker infers for a binding keeps the position of the expression it was inferred from; a binary-operator mismatch is reported at the position of the right '
              "operand's SHAPE, i.e. where that value was written, not where it is used",
         excluded='for fault kind type_mismatch, when the first line of the diagnostic starts with `Type error:`, a primary position inside ANOTHER statement of the program is accepted '
                  '(clauses (3), (4) still demanded)'),
]


def known(kid):
    return any(k['id'] == kid for k in KNOWN)


# ------------------------------------------------------------------------------------------------------------------------ helpers a program may need
HELPERS = {
    'zero': ['let zero = 0;'],
    'idf': ['let idf = func(v) => v;', 'let idf = func(v) =>\n    v;'],
    'pair': ['let pair = func(p, q) => [p, q];'],
    'tp': ['let tp = {a = 1, s = "x", inner = {c = 2}};', 'let tp = {\n    a = 1,\n    s = "x",\n    inner = {c = 2},\n};'],
    'ls': ['let ls = [1, 2];', 'let ls = [\n  1,\n  2\n];'],
    'sv': ['let sv = "zz";'],
    'badre': ['let badre = "(a";'],
}
HELPER_WORD = re.compile(r'\b(zero|idf|pair|tp|ls|sv|badre)\b')

KINDS = ['unknown_name', 'type_mismatch', 'missing_field', 'missing_index', 'unhandled_select', 'failed_cast', 'fail', 'bad_regex',
         'missing_include', 'div_zero', 'missing_import']

# fault expressions; `lit` = only literals (usable inside a module body, which does not close over the file), `free` = use helper bindings
FAULTS = {
    'unknown_name': dict(lit=['nope', 'nope.fld', 'nope(1)', '1 + nope', '[nope]', 'q'], free=['idf(nope)']),
    'type_mismatch': dict(lit=['1 + "a"', '"a" + 1', '10 > "9"', '2 * "b"', '.5 + "a"', '"a" + .5', '1.5 * "b"'], free=['1 + idf("a")', 'sv + 1', 'zero + "s"']),
    'missing_field': dict(lit=['{a = 1}.b', '{a = {c = 1}}.a.b'], free=['tp.b', 'idf(tp).nofield', 'tp.inner.nothere']),
    'missing_index': dict(lit=['[1, 2].7'], free=['ls.7', 'idf(ls).2']),
    'unhandled_select': dict(lit=['select ("zz") => {aa = 1, bb = 2}', 'select ("zz") => {\n    aa = 1,\n    bb = 2,\n}', 'select (false) => {true = 1}'],
                             free=['select (sv) => {aa = 1}']),
    'failed_cast': dict(lit=['int("x")', 'int("12ab")', 'float("1.2.3")', 'bool("maybe")', 'float("x")', 'bool("2")'], free=['int(sv)', 'int(idf("q"))', 'bool(sv)', 'float(sv)']),
    'fail': dict(lit=['fail "boom"', 'fail "boom @" % (1)', 'fail "a" + "b"'], free=['fail sv']),
    'bad_regex': dict(lit=['"abc" ~ "("', '"abc" !~ "[a"', '"abc" ~ "*a"'], free=['"abc" ~ badre', 'sv !~ badre']),
    'missing_include': dict(lit=['include str "no_such_file_c17.txt"', 'include str "nodir_c17/none.txt"'], free=[]),
    'div_zero': dict(lit=['1 / 0', '7 %% 0', '5 / (2 - 2)'], free=['1 / zero', '9 %% zero', '4 / idf(0)']),
    'missing_import': dict(lit=['import "no_such_file_c17.ucg"'], free=[]),
}
NO_VIA_KINDS = ('missing_import',)   # resolved before evaluation on every tree we know; the statement does not list it: span only


class Ctx(object):
    """generation context of one program"""

    def __init__(self, rnd):
        self.rnd = rnd
        self.n = 0

    def fresh(self, base='v'):
        self.n += 1
        return '%s%d' % (base, self.n)

    def unit(self):
        return self.rnd.choice(['  ', '    ', '\t', '   '])

    def num(self):
        return str(self.rnd.randint(1, 99))

    def word(self):
        return '"%s"' % self.rnd.choice(['alpha', 'beta', 'gamma', 'delta', 'host', 'db', 'x y', 'k-1'])


def seq(rnd, op, cl, items, unit, base='', multi=None, trailing=True):
    """a bracketed, comma separated sequence on one line or one item per line (`base` = indentation of the line holding the opener)"""
    if multi is None:
        multi = rnd.random() < 0.75
    if not multi or not items:
        return op + ', '.join(items) + cl
    tail = rnd.choice([',', '']) if trailing else ''     # HEAD refuses a trailing comma in a format argument list (reported, not C17)
    inner = base + unit
    return op + '\n' + ',\n'.join(inner + it for it in items) + tail + '\n' + base + cl


def fields(C, n, slot_at=None, slot=SLOT):
    """n tuple fields `name = value`; field slot_at holds the slot"""
    res = []
    for i in range(n):
        nm = C.rnd.choice(['a', 'b', 'c', 'd', 'port', 'host', 'key']) + str(i)
        if i == slot_at:
            val = slot
        else:
            val = C.rnd.choice([C.num(), C.word(), '[%s, %s]' % (C.num(), C.num()), '{z = %s}' % C.num(), '%s + %s' % (C.num(), C.num()), 'true',
                                '"first line\n  second line"'])
        res.append('%s = %s' % (nm, val))
    return res


def elems(C, n, slot_at=None, slot=SLOT):
    res = []
    for i in range(n):
        res.append(slot if i == slot_at else C.rnd.choice([C.num(), '%s * %s' % (C.num(), C.num()), '(%s + %s)' % (C.num(), C.num())]))
    return res


# ------------------------------------------------------------------------------------------------------------------------ valid filler statements
def filler_group(C, lib=None):
    """-> (list of statement texts forming one valid group, helper names it needs)"""
    rnd, u = C.rnd, C.unit()
    k = rnd.randrange(16 if lib else 15)
    v = C.fresh()
    if k == 0:
        return ['let %s = %s;' % (v, C.num())]
    if k == 1:
        return ['let %s = %s +\n%s%s;' % (v, C.num(), u, C.num())]
    if k == 2:
        return ['let %s = %s;' % (v, seq(rnd, '{', '}', fields(C, rnd.randint(1, 4)), u))]
    if k == 3:
        return ['let %s = %s;' % (v, seq(rnd, '[', ']', elems(C, rnd.randint(1, 4)), u))]
    if k == 4:
        f = C.fresh('f')
        body = rnd.choice(['p + q', '[p, q]', '{first = p, second = q}', 'p * 2 + q'])
        return ['let %s = func(p, q) =>%s%s;' % (f, rnd.choice([' ', '\n' + u]), body), 'let %s = %s(%s, %s);' % (v, f, C.num(), C.num())]
    if k == 5:
        m = C.fresh('m')
        out = rnd.choice(['', '(y) ', '(y + 1) '])
        return ['let %s = module {x = %s} => %s{\n%slet y = mod.x + 1;\n%slet w = [y, mod.x];\n};' % (m, C.num(), out, u, u),
                'let %s = %s{x = %s};' % (v, m, C.num())]
    if k == 6:
        key = rnd.choice(['aa', 'bb', 'cc'])
        return ['let %s = select ("%s", %s) => %s;' % (v, key, C.num(), seq(rnd, '{', '}', ['aa = %s' % C.num(), 'bb = %s' % C.num()], u))]
    if k == 7:
        return ['let %s = "h=@ p=@" %% %s;' % (v, seq(rnd, '(', ')', [C.word(), C.num()], u, multi=rnd.random() < 0.4, trailing=False))]
    if k == 8:
        f = C.fresh('f')
        which = rnd.randrange(3)
        if which == 0:
            return ['let %s = func(e) => e + 1;' % f, 'let %s = map(%s, %s);' % (v, f, seq(rnd, '[', ']', elems(C, 3), u, multi=rnd.random() < 0.5))]
        if which == 1:
            return ['let %s = func(e) => e > 10;' % f, 'let %s = filter(%s, [%s, %s, %s]);' % (v, f, C.num(), C.num(), C.num())]
        return ['let %s = func(acc, e) =>\n%sacc + e;' % (f, u), 'let %s = reduce(%s, 0,\n%s[%s, %s]);' % (v, f, u, C.num(), C.num())]
    if k == 9:
        return ['%s + %s;' % (C.num(), C.num())]
    if k == 10:
        return ['assert %s;' % seq(rnd, '{', '}', ['ok = %s == %s' % (C.num(), C.num()), 'desc = "checked"'], u)]
    if k == 11:
        return ['let %s = %s:%s;' % (v, C.num(), '1' + C.num())]
    if k == 12:
        return ['let %s = "a" + "b" +\n%s%s;' % (v, u, C.word())]
    if k == 13:
        t = C.fresh('t')
        return ['let %s = %s;' % (t, seq(rnd, '{', '}', ['n = %s' % C.num(), 'w = %s' % C.word()], u)), 'let %s = %s{n = %s};' % (v, t, C.num())]
    if k == 14:
        return ['let %s = (%s in [1, 2, 3]) && (%s is "str");' % (v, C.num(), C.word())]
    # import of the second file and use of what it exports
    g = C.fresh('g')
    return ['let %s = import "%s";' % (v, lib), 'let %s = %s.libfn;' % (g, v), 'let %s = %s(%s) + %s.libval;' % (C.fresh(), g, C.num(), v)]


LIB_EXPORTS = ['let libval = 41;', 'let libfn = func(n) =>\n    n + 1;']


# ------------------------------------------------------------------------------------------------------------------------ carriers
class Carrier(object):
    """stmts: statement texts (one contains SLOT); fault: index of the statement that contains the fault; callers: indices of the statements on the
    call chain; scope: 'free' | 'lit'; pairs: None (generic fault table) or [(kind, filler, fault expression)]; lib_stmts: statements of the imported file
    (then `fault`/`callers` entries are ('lib', i) or ('main', i))"""

    def __init__(self, name, stmts, fault=0, callers=(), scope='free', pairs=None, kinds=None, lib_stmts=None, fault_in_lib=False, known_id=None):
        self.name, self.stmts, self.fault, self.callers, self.scope = name, stmts, fault, list(callers), scope
        self.pairs, self.kinds, self.lib_stmts, self.fault_in_lib, self.known_id = pairs, kinds, lib_stmts, fault_in_lib, known_id


def top_carriers():
    """name -> function(C) -> Carrier: the slot is evaluated when its own statement is evaluated"""
    T = {}

    def add(fn):
        T[fn.__name__] = fn
        return fn

    @add
    def let_value(C):
        return Carrier('let_value', ['let %s = %s;' % (C.fresh(), SLOT)])

    @add
    def let_value_next_line(C):
        return Carrier('let_value_next_line', ['let %s =\n%s%s;' % (C.fresh(), C.unit(), SLOT)])

    @add
    def tuple_field(C):
        n = C.rnd.randint(2, 5)
        return Carrier('tuple_field', ['let %s = %s;' % (C.fresh(), seq(C.rnd, '{', '}', fields(C, n, C.rnd.randrange(n)), C.unit(), multi=C.rnd.random() < 0.85))])

    @add
    def list_element(C):
        n = C.rnd.randint(2, 5)
        return Carrier('list_element', ['let %s = %s;' % (C.fresh(), seq(C.rnd, '[', ']', elems(C, n, C.rnd.randrange(n)), C.unit(), multi=C.rnd.random() < 0.85))])

    @add
    def nested_tuple_list(C):
        u = C.unit()
        inner = seq(C.rnd, '{', '}', fields(C, 2, C.rnd.randrange(2)), u, base=u + u)
        lst = seq(C.rnd, '[', ']', [C.num(), inner], u, base=u, multi=True)
        return Carrier('nested_tuple_list', ['let %s = {\n%sfirst = %s,\n%sitems = %s,\n};' % (C.fresh(), u, C.word(), u, lst)])

    @add
    def call_argument(C):
        u = C.unit()
        form = C.rnd.choice(['idf(%s)' % SLOT, 'idf(\n%s%s\n)' % (u, SLOT), 'pair(%s,\n%s%s)' % (C.num(), u, SLOT), 'pair(%s, %s)' % (SLOT, C.num())])
        return Carrier('call_argument', ['let %s = %s;' % (C.fresh(), form)])

    @add
    def select_arm(C):
        u = C.unit()
        arms = ['aa = %s' % C.num(), 'bb = %s' % SLOT, 'cc = %s' % C.word()]
        C.rnd.shuffle(arms)
        return Carrier('select_arm', ['let %s = select ("bb", %s) => %s;' % (C.fresh(), C.num(), seq(C.rnd, '{', '}', arms, u, multi=C.rnd.random() < 0.85))])

    @add
    def select_default(C):
        u = C.unit()
        return Carrier('select_default', ['let %s = select ("zz", %s) => %s;' % (C.fresh(), SLOT, seq(C.rnd, '{', '}', ['aa = %s' % C.num(), 'bb = %s' % C.num()], u))])

    @add
    def copy_field(C):
        u = C.unit()
        return Carrier('copy_field', ['let %s = tp%s;' % (C.fresh(), seq(C.rnd, '{', '}', ['s = "y"', 'a = %s' % SLOT, 'extra = %s' % C.num()], u))])

    @add
    def format_argument(C):
        u = C.unit()
        return Carrier('format_argument', ['let %s = "x=@ y=@" %% %s;' % (C.fresh(), seq(C.rnd, '(', ')', [C.num(), SLOT], u, trailing=False))])

    @add
    def binary_operand(C):
        u = C.unit()
        form = C.rnd.choice(['%s +\n%s%%s' % (C.num(), u), '(%%s) * %s' % C.num(), '%s - (%%s)' % C.num(), '(%%s) == %s' % C.num()])
        return Carrier('binary_operand', ['let %s = %s;' % (C.fresh(), form % ('(' + SLOT + ')'))])

    @add
    def module_parameter(C):
        u, m = C.unit(), C.fresh('m')
        return Carrier('module_parameter', ['let %s = module {x = 1} => {\n%slet y = mod.x;\n};' % (m, u),
                                            'let %s = %s%s;' % (C.fresh(), m, seq(C.rnd, '{', '}', ['x = %s' % SLOT], u))], fault=1)

    @add
    def expression_statement(C):
        return Carrier('expression_statement', [C.rnd.choice(['%s;' % SLOT, '[%s, %s];' % (C.num(), SLOT), '{\n%sq = %s,\n};' % (C.unit(), SLOT)])])

    @add
    def constrained_let(C):
        return Carrier('constrained_let', ['let %s :: 0 =\n%s%s;' % (C.fresh(), C.unit(), SLOT)])

    @add
    def convert_expression(C):
        u = C.unit()
        return Carrier('convert_expression', ['let %s = convert json %s;' % (C.fresh(), seq(C.rnd, '{', '}', ['k = %s' % C.word(), 'v = %s' % SLOT], u))])

    @add
    def out_statement(C):
        u = C.unit()
        return Carrier('out_statement', ['out json %s;' % seq(C.rnd, '{', '}', ['k = %s' % C.word(), 'v = %s' % SLOT], u)])

    @add
    def operator_forms(C):
        form = C.rnd.choice(['not ((%s) == 1)', '1 in [%s]', '0:(%s)', '(%s) is "int"', 'true && ((%s) == 1)', '(%s) in [1, 2]'])
        return Carrier('operator_forms', ['let %s = %s;' % (C.fresh(), form % SLOT)])

    @add
    def range_and_concat(C):
        u = C.unit()
        return Carrier('range_and_concat', ['let %s = [%s] +\n%s[%s,\n%s%s%s];' % (C.fresh(), C.num(), u, C.num(), u, u, SLOT)])

    @add
    def tab_line_end(C):
        # the fault expression is the LAST thing on a line that starts with tabs (no comma, no bracket after it)
        form = C.rnd.choice(['[\n\t%s,\n\t%s\n]' % (C.num(), SLOT), '{\n\t\ta = %s,\n\t\tb =\t%s\n\t}' % (C.num(), SLOT), '%s +\n\t%s\n' % (C.num(), SLOT),
                             'idf(\n\t\t%s\n\t)' % SLOT])
        return Carrier('tab_line_end', ['let %s = %s;' % (C.fresh(), form)])

    @add
    def copy_with_self(C):
        u = C.unit()
        return Carrier('copy_with_self', ['let %s = tp%s;' % (C.fresh(), seq(C.rnd, '{', '}', ['a = self.a +\n%s%s(%s)' % (u, u, SLOT), 'more = self.s'], u))])

    @add
    def nested_call_argument(C):
        u = C.unit()
        return Carrier('nested_call_argument', ['let %s = pair(idf(%s),\n%sidf(\n%s%s%s));' % (C.fresh(), C.num(), u, u, u, SLOT)])

    @add
    def deep_tuple(C):
        u = C.unit()
        return Carrier('deep_tuple', ['let %s = {\n%souter = {\n%s%smiddle = {\n%s%s%sleaf = %s,\n%s%s},\n%s%sside = [%s],\n%s},\n};' % (
            C.fresh(), u, u, u, u, u, u, SLOT, u, u, u, u, C.num(), u)])

    @add
    def module_default_parameter(C):
        u = C.unit()
        return Carrier('module_default_parameter', ['let %s = module {\n%sx = %s,\n%sy = %s,\n} => {\n%slet z = mod.y;\n};' % (C.fresh('m'), u, C.num(), u, SLOT, u)])

    @add
    def format_embedded(C):
        u = C.unit()
        form = C.rnd.choice(['"a=@{item.a} v=@{%s}" %% tp' % SLOT, '"v=@{%s}" %%\n%stp' % (SLOT, u)])
        return Carrier('format_embedded', ['let %s = %s;' % (C.fresh(), form)], known_id='format-embedded-expression')

    return T


def flow_carriers():
    """the failing operation is in ONE statement, the value that makes it fail is produced elsewhere (module out expression, function result, tuple
    field, list element, imported binding); each carrier fixes its (kind, valid value, failing value) pairs"""
    F = {}
    OPS = [('div_zero', '10 / %s', '2', '0'), ('div_zero', '10 %%%% %s', '3', '0'), ('type_mismatch', '1 + %s', '2', '"a"'), ('failed_cast', 'int(%s)', '"5"', '"x"'),
           ('unhandled_select', 'select (%s) => {aa = 1, bb = 2}', '"aa"', '"zz"'), ('bad_regex', '"abc" ~ %s', '"a"', '"("'),
           ('missing_index', '[1, 2].(%s)', '1', '7')]
    SAME_TYPE = [o for o in OPS if o[0] != 'type_mismatch' and o[0] != 'missing_index']
    DATA = [o for o in OPS if o[0] != 'missing_index'] + [('type_mismatch', '"s" + %s', '"t"', '3'), ('type_mismatch', '%s + 1', '2', '"a"')]

    def add(fn):
        F[fn.__name__] = fn
        return fn

    def wrap(C, expr):
        u = C.unit()
        return C.rnd.choice(['let %s = %s;', 'let %s =\n' + u + '%s;', 'let %s = {\n' + u + 'a = 1,\n' + u + 'r = %s,\n};', 'let %s = [1,\n' + u + '%s];']) % (C.fresh(), expr)

    @add
    def via_module_out(C):
        u, m = C.unit(), C.fresh('m')
        kind, op, ok, bad = C.rnd.choice(SAME_TYPE)
        dflt = ok
        return Carrier('via_module_out', ['let %s = module {x = %s} => (y) {\n%slet y = mod.x;\n};' % (m, dflt, u), wrap(C, op % ('%s{x = %s}' % (m, SLOT)))],
                       fault=1, pairs=[(kind, ok, bad)])

    @add
    def via_module_field(C):
        u, m = C.unit(), C.fresh('m')
        kind, op, ok, bad = C.rnd.choice(SAME_TYPE)
        i = C.fresh('i')
        return Carrier('via_module_field', ['let %s = module {x = %s} => {\n%slet y = mod.x;\n};' % (m, ok, u), 'let %s = %s{x = %s};' % (i, m, SLOT), wrap(C, op % (i + '.y'))],
                       fault=2, pairs=[(kind, ok, bad)])

    @add
    def via_function_result(C):
        kind, op, ok, bad = C.rnd.choice([o for o in OPS if o[0] != 'missing_index'])
        return Carrier('via_function_result', [wrap(C, op % ('idf(%s)' % SLOT))], fault=0, pairs=[(kind, ok, bad)])

    @add
    def via_binding(C):
        kind, op, ok, bad = C.rnd.choice(DATA)
        t = C.fresh('t')
        return Carrier('via_binding', ['let %s = %s;' % (t, SLOT), wrap(C, op % t)], fault=1, pairs=[(kind, ok, bad)])

    @add
    def via_constant_function(C):
        kind, op, ok, bad = C.rnd.choice(DATA)
        f = C.fresh('f')
        return Carrier('via_constant_function', ['let %s = func(a) =>\n%s%s;' % (f, C.unit(), SLOT), wrap(C, op % ('%s(%s)' % (f, C.num())))], fault=1, pairs=[(kind, ok, bad)])

    @add
    def via_tuple_field(C):
        kind, op, ok, bad = C.rnd.choice(DATA)
        t = C.fresh('t')
        return Carrier('via_tuple_field', ['let %s = {\n%sd = %s,\n};' % (t, C.unit(), SLOT), wrap(C, op % (t + '.d'))], fault=1, pairs=[(kind, ok, bad)])

    @add
    def via_list_element(C):
        kind, op, ok, bad = C.rnd.choice(DATA)
        t = C.fresh('t')
        return Carrier('via_list_element', ['let %s = [%s, %s];' % (t, ok, SLOT), wrap(C, op % (t + '.1'))], fault=1, pairs=[(kind, ok, bad)])

    @add
    def via_import(C):
        kind, op, ok, bad = C.rnd.choice(DATA)
        l = C.fresh('l')
        return Carrier('via_import', ['let %s = import "@LIB@";' % l, wrap(C, op % (l + '.shared'))], fault=1, pairs=[(kind, ok, bad)],
                       lib_stmts=['let shared = %s;' % SLOT])

    return F


BODY_FORMS = ['%s', '[p,\n@U@%s]', '{\n@U@k = p,\n@U@v = %s,\n}', 'select ("aa", 0) => {\n@U@aa = %s,\n@U@bb = p,\n}', 'idf(%s)', 'pair(p,\n@U@%s)']


def body_form(C, scope='free'):
    forms = BODY_FORMS if scope == 'free' else BODY_FORMS[:4]
    return C.rnd.choice(forms).replace('@U@', C.unit() * 2) % SLOT


def caller_stmt(C, call):
    """a top-level statement whose evaluation performs `call` (marked for build u)"""
    u = C.unit()
    c = CALL_L + call + CALL_R
    form = C.rnd.choice(['let %s = %s;', 'let %s =\n' + u + '%s;', 'let %s = {\n' + u + 'a = 1,\n' + u + 'r = %s,\n};', 'let %s = [1,\n' + u + '%s\n];',
                         'let %s = idf(%s);', 'let %s = select ("aa", 0) => {\n' + u + 'aa = %s,\n};'])
    return form % (C.fresh(), c)


def called_carriers():
    """the slot is inside a definition; it is evaluated because ANOTHER statement calls / instantiates / maps the definition"""
    K = {}

    def add(fn):
        K[fn.__name__] = fn
        return fn

    @add
    def function_body(C):
        f, u = C.fresh('f'), C.unit()
        return Carrier('function_body', ['let %s = func(p) =>%s%s;' % (f, C.rnd.choice([' ', '\n' + u]), body_form(C)), caller_stmt(C, '%s(%s)' % (f, C.num()))], 0, [1])

    @add
    def function_chain(C):
        f, g, u = C.fresh('f'), C.fresh('g'), C.unit()
        return Carrier('function_chain', ['let %s = func(p) => %s;' % (f, body_form(C)), 'let %s = func(b) =>\n%s[b,\n%s%s(b)];' % (g, u, u, f),
                                          caller_stmt(C, '%s(%s)' % (g, C.num()))], 0, [1, 2])

    @add
    def closure_result(C):
        mk, h = C.fresh('mk'), C.fresh('h')
        return Carrier('closure_result', ['let %s = func(d) => func(p) =>\n%s%s;' % (mk, C.unit(), body_form(C)), 'let %s = %s(%s);' % (h, mk, C.num()),
                                          caller_stmt(C, '%s(%s)' % (h, C.num()))], 0, [2])

    @add
    def module_body(C):
        m, u = C.fresh('m'), C.unit()
        body = ['let y = mod.x + 1;', 'let z = %s;' % re.sub(r'\bp\b', 'mod.x', body_form(C, 'lit')), 'let w = [mod.x];']
        keep = body[:1] * C.rnd.randint(0, 1) + body[1:2] + body[2:] * C.rnd.randint(0, 1)
        out = C.rnd.choice(['', '(z) '])
        return Carrier('module_body', ['let %s = module {x = %s} => %s{\n%s};' % (m, C.num(), out, ''.join(u + s.replace('\n', '\n' + u) + '\n' for s in keep)),
                                       caller_stmt(C, '%s{x = %s}' % (m, C.num()))], 0, [1], scope='lit')

    @add
    def module_out_expression(C):
        m, u = C.fresh('m'), C.unit()
        return Carrier('module_out_expression', ['let %s = module {x = %s} => (%s) {\n%slet y = mod.x;\n};' % (m, C.num(), re.sub(r'\bp\b', 'mod.x', body_form(C, 'lit')), u),
                                                 caller_stmt(C, '%s{x = %s}' % (m, C.num()))], 0, [1], scope='lit')

    @add
    def nested_module(C):
        m, u = C.fresh('m'), C.unit()
        return Carrier('nested_module', ['let %s = module {x = 1} => {\n%slet inner = module {y = 1} => {\n%s%slet z = %s;\n%s};\n%slet r = inner{y = mod.x};\n};' % (
            m, u, u, u, SLOT, u, u), caller_stmt(C, '%s{x = %s}' % (m, C.num()))], 0, [1], scope='lit')

    @add
    def function_inside_module(C):
        m, u = C.fresh('m'), C.unit()
        return Carrier('function_inside_module', ['let %s = module {x = 1} => {\n%slet h = func(p) =>\n%s%s%s;\n%slet r = h(mod.x);\n};' % (m, u, u, u, SLOT, u),
                                                  caller_stmt(C, '%s{x = %s}' % (m, C.num()))], 0, [1], scope='lit')

    @add
    def function_instantiating_module(C):
        m, f, u = C.fresh('m'), C.fresh('f'), C.unit()
        return Carrier('function_instantiating_module', ['let %s = module {x = 1} => {\n%slet z = %s;\n};' % (m, u, SLOT), 'let %s = func(p) => %s{x = p};' % (f, m),
                                                         caller_stmt(C, '%s(%s)' % (f, C.num()))], 0, [1, 2], scope='lit')

    @add
    def callback_inside_module(C):
        m, u = C.fresh('m'), C.unit()
        return Carrier('callback_inside_module', ['let %s = module {x = 1} => {\n%slet h = func(e) => [e,\n%s%s%s];\n%slet r = map(h, [mod.x, 2]);\n};' % (m, u, u, u, SLOT, u),
                                                  caller_stmt(C, '%s{x = %s}' % (m, C.num()))], 0, [1], scope='lit')

    @add
    def function_called_twice_removed(C):
        f, g, h, u = C.fresh('f'), C.fresh('g'), C.fresh('h'), C.unit()
        return Carrier('function_called_twice_removed', ['let %s = func(p) =>\n%s%s;' % (f, u, body_form(C)), 'let %s = func(b) => {\n%sr = %s(b),\n};' % (g, u, f),
                                                         'let %s = func(c) => %s(c);' % (h, g), caller_stmt(C, '%s(%s)' % (h, C.num()))], 0, [1, 2, 3])

    @add
    def map_callback(C):
        f, u = C.fresh('f'), C.unit()
        return Carrier('map_callback', ['let %s = func(p) => %s;' % (f, body_form(C)),
                                        caller_stmt(C, 'map(%s, %s)' % (f, seq(C.rnd, '[', ']', [C.num(), C.num()], u, base=u, multi=C.rnd.random() < 0.4)))], 0, [1])

    @add
    def filter_callback(C):
        f, u = C.fresh('f'), C.unit()
        return Carrier('filter_callback', ['let %s = func(p) =>\n%s%s;' % (f, u, body_form(C)), caller_stmt(C, 'filter(%s,\n%s[%s, %s])' % (f, u + u, C.num(), C.num()))], 0, [1])

    @add
    def reduce_callback(C):
        f, u = C.fresh('f'), C.unit()
        body = re.sub(r'\bp\b', 'e', body_form(C))
        return Carrier('reduce_callback', ['let %s = func(acc, e) => %s;' % (f, body), caller_stmt(C, 'reduce(%s, 0, [%s, %s])' % (f, C.num(), C.num()))], 0, [1])

    return K


def lib_carriers():
    """the fault is in the IMPORTED file"""
    L = {}
    tops = top_carriers()
    called = called_carriers()

    def add(fn):
        L[fn.__name__] = fn
        return fn

    @add
    def lib_top_level(C):
        name = C.rnd.choice(['let_value', 'tuple_field', 'list_element', 'call_argument', 'select_arm', 'nested_tuple_list', 'format_argument', 'binary_operand'])
        c = tops[name](C)
        l = C.fresh('l')
        return Carrier('lib_top_level:' + name, ['let %s = import "@LIB@";' % l, 'let %s = %s.libval;' % (C.fresh(), l)], fault=('lib', c.fault), callers=[],
                       lib_stmts=c.stmts, fault_in_lib=True)

    def called_from_main(C, name, exported):
        c = called[name](C)
        # the definition(s) live in the imported file, the outermost caller in the main file
        defs, caller = c.stmts[:-1], c.stmts[-1]
        m = re.search(CALL_L + r'(\w+)', caller)
        target = m.group(1)
        l, g = C.fresh('l'), C.fresh('g')
        if target in ('map', 'filter', 'reduce'):
            m2 = re.search(CALL_L + r'\w+\((\w+)', caller)
            target = m2.group(1)
        caller = re.sub(r'\b%s\b' % target, g, caller)
        main = ['let %s = import "@LIB@";' % l, 'let %s = %s.%s;' % (g, l, target), caller]
        callers = [('lib', i) for i in c.callers[:-1]] + [('main', 2)]
        return Carrier('lib_%s' % name, main, fault=('lib', c.fault), callers=callers, scope=c.scope, lib_stmts=defs, fault_in_lib=True)

    for nm in ['function_body', 'function_chain', 'module_body', 'module_out_expression', 'map_callback', 'reduce_callback', 'function_instantiating_module']:
        def mk(nm=nm):
            def fn(C):
                return called_from_main(C, nm, None)
            fn.__name__ = 'lib_' + nm
            return fn
        add(mk())
    return L


# ------------------------------------------------------------------------------------------------------------------------ programs
class Piece(object):
    def __init__(self, pid, text, indent='', sameline=False, trail='', trivia=False):
        self.id, self.text, self.indent, self.sameline, self.trail, self.trivia = pid, text, indent, sameline, trail, trivia


class Prog(object):
    """files: {'main': [Piece], 'lib': [Piece]}; fault = (file, piece id); callers = [(file, piece id)]"""

    def __init__(self):
        self.files = {'main': []}
        self.fault = None
        self.callers = []
        self.fill = self.bad = None
        self.kind = self.carrier = None
        self.check_via = True
        self.boundary_ok = False
        self.pads = {}
        self.override = None      # {(file, piece id): text} of the faulty builds (syntax faults)
        self.crlf = False         # the files are written with \\r\\n line ends (spans are the same: \\r is the last character of its line)
        self.desc = ''


def layout(C, texts, ids, plain=False):
    """statement texts -> pieces with comment lines, blank lines, indentation, statements sharing a line"""
    rnd = C.rnd
    pieces = []
    for i, (t, pid) in enumerate(zip(texts, ids)):
        if not plain and rnd.random() < 0.12:
            pieces.append(Piece(('c', len(pieces)), rnd.choice(['// a comment line', '', '// let ghost = nope;', '  // indented comment']), trivia=True))
        same = (not plain) and i > 0 and rnd.random() < 0.12 and '\n' not in texts[i - 1]
        indent = '' if plain or same or rnd.random() > 0.15 else C.unit()
        pieces.append(Piece(pid, t, indent=indent, sameline=same))
    for i, p in enumerate(pieces):
        nxt = pieces[i + 1] if i + 1 < len(pieces) else None
        if not plain and not p.trivia and (nxt is None or not nxt.sameline) and rnd.random() < 0.1:
            p.trail = ' // trailing note'
    return pieces


def render(pieces, textof, pads=None):
    """-> (text, {piece id: (sl, sc, el, ec)}, [(piece id, sl, el)] in order, eof position).  pads: {boundary index: [Piece]}"""
    out = ''
    spans, order = {}, []
    seq_ = []
    for i, p in enumerate(pieces):
        for q in (pads or {}).get(i, []):
            seq_.append(q)
        seq_.append(p)
    for q in (pads or {}).get(len(pieces), []):
        seq_.append(q)
    for p in seq_:
        if p.trivia:
            if out and not out.endswith('\n'):
                out += '\n'
            sl = out.count('\n') + 1
            out += p.text + '\n'
            order.append((p.id, sl, sl))
            continue
        if out and not out.endswith('\n'):
            out += ' ' if p.sameline else '\n'
        out += p.indent
        sl, sc = out.count('\n') + 1, len(out) - (out.rfind('\n') + 1) + 1
        out += textof(p)
        el, ec = out.count('\n') + 1, len(out) - (out.rfind('\n') + 1)
        spans[p.id] = (sl, sc, el, ec)
        order.append((p.id, sl, el))
        out += p.trail
    if not out.endswith('\n'):
        out += '\n'
    return out, spans, order, (out.count('\n') + 1, 1)


def substituter(slot_text, uncalled=False):
    def f(t):
        t = t.replace(SLOT, slot_text)
        if uncalled:
            t = re.sub(CALL_L + '[^' + CALL_R + ']*' + CALL_R, '0', t)
        return t.replace(CALL_L, '').replace(CALL_R, '')
    return f


def assemble(C, carrier, kind, fill, bad, n_total, plain=False):
    """Lay a carrier out among helper and filler statements -> Prog (None when it does not fit 3..12 statements)."""
    rnd = C.rnd
    prog = Prog()
    prog.kind, prog.carrier, prog.fill, prog.bad = kind, carrier.name, fill, bad
    has_lib = carrier.lib_stmts is not None

    def helpers_for(texts, extra):
        need = []
        for t in texts + [extra]:
            for w in HELPER_WORD.findall(t):
                if w not in need:
                    need.append(w)
        return need

    def build_file(role, stmts, n_goal, extra_expr, lib_for_fillers):
        groups = []
        while sum(len(g) for g in groups) + len(stmts) < n_goal:
            groups.append(filler_group(C, lib_for_fillers))
        need = helpers_for(stmts + [s for g in groups for s in g], extra_expr)
        rnd.shuffle(need)
        helper_texts = [rnd.choice(HELPERS[h]) for h in need]
        # random interleaving that keeps every group's internal order; helpers first
        tagged = [[('s', i, t) for i, t in enumerate(stmts)]] + [[('f', None, t) for t in g] for g in groups]
        merged = []
        while any(tagged):
            g = rnd.choice([x for x in tagged if x])
            merged.append(g.pop(0))
        texts = helper_texts + [t for (_, _, t) in merged]
        ids = [('h', i) for i in range(len(helper_texts))] + [((role, i) if tag == 's' else ('f', j)) for j, (tag, i, t) in enumerate(merged)]
        return layout(C, texts, ids, plain)

    main_extra = '' if carrier.fault_in_lib else bad + ' ' + fill
    lib_extra = bad + ' ' + fill if carrier.fault_in_lib else ''
    n_main = max(n_total, len(carrier.stmts))
    main_stmts = list(carrier.stmts)
    plain_lib = not has_lib and rnd.random() < 0.3
    if plain_lib:      # valid programs also import a second, valid file
        l, g = C.fresh('l'), C.fresh('g')
        extra = ['let %s = import "@LIB@";' % l, 'let %s = %s.libfn;' % (g, l), 'let %s = %s(%s) + %s.libval;' % (C.fresh(), g, C.num(), l)]
        if len(main_stmts) + len(extra) <= 12:
            prog.files['main'] = build_file('main', main_stmts, max(n_main - 3, len(main_stmts)), main_extra, None)
            tail = layout(C, extra, [('x', i) for i in range(3)], plain)
            at = rnd.randint(0, len(prog.files['main']))
            while at < len(prog.files['main']) and prog.files['main'][at].sameline:
                at += 1
            # the import group goes in as one block (keeps its order), at a random statement boundary after the helpers
            at = max(at, max([i + 1 for i, p in enumerate(prog.files['main']) if p.id[0] == 'h'] or [0]))
            while at < len(prog.files['main']) and prog.files['main'][at].sameline:
                at += 1
            tail[0].sameline = False
            prog.files['main'][at:at] = tail
            prog.files['lib'] = build_file('lib', list(LIB_EXPORTS), rnd.randint(2, 4), '', None)
        else:
            plain_lib = False
    if not plain_lib:
        prog.files['main'] = build_file('main', main_stmts, n_main, main_extra, None)
    if has_lib:
        libst = list(carrier.lib_stmts)
        if not carrier.fault_in_lib:
            libst = libst + LIB_EXPORTS
        else:
            libst = LIB_EXPORTS[:1] + libst
        prog.files['lib'] = build_file('lib', libst, rnd.randint(len(libst), len(libst) + 3), lib_extra, None)
    nst = sum(1 for p in prog.files['main'] if not p.trivia)
    if nst < 3 or nst > 12:
        return None

    def ref(x):
        if isinstance(x, tuple):
            f, i = x
            if f == 'lib' and carrier.fault_in_lib:
                i += 1
            return (f, (f, i))
        return ('main', ('main', x))
    prog.fault = ref(carrier.fault)
    prog.callers = [ref(c) for c in carrier.callers]
    prog.check_via = kind not in NO_VIA_KINDS
    prog.crlf = rnd.random() < 0.08 and not any('"first line' in p.text for ps in prog.files.values() for p in ps)
    return prog


def pad_statement(C, n, quotes=True):
    u = C.unit()
    v = 'pad%d' % n
    if not quotes:
        return C.rnd.choice(['let %s = %s;' % (v, C.num()), 'let %s = [%s,\n%s%s];' % (v, C.num(), u, C.num()), 'let %s = func(z) => z;' % v, '%s + %s;' % (C.num(), C.num())])
    return C.rnd.choice(['let %s = %s;' % (v, C.num()), 'let %s = [%s,\n%s%s];' % (v, C.num(), u, C.num()), 'let %s = {\n%sa = %s,\n};' % (v, u, C.word()),
                         'let %s = func(z) => z;' % v, '%s + %s;' % (C.num(), C.num()), 'let %s = "p@" %% (%s);' % (v, C.num())])


def choose_pads(C, prog):
    """{file: {boundary: [Piece]}}: 1..3 statements before the faulty statement of its file, 0..2 after; sometimes also in the other file"""
    rnd = C.rnd
    pads = {}
    n = [0]

    def mk():
        n[0] += 1
        return Piece(('pad', n[0]), pad_statement(C, n[0], quotes=prog.kind != 'unterminated_string'))

    def plan(fname, upto_id, before, after):
        pieces = prog.files[fname]
        idx = [i for i, p in enumerate(pieces) if p.id == upto_id][0] if upto_id is not None else len(pieces) - 1
        # a boundary i (insert before piece i) never splits a line shared by two statements
        while idx > 0 and pieces[idx].sameline:
            idx -= 1
        ok_before = [i for i in range(0, idx + 1) if not pieces[i].sameline]
        ok_after = [i for i in range(idx + 1, len(pieces) + 1) if i == len(pieces) or not pieces[i].sameline]
        if prog.override is not None and upto_id is not None:
            # a syntax fault may make the parser run into the token after the statement: that token stays what it is (a statement put directly
            # after the faulty one would not be unrelated to the fault)
            fpos = [i for i, p in enumerate(pieces) if p.id == upto_id][0]
            ok_after = [i for i in ok_after if i > fpos + 1 and any(not q.trivia for q in pieces[fpos + 1:i])]
        d = pads.setdefault(fname, {})
        for _ in range(before):
            d.setdefault(rnd.choice(ok_before), []).append(mk())
        for _ in range(after):
            if ok_after:
                d.setdefault(rnd.choice(ok_after), []).append(mk())

    ffile, fid = prog.fault
    plan(ffile, fid, rnd.randint(1, 3), rnd.randint(0, 2))
    for other in prog.files:
        if other != ffile and rnd.random() < 0.6:
            plan(other, None, rnd.randint(1, 2), 0)
    return pads


# ------------------------------------------------------------------------------------------------------------------------ running
POS = re.compile(r'(?:file: (\S+) )?line: (\d+) column: (\d+)')


def parse_diag(lines):
    """-> (primary | None, [secondary]); a position is (file basename | None, line, column)"""
    prim, others = None, []
    for ln in lines:
        via = ln.lstrip().startswith('VIA')
        for m in POS.finditer(ln):
            p = (os.path.basename(m.group(1)) if m.group(1) else None, int(m.group(2)), int(m.group(3)))
            if prim is None and not via:
                prim = p
            else:
                others.append(p)
    return prim, others


def run_chunk(cwd, files, timeout=90):
    """one `ucg build f1 f2 ...`; -> {file: [lines printed after `Building file`]} for the files whose output is complete"""
    try:
        p = subprocess.run([R.ucg_binary(), 'build'] + files, cwd=cwd, stdout=subprocess.PIPE, stderr=subprocess.STDOUT, stdin=subprocess.DEVNULL, timeout=timeout)
    except subprocess.TimeoutExpired:
        return {}
    out = p.stdout.decode('utf-8', 'replace')
    want = set(files)
    segs, cur, seen = {}, None, []
    for ln in out.splitlines():
        if ln.startswith('Building ') and ln[9:].strip() in want and ln[9:].strip() not in segs:
            cur = ln[9:].strip()
            segs[cur] = []
            seen.append(cur)
        elif cur is not None:
            segs[cur].append(ln)
    if p.returncode not in (0, 1) and seen:
        del segs[seen[-1]]      # the process died in this file: its output is re-read from a run alone
    return segs


def run_alone(cwd, f, timeout=30):
    try:
        p = subprocess.run([R.ucg_binary(), 'build', f], cwd=cwd, stdout=subprocess.PIPE, stderr=subprocess.STDOUT, stdin=subprocess.DEVNULL, timeout=timeout)
    except subprocess.TimeoutExpired:
        return ['<no answer within %d s>' % timeout]
    lines = p.stdout.decode('utf-8', 'replace').splitlines()
    if lines and lines[0].startswith('Building '):
        lines = lines[1:]
    if not lines and p.returncode != 0:
        lines = ['<exit status %d, nothing printed>' % p.returncode]
    return lines


def build_many(root, jobs, alone=False):
    """jobs: [(subdir, file)] -> {(subdir, file): lines}"""
    res = {}
    by_dir = {}
    for d, f in jobs:
        by_dir.setdefault(d, []).append(f)
    chunks = []
    for d, fs in by_dir.items():
        step = 1 if alone else CHUNK
        for i in range(0, len(fs), step):
            chunks.append((d, fs[i:i + step]))
    with concurrent.futures.ThreadPoolExecutor(WORKERS) as ex:
        if not alone:
            for (d, fs), segs in zip(chunks, ex.map(lambda c: run_chunk(os.path.join(root, c[0]), c[1]), chunks)):
                for f in fs:
                    if f in segs:
                        res[(d, f)] = segs[f]
        missing = [(d, f) for d, f in jobs if (d, f) not in res]
        for (d, f), lines in zip(missing, ex.map(lambda j: run_alone(os.path.join(root, j[0]), j[1]), missing)):
            res[(d, f)] = lines
    return res


# ------------------------------------------------------------------------------------------------------------------------ the oracle
class Variant(object):
    def __init__(self, prog, stem, tag, slot_text, uncalled=False, padded=False, override=None):
        self.tag = tag
        lib = stem + '_lib.ucg'      # the import path is part of the text: it is in place BEFORE any span is computed
        self.texts, self.spans, self.order, self.eof = {}, {}, {}, {}
        sub = substituter(slot_text, uncalled)
        for fname, pieces in prog.files.items():
            pads = prog.pads.get(fname) if padded else None

            def textof(p, fname=fname):
                if override and (fname, p.id) in override:
                    return override[(fname, p.id)].replace('@LIB@', lib)
                return sub(p.text).replace('@LIB@', lib)
            t, sp, order, eof = render(pieces, textof, pads)
            self.texts[fname], self.spans[fname], self.order[fname], self.eof[fname] = t, sp, order, eof

    def files_on_disk(self, stem):
        lib = stem + '_lib.ucg'
        res = {}
        for fname, t in self.texts.items():
            res[stem + '.ucg' if fname == 'main' else lib] = t
        return res

    def boundary(self, fname, pid):
        """first token after statement pid: start of the next statement, else the end of input"""
        ids = [o[0] for o in self.order[fname]]
        for nxt in ids[ids.index(pid) + 1:]:
            if nxt in self.spans[fname]:
                s = self.spans[fname][nxt]
                return (s[0], s[1])
        return self.eof[fname]


def inside(span, L, C, text, eol=False):
    """(L, C) addresses a character of the statement; eol: also the line break after a line of a multi-line statement (a parser may give up there)"""
    sl, sc, el, ec = span
    if not ((sl, sc) <= (L, C) <= (el, ec)):
        return False
    lines = text.split('\n')
    width = len(lines[L - 1])
    return C <= (width + 1 if L < el and eol else width)


def fmt_span(s):
    return 'line %d column %d .. line %d column %d' % s


class Verdict(Exception):
    def __init__(self, what, expected, observed, variant):
        Exception.__init__(self, what)
        self.what, self.expected, self.observed, self.variant = what, expected, observed, variant


def file_of(stem, name):
    if name is None:
        return None
    if name == stem + '.ucg':
        return 'main'
    if name == stem + '_lib.ucg':
        return 'lib'
    return name


def check_positions(prog, var, stem, lines, static):
    """clauses (4), (1), (2) on one build; -> (primary, secondary) with files mapped to 'main' / 'lib'"""
    ffile, fid = prog.fault
    span = var.spans[ffile][fid]
    where = 'statement at %s of %s' % (fmt_span(span), 'the built file' if ffile == 'main' else 'the imported file')
    if not lines:
        raise Verdict('the faulty program builds without any diagnostic (%s)' % prog.desc, 'a diagnostic pointing into the ' + where, 'exit without a diagnostic', var)
    prim, others = parse_diag(lines)
    if prim is None:
        raise Verdict('diagnostic without a position (%s)' % prog.desc, '`line: L column: C` inside the ' + where, '\n'.join(lines)[:600], var)
    pf, L, Cc = file_of(stem, prim[0]), prim[1], prim[2]
    if L < 1 or Cc < 1:
        raise Verdict('diagnostic at line %d column %d (%s)' % (L, Cc, prog.desc), 'line >= 1 and column >= 1, inside the ' + where, '\n'.join(lines)[:600], var)
    if pf is None and ffile == 'lib':
        raise Verdict('the fault is in the imported file, the diagnostic does not name a file (%s)' % prog.desc, 'a position in the imported file, ' + where, '\n'.join(lines)[:600], var)
    ok = (pf is None or pf == ffile) and inside(span, L, Cc, var.texts[ffile], eol=prog.override is not None)
    if not ok and prog.boundary_ok and (pf is None or pf == ffile) and (L, Cc) == var.boundary(ffile, fid):
        ok = True
    if not ok and known('typechecker-operand-origin') and prog.kind == 'type_mismatch' and lines[0].startswith('Type error:') and pf in var.spans:
        # KNOWN: the static checker reports a mismatch at the place where the offending operand's VALUE was written (another, valid statement)
        ok = any(pid != fid and inside(sp, L, Cc, var.texts[pf]) for pid, sp in var.spans[pf].items())
    if not ok:
        raise Verdict('the diagnostic points at %sline %d column %d, outside the statement containing the fault (%s)' % (
            ('file %s ' % prim[0]) if prim[0] else '', L, Cc, prog.desc), 'primary position inside the ' + where +
            (' (or at the boundary line %d column %d)' % var.boundary(ffile, fid) if prog.boundary_ok else ''), '\n'.join(lines)[:600], var)
    others = [(file_of(stem, f), l, c) for (f, l, c) in others]
    if prog.callers and prog.check_via and not static and not (known('typechecker-no-via') and lines[0].startswith('Type error:')):
        for (cf, cid) in prog.callers:
            cs = var.spans[cf][cid]
            if not any((f == cf or f is None) and inside(cs, l, c, var.texts[cf]) for (f, l, c) in others):
                raise Verdict('the fault is reached through a call, the diagnostic does not list the calling statement (%s)' % prog.desc,
                              'a secondary (`VIA:`) position inside the calling statement at %s of %s' % (fmt_span(cs), 'the built file' if cf == 'main' else 'the imported file'),
                              '\n'.join(lines)[:600], var)
    return (pf, L, Cc), others


def line_map(vb, vp, fname):
    """old line -> new line for every line of a piece"""
    new = dict((pid, sl) for (pid, sl, el) in vp.order[fname])
    m = {}
    for (pid, sl, el) in vb.order[fname]:
        for l in range(sl, el + 1):
            m[l] = l + new[pid] - sl
    m[vb.eof[fname][0]] = vp.eof[fname][0]
    return m


def judge(prog, stem, vars_, outs):
    """raises Verdict; returns 'skip' when the valid twin (if built) does not build, else 'ok'.  outs: tag -> lines for the builds done so far"""
    if outs.get('v'):
        return 'skip'
    static = bool(prog.callers) and bool(outs.get('u'))
    pb, ob = check_positions(prog, vars_['b'], stem, outs['b'], static)
    pp, op = check_positions(prog, vars_['p'], stem, outs['p'], static)
    maps = dict((f, line_map(vars_['b'], vars_['p'], f)) for f in prog.files)

    def moved(pos):
        f, l, c = pos
        ff = f if f in maps else prog.fault[0] if f is None else None
        if ff is None or l not in maps[ff]:
            return pos
        return (f, maps[ff][l], c)
    exp = [moved(pb)] + [moved(o) for o in ob]
    ffile, fid = prog.fault
    if prog.boundary_ok and pb[1:] == vars_['b'].boundary(ffile, fid) and not inside(vars_['b'].spans[ffile][fid], pb[1], pb[2], vars_['b'].texts[ffile]):
        exp[0] = (pb[0],) + vars_['p'].boundary(ffile, fid)      # reported at the first token after the statement: that token may now be an inserted statement
    got = [pp] + op
    if exp != got:
        added = maps[prog.fault[0]].get(pb[1], pb[1]) - pb[1]
        raise Verdict('the reported position does not follow the inserted lines (%s): %d line(s) were inserted before the fault, line %d column %d became line %d column %d' % (
            prog.desc, added, pb[1], pb[2], pp[1], pp[2]),
            'positions %s (those of the program without the insertions, each line moved by the number of lines inserted before it)' % (exp,),
            dict(positions=got, diagnostic='\n'.join(outs['p'])[:600], without_insertions=dict(source=vars_['b'].files_on_disk(stem), diagnostic='\n'.join(outs['b'])[:600])), vars_['p'])
    return 'ok'


def variants_of(prog, stem):
    v = {'v': Variant(prog, stem, 'v', prog.fill), 'b': Variant(prog, stem, 'b', prog.bad, override=prog.override),
         'p': Variant(prog, stem, 'p', prog.bad, padded=True, override=prog.override)}
    if prog.callers and prog.check_via:
        v['u'] = Variant(prog, stem, 'u', prog.bad, uncalled=True, override=prog.override)
    return v


def write_variants(root, stem, vs, tags, crlf=False):
    for tag in tags:
        os.makedirs(os.path.join(root, tag), exist_ok=True)
        for fn, txt in vs[tag].files_on_disk(stem).items():
            with open(os.path.join(root, tag, fn), 'w', newline='') as fh:
                fh.write(txt.replace('\n', '\r\n') if crlf else txt)


SKIPPED = []     # (description, files, output) of valid twins that did not build in the last runs (for the generator's maintenance)
SUSPECTS = []    # descriptions of the programs that needed the confirmation pass


def evaluate(progs, name, bound):
    """Pass 1: builds b and p of every program, batched.  Pass 2, only for the programs pass 1 objects to: v, b, p, u each built ALONE in a fresh
    directory (v fails: not counted; u fails: the fault is found without a call); the first objection that stands is the violation."""
    root = tempfile.mkdtemp(prefix='verif_c17_')
    try:
        allv, jobs = [], []
        for i, prog in enumerate(progs):
            stem = 'p%04d' % i
            vs = variants_of(prog, stem)
            allv.append((stem, vs))
            write_variants(root, stem, vs, ['b', 'p'], prog.crlf)
            jobs += [('b', stem + '.ucg'), ('p', stem + '.ucg')]
        res = build_many(root, jobs)
        suspects = []
        for i, (prog, (stem, vs)) in enumerate(zip(progs, allv)):
            try:
                judge(prog, stem, vs, dict((tag, res[(tag, stem + '.ucg')]) for tag in ('b', 'p')))
            except Verdict:
                suspects.append(i)
        skipped = 0
        for g in range(0, len(suspects), 8):
            if g >= 48:
                return dict(name=name, bound=bound, cases=0, status='error', detail='pass 1 objects to %d of %d programs; the first 48 were re-run alone: %d of them have a valid twin that does '
                            'not build on this tree, the others pass alone - the batch builds of this tree cannot be trusted' % (len(suspects), len(progs), skipped))
            group = suspects[g:g + 8]
            d2 = tempfile.mkdtemp(prefix='verif_c17_alone_')
            try:
                jobs2 = []
                for i in group:
                    stem, vs = allv[i]
                    write_variants(d2, stem, vs, sorted(vs), progs[i].crlf)
                    jobs2 += [(tag, stem + '.ucg') for tag in sorted(vs)]
                res2 = build_many(d2, jobs2, alone=True)
            finally:
                shutil.rmtree(d2, ignore_errors=True)
            for i in group:
                prog, (stem, vs) = progs[i], allv[i]
                SUSPECTS.append(prog.desc)
                outs = dict((tag, res2[(tag, stem + '.ucg')]) for tag in vs)
                try:
                    if judge(prog, stem, vs, outs) == 'skip':
                        skipped += 1
                        SKIPPED.append((prog.desc, vs['v'].files_on_disk(stem), outs['v']))
                except Verdict as v:
                    return dict(name=name, bound=bound, cases=i + 1, status='violation', detail=v.what,
                                input=dict(source=v.variant.files_on_disk(stem), line_ends='\\r\\n' if prog.crlf else '\\n', expected=v.expected, observed=v.observed,
                                           how='write the files into an empty directory and run `ucg build %s.ucg` there (cwd = that directory); found in a batch build '
                                               '(`ucg build <%d files>`), confirmed by this build alone' % (stem, CHUNK),
                                           single_fault=('the same program with `%s` in place of `%s` builds' % (prog.fill, prog.bad.replace('\n', ' ')))
                                           if prog.override is None else prog.desc + '; without it the program builds'))
        counted = len(progs) - skipped
        if counted == 0:
            return dict(name=name, bound=bound, cases=0, status='error', detail='none of the %d generated VALID programs builds on this tree: the single-fault premise cannot be set up' % len(progs))
        return dict(name=name, bound=bound, cases=counted, status='ok',
                    detail='%d faulty programs, each also with 1..3 statements inserted before the fault%s' % (
                        counted, '; %d not counted (their valid twin does not build)' % skipped if skipped else ''))
    finally:
        shutil.rmtree(root, ignore_errors=True)


# ------------------------------------------------------------------------------------------------------------------------ evaluation faults
def fault_pairs(carrier, rnd):
    """(kind, filler, fault expression) choices for a carrier"""
    if carrier.pairs:
        return carrier.pairs
    res = []
    for k in KINDS:
        vs = FAULTS[k]['lit'] + (FAULTS[k]['free'] if carrier.scope == 'free' else [])
        for e in vs:
            res.append((k, None, e))
    return res


def gen_eval_programs(rnd, carriers, count, exhaustive=False):
    """programs for a carrier family: every carrier x every kind at least once (variants rotating), then random combinations up to `count`"""
    combos = []
    names = sorted(carriers)
    for cn in names:
        if exhaustive:
            probe = carriers[cn](Ctx(random.Random(0)))
            if probe.pairs:
                combos.extend([(cn, 'flow%d' % i, None) for i in range(16)])      # the carrier draws its own (operation, value) pair
                continue
            for (k, fill, e) in fault_pairs(probe, rnd):
                combos.append((cn, k, e))
        else:
            probe = carriers[cn](Ctx(random.Random(0)))
            if probe.pairs:
                combos.extend([(cn, 'flow%d' % i, None) for i in range(12)])
                continue
            for k in KINDS:
                vs = FAULTS[k]['lit'] + (FAULTS[k]['free'] if probe.scope == 'free' else [])
                combos.append((cn, k, rnd.choice(vs)))
    rnd.shuffle(combos)
    if not exhaustive:
        # a cover first: every carrier and every kind at least once, then the rest
        cover, seen_c, seen_k = [], set(), set()
        rest = []
        for c in combos:
            if c[0] not in seen_c or c[1] not in seen_k:
                cover.append(c)
                seen_c.add(c[0])
                seen_k.add(c[1])
            else:
                rest.append(c)
        combos = (cover + rest)[:count] if count < len(combos) else combos + [rnd.choice(combos) for _ in range(count - len(combos))]
    progs = []
    for (cn, k, e) in combos:
        for attempt in range(6):
            C = Ctx(random.Random(rnd.getrandbits(48)))
            car = carriers[cn](C)
            if car.known_id and known(car.known_id):
                break
            if car.pairs:
                k2, fill, e2 = C.rnd.choice(car.pairs)
            else:
                k2, fill, e2 = k, C.num() if C.rnd.random() < 0.7 else '(%s + %s)' % (C.num(), C.num()), e
            prog = assemble(C, car, k2, fill, e2, C.rnd.randint(3, 12))
            if prog is None:
                continue
            prog.pads = choose_pads(C, prog)
            prog.desc = 'fault kind %s `%s` at nesting position %s' % (k2, e2.replace('\n', ' '), car.name)
            progs.append(prog)
            break
    return progs


def standin_fault_top_level(tier, seed):
    rnd = random.Random(seed * 7919 + 17)
    carriers = dict(top_carriers())
    carriers.update(flow_carriers())
    n = 330 if tier == 'quick' else 0
    progs = gen_eval_programs(rnd, carriers, n, exhaustive=(tier != 'quick'))
    if tier != 'quick':
        progs += gen_eval_programs(rnd, carriers, 600)
    bound = ('%d generated programs of 3..12 statements: one fault of each kind (%s) at top-level nesting positions (%s) and failing operations whose operand is '
             'produced elsewhere (%s); %s; random statement position, layout and padding, seed %d' % (
                 len(progs), ', '.join(KINDS), ', '.join(sorted(top_carriers())), ', '.join(sorted(flow_carriers())),
                 'every fault expression of the table at every position plus 600 random combinations' if tier != 'quick' else 'every position and every kind at least once', seed))
    return evaluate(progs, 'fault_top_level', bound)


def standin_fault_called(tier, seed):
    rnd = random.Random(seed * 7919 + 29)
    carriers = called_carriers()
    progs = gen_eval_programs(rnd, carriers, 200 if tier == 'quick' else 0, exhaustive=(tier != 'quick'))
    if tier != 'quick':
        progs += gen_eval_programs(rnd, carriers, 500)
    bound = ('%d generated programs of 3..12 statements: one fault of each kind inside a definition (%s) evaluated because another statement calls / instantiates / '
             'maps it (call nested in a let, tuple field, list element, call argument, select arm); %s; seed %d' % (
                 len(progs), ', '.join(sorted(carriers)), 'every fault expression at every position plus 500 random combinations' if tier != 'quick' else 'every position and every kind at least once', seed))
    return evaluate(progs, 'fault_called', bound)


def standin_fault_imported(tier, seed):
    rnd = random.Random(seed * 7919 + 31)
    carriers = lib_carriers()
    progs = gen_eval_programs(rnd, carriers, 50 if tier == 'quick' else 0, exhaustive=(tier != 'quick'))
    if tier != 'quick':
        progs += gen_eval_programs(rnd, carriers, 300)
    bound = ('%d generated two-file programs (main of 3..12 statements importing a second file): one fault of each kind in the IMPORTED file, at its top level (%s) or inside '
             'a function / module / callback defined there and called from the main file; %s; seed %d' % (
                 len(progs), 'let value, tuple field, list element, call argument, select arm, nested, format argument, operand', 'every fault expression at every position plus 300 random combinations'
                 if tier != 'quick' else 'every position and every kind at least once', seed))
    return evaluate(progs, 'fault_imported', bound)


# ------------------------------------------------------------------------------------------------------------------------ syntax faults
TOK = re.compile(r'"(?:[^"\\]|\\.)*"|[A-Za-z_][A-Za-z0-9_]*|\d+(?:\.\d+)?|=>|==|!=|>=|<=|&&|\|\||%%|::|!~|\s+|.', re.S)
OPENERS, CLOSERS = '([{', ')]}'
TYPOS = {'let': 'lett', 'func': 'fnc', 'module': 'modul', 'select': 'selct', 'import': 'imprt'}
BAD_TOKENS = ['$', '?', '`', '^', '#', '@']
MUTATIONS = ['missing_semicolon', 'missing_closer', 'missing_opener', 'extra_closer', 'bad_token', 'missing_equals', 'missing_comma', 'doubled_operator',
             'missing_arrow', 'missing_operand', 'keyword_typo', 'unterminated_string', 'missing_binding_name']


def mutate(rnd, text, kind, quote_follows):
    """one syntax fault of `kind` in a statement text -> (new text, description) | None when the statement has no place for it"""
    toks = [(m.start(), m.end(), m.group()) for m in TOK.finditer(text) if not m.group().isspace()]
    n = len(toks)

    def cut(i):
        return text[:toks[i][0]] + text[toks[i][1]:]

    def ins_after(i, t):
        return text[:toks[i][1]] + t + text[toks[i][1]:]

    def pick(idx):
        return rnd.choice(idx) if idx else None

    if kind == 'missing_semicolon':
        return (cut(n - 1), 'the terminating `;` is missing') if toks[-1][2] == ';' else None
    if kind == 'missing_closer':
        i = pick([i for i in range(n) if toks[i][2] in CLOSERS])
        return None if i is None else (cut(i), 'closing `%s` (token %d) is missing' % (toks[i][2], i + 1))
    if kind == 'missing_opener':
        i = pick([i for i in range(n) if toks[i][2] in OPENERS])
        return None if i is None else (cut(i), 'opening `%s` (token %d) is missing' % (toks[i][2], i + 1))
    if kind == 'extra_closer':
        i = pick([i for i in range(n) if toks[i][2] in CLOSERS])
        return None if i is None else (ins_after(i, toks[i][2]), 'closing `%s` (token %d) is doubled' % (toks[i][2], i + 1))
    if kind == 'bad_token':
        i = rnd.randrange(n)
        b = rnd.choice(BAD_TOKENS)
        return text[:toks[i][0]] + b + ' ' + text[toks[i][0]:], 'the character `%s` stands before token %d' % (b, i + 1)
    if kind == 'missing_equals':
        i = pick([i for i in range(n) if toks[i][2] == '='])
        return None if i is None else (cut(i), '`=` (token %d) is missing' % (i + 1))
    if kind == 'missing_comma':
        i = pick([i for i in range(n - 1) if toks[i][2] == ',' and toks[i + 1][2] not in CLOSERS])
        return None if i is None else (cut(i), 'the `,` before token %d is missing' % (i + 2))
    if kind == 'doubled_operator':
        i = pick([i for i in range(1, n - 1) if toks[i][2] in ('+', '-', '*', '/')])
        return None if i is None else (ins_after(i, ' *'), 'operator `%s` (token %d) is followed by a second operator `*`' % (toks[i][2], i + 1))
    if kind == 'missing_arrow':
        i = pick([i for i in range(n) if toks[i][2] == '=>'])
        return None if i is None else (cut(i), '`=>` (token %d) is missing' % (i + 1))
    if kind == 'missing_operand':
        i = pick([i for i in range(1, n - 1) if toks[i - 1][2] in ('+', '-', '*', '/') and re.match(r'[\w"]', toks[i][2]) and toks[i + 1][2] in (';', ',', ')', ']', '}')])
        return None if i is None else (cut(i), 'the operand after `%s` (token %d) is missing' % (toks[i - 1][2], i + 1))
    if kind == 'keyword_typo':
        i = pick([i for i in range(n) if toks[i][2] in TYPOS])
        return None if i is None else (text[:toks[i][0]] + TYPOS[toks[i][2]] + text[toks[i][1]:], 'keyword `%s` (token %d) is misspelt `%s`' % (toks[i][2], i + 1, TYPOS[toks[i][2]]))
    if kind == 'unterminated_string':
        if quote_follows:
            return None     # the lexer would close the literal at a quote of a LATER statement: which statement is at fault is then debatable
        idx = [i for i in range(n) if toks[i][2].startswith('"')]
        if not idx:
            return None
        i = idx[-1]
        return text[:toks[i][1] - 1] + text[toks[i][1]:], 'the closing quote of the last string literal (token %d) is missing' % (i + 1)
    if kind == 'missing_binding_name':
        i = pick([i for i in range(1, n) if toks[i - 1][2] == 'let' and re.match(r'[A-Za-z]', toks[i][2])])
        return None if i is None else (cut(i), 'the name after `let` (token %d) is missing' % (i + 1))
    raise ValueError(kind)


def gen_syntax_programs(rnd, nbase, per_base, exhaustive=False):
    """valid programs built around a random carrier (slot filled validly); each yields faulty programs: a syntax mutation in ONE statement"""
    pool = dict(top_carriers())
    pool.update(called_carriers())
    pool.update(lib_carriers())
    names = sorted(n for n in pool if n != 'format_embedded')
    progs = []
    import copy
    for b in range(nbase):
        base = None
        while base is None:
            C = Ctx(random.Random(rnd.getrandbits(48)))
            car = pool[names[b % len(names)] if b < len(names) else rnd.choice(names)](C)
            fill = C.num()
            base = assemble(C, car, 'syntax', fill, fill, C.rnd.randint(3, 12))
        vv = Variant(base, 'p0000', 'v', fill)
        targets = []
        for fname, pieces in base.files.items():
            if fname == 'lib' and known('imported-syntax-error'):
                continue
            for p in pieces:
                if not p.trivia:
                    targets.append((fname, p))
        combos = [(t, m) for t in targets for m in MUTATIONS]
        if not exhaustive:
            rnd.shuffle(combos)
        made = 0
        for (fname, piece), mkind in combos:
            if not exhaustive and made >= per_base:
                break
            text = substituter(fill)(piece.text)
            sp = vv.spans[fname][piece.id]
            after = '\n'.join(vv.texts[fname].split('\n')[sp[2] - 1:])[sp[3]:]
            r = mutate(C.rnd, text, mkind, '"' in after)
            if r is None:
                continue
            prog = copy.copy(base)
            prog.fault, prog.callers, prog.override = (fname, piece.id), [], {(fname, piece.id): r[0]}
            prog.bad = fill
            prog.boundary_ok = mkind == 'missing_semicolon'
            prog.kind = mkind
            nth = [q.id for q in base.files[fname] if not q.trivia].index(piece.id) + 1
            prog.desc = 'syntax fault %s in statement %d of %s: %s' % (mkind, nth, 'the built file' if fname == 'main' else 'the imported file', r[1])
            prog.pads = choose_pads(C, prog)
            progs.append(prog)
            made += 1
    return progs


def standin_fault_syntax(tier, seed):
    rnd = random.Random(seed * 7919 + 37)
    if tier == 'quick':
        progs = gen_syntax_programs(rnd, 40, 3)
    else:
        progs = gen_syntax_programs(rnd, 12, 0, exhaustive=True) + gen_syntax_programs(rnd, 250, 4)
    bound = ('%d generated programs of 3..12 statements (lets, tuples, lists, functions, modules, selects, format strings, map/filter/reduce, imports), each with ONE syntax '
             'fault (%s) at a random token of one statement; %s; tolerance: a missing `;` may be reported at the first token after the statement; seed %d' % (
                 len(progs), ', '.join(MUTATIONS), 'every mutation at every statement position of 12 programs plus 4 random ones in each of 250 more programs' if tier != 'quick' else 'random statement positions', seed))
    return evaluate(progs, 'fault_syntax', bound)


STANDINS = [standin_fault_top_level, standin_fault_called, standin_fault_imported, standin_fault_syntax]
