// ---- prelude/link_ops_world.rs: what FileBuilder::{build, link_ops} (build/mod.rs) see of std, of the shared
// Environment and of the rest of the builder.  Everything in this file is a TRUSTED MODEL (R5/R7/R8/R11/R12) except the
// lemmas, which are proved.  It EXTENDS prelude/env_caches_world.rs (PathBuf = its text, BTreeSet<PathBuf> = a set of
// texts, vinto / VAsRefPath) - include that file first.
// needs: `use std::rc::Rc;` before verus!, prelude/core.rs, prelude/env_caches_world.rs, the types Position (opaque,
// clone_spec), Error (extracted), OpsMap / OpPointer (extracted)

// ---------- paths ----------
// src/path.rs `normalize` (a fold over std's `components()`: `.` dropped, `..` pops): an UNINTERPRETED function of the
// text, as in units import_hook / env_caches_shapes.  Which spellings it identifies is not decided here.
// (declared in mod link_spec below)
pub mod path {
    use super::*;
    #[verifier::external_body]
    pub fn normalize(p: PathBuf) -> (r: PathBuf) ensures r@ == spec_normalize(p@) { unimplemented!() }
}
impl PathBuf {
    // `p.to_string_lossy().into()` as one step (Cow<str> -> Rc<str>).  ASSUMED lossless: every path the linker sees was
    // made from a UCG string, hence is valid Unicode.
    #[verifier::external_body]
    pub fn verif_to_rcstr(&self) -> (r: Rc<str>) ensures r@ == self@ { unimplemented!() }
}

// ---------- BTreeSet<Rc<str>>: the linker's `found` set - a set of path TEXTS ----------
// (Rc<str> is ordered and compared by its text: std `impl Ord for Rc<T>` delegates to T.)  The view is a possibly
// infinite set type only because the termination measure subtracts it from the reachable set, which is an ISet.
impl View for BTreeSet<Rc<str>> { type V = ISet<Seq<char>>; uninterp spec fn view(&self) -> ISet<Seq<char>>; }
impl BTreeSet<Rc<str>> {
    #[verifier::external_body]
    pub fn new() -> (r: Self) ensures r@ == ISet::<Seq<char>>::empty() { unimplemented!() }
    #[verifier::external_body]
    pub fn contains(&self, k: &Rc<str>) -> (r: bool) ensures r == self@.contains(k@) { unimplemented!() }
    #[verifier::external_body]
    pub fn insert(&mut self, k: Rc<str>) -> (r: bool)
        ensures final(self)@ == old(self)@.insert(k@), r == !old(self)@.contains(k@)
    { unimplemented!() }
}

// ---------- errors ----------
// `Box<dyn Error>` (R5: dyn Trait is outside Verus): the two error types FileBuilder::build boxes, as an enum.
pub mod simple_error {
    // simple_error::SimpleError (dependency): only constructed here; message text dropped (R1)
    #[verifier::external_body]
    pub struct SimpleError { _p: u8 }
    impl SimpleError {
        #[verifier::external_body]
        pub fn new(msg: String) -> Self { unimplemented!() }
    }
}
pub enum VBoxErr { Op(Error), Simple(simple_error::SimpleError) }
// `Box::new(e)` coerced to `Box<dyn Error>`
pub trait VDynError: Sized {
    spec fn boxed(self) -> VBoxErr;
    fn into_box(self) -> (r: VBoxErr) ensures r == self.boxed();
}
impl VDynError for Error {
    open spec fn boxed(self) -> VBoxErr { VBoxErr::Op(self) }
    fn into_box(self) -> (r: VBoxErr) { VBoxErr::Op(self) }
}
impl VDynError for simple_error::SimpleError {
    open spec fn boxed(self) -> VBoxErr { VBoxErr::Simple(self) }
    fn into_box(self) -> (r: VBoxErr) { VBoxErr::Simple(self) }
}
pub fn vbox<E: VDynError>(e: E) -> (r: VBoxErr) ensures r == e.boxed() { e.into_box() }
// the conversion `?` applies to an opcode::Error in a function returning BuildResult (std: `impl From<E> for Box<dyn Error>`)
impl vstd::std_specs::convert::FromSpecImpl<Error> for VBoxErr {
    open spec fn obeys_from_spec() -> bool { true }
    open spec fn from_spec(e: Error) -> VBoxErr { VBoxErr::Op(e) }
}
impl From<Error> for VBoxErr {
    fn from(e: Error) -> (r: VBoxErr) { VBoxErr::Op(e) }
}

// ---------- the shared environment (R11) and the history of the run (R12) ----------
// What loading a file yields is a FUNCTION OF ITS PATH for the whole run: `spec_file_ops(p)` the compiled file (None: it
// cannot be read / parsed / type checked), `spec_load_error(p)` the error reported then.  ASSUMPTIONS: the file system
// does not change during the run; a cached entry equals a fresh computation (PROVED at cache level in unit env_caches,
// lemmas L0-L3, modulo the shape cache, unit env_caches_shapes).
// (spec_file_ops is declared in mod link_spec below)
pub uninterp spec fn spec_load_error(p: Seq<char>) -> Error;

// One record per evaluation FileBuilder::eval_ops starts: what is evaluated, under which path label, in which
// working directory, whether it succeeded - and WHICH OUTPUT LOCKS WERE HELD WHEN IT STARTED.
pub struct EvalRec {
    pub ops: OpsMap,
    pub path: Option<Seq<char>>,
    pub working_dir: Seq<char>,
    pub locks_at_start: Set<Seq<char>>,
    pub ok: bool,
}
#[verifier::external_body]
pub struct VEnvRest { _p: u8 }
// `&RefCell<Environment<..>>` becomes `&mut Environment`.  Of the real struct only `out_lock` is kept as a field (same
// name, same type); the caches, registries, collector, stdout/stderr are folded into the opaque `rest`.  Ghost HISTORY
// variables, never reset: `lookups` every path get_ops_for_path was called with, in order; `evals` every evaluation
// eval_ops started.
pub struct Environment {
    pub out_lock: BTreeSet<PathBuf>,
    pub rest: VEnvRest,
    pub lookups: Ghost<Seq<Seq<char>>>,
    pub evals: Ghost<Seq<EvalRec>>,
}
// R11: `RefCell::borrow_mut` / `borrow` on the stand-in are the identity.  ASSUMPTION of R11: the dynamic borrows of
// the real RefCell never conflict (a conflict would be a panic, not a wrong build).
impl Environment {
    pub fn borrow_mut(&mut self) -> (r: &mut Environment)
        ensures *r == *old(self), *final(r) == *final(self)
    { self }
    pub fn borrow(&self) -> (r: &Environment)
        ensures *r == *self
    { self }
}

// ---------- the import graph as the linker sees it ----------
// (specification vocabulary and its lemmas live in a module of their own: the crate-level `broadcast use` below must
// not apply to the proofs of the very lemmas it broadcasts; a function-level `broadcast use` does not reach into loops)
pub mod link_spec {
use super::*;
pub uninterp spec fn spec_normalize(p: Seq<char>) -> Seq<char>;
pub uninterp spec fn spec_file_ops(p: Seq<char>) -> Option<OpsMap>;

// the k-th import of a compiled file: (path as written by the path rewriter, position of the import expression).
// R5: `OpsMap.links` (a BTreeMap<Rc<str>, Position>) is modelled as the vector of its entries in key order - which is
// the order `for (link, pos) in &links` visits them in.
pub open spec fn link_at(o: OpsMap, k: int) -> (Seq<char>, Position) { (o.links@[k].0@, o.links@[k].1) }
// `u` contains the normalised imports of `root` and, with every file that can be loaded, its normalised imports
pub open spec fn link_closed(root: OpsMap, u: ISet<Seq<char>>) -> bool {
    &&& forall|k: int| 0 <= k < root.links@.len() ==> u.contains(spec_normalize((#[trigger] root.links@[k]).0@))
    &&& forall|p: Seq<char>, k: int| #![trigger spec_file_ops(p)->Some_0.links@[k]]
            u.contains(p) && spec_file_ops(p) is Some && 0 <= k < spec_file_ops(p)->Some_0.links@.len()
            ==> u.contains(spec_normalize(spec_file_ops(p)->Some_0.links@[k].0@))
}
// the normalised paths transitively linked from `root`: the least link-closed set
pub open spec fn reachable(root: OpsMap) -> ISet<Seq<char>> {
    ISet::new(|p: Seq<char>| forall|u: ISet<Seq<char>>| link_closed(root, u) ==> #[trigger] u.contains(p))
}
pub proof fn lemma_reachable_closed(root: OpsMap)
    ensures link_closed(root, reachable(root))
{
}
// (l, pos) is an import expression of `root` or of a reachable file
pub open spec fn is_import(root: OpsMap, l: Seq<char>, pos: Position) -> bool {
    ||| exists|k: int| 0 <= k < root.links@.len() && (#[trigger] root.links@[k]).0@ == l && root.links@[k].1 == pos
    ||| exists|p: Seq<char>, k: int| #![trigger spec_file_ops(p)->Some_0.links@[k]]
            reachable(root).contains(p) && spec_file_ops(p) is Some && 0 <= k < spec_file_ops(p)->Some_0.links@.len()
            && spec_file_ops(p)->Some_0.links@[k].0@ == l && spec_file_ops(p)->Some_0.links@[k].1 == pos
}
pub broadcast proof fn lemma_import_is_reachable(root: OpsMap, l: Seq<char>, pos: Position)
    ensures #[trigger] is_import(root, l, pos) ==> reachable(root).contains(spec_normalize(l))
{
    lemma_reachable_closed(root);
}

// the worklist: some entry of `ls` normalises to `q`
pub open spec fn pending(ls: Seq<(Rc<str>, Position)>, q: Seq<char>) -> bool {
    exists|i: int| 0 <= i < ls.len() && spec_normalize((#[trigger] ls[i]).0@) == q
}
pub broadcast proof fn lemma_pending_push(ls: Seq<(Rc<str>, Position)>, x: (Rc<str>, Position), q: Seq<char>)
    ensures #[trigger] pending(ls.push(x), q) == (pending(ls, q) || spec_normalize(x.0@) == q)
{
    let ls2 = ls.push(x);
    if pending(ls, q) {
        let i = choose|i: int| 0 <= i < ls.len() && spec_normalize((#[trigger] ls[i]).0@) == q;
        assert(ls2[i] == ls[i]);
    }
    if spec_normalize(x.0@) == q {
        assert(ls2[ls.len() as int] == x);
    }
    if pending(ls2, q) {
        let i = choose|i: int| 0 <= i < ls2.len() && spec_normalize((#[trigger] ls2[i]).0@) == q;
        if i < ls.len() { assert(ls2[i] == ls[i]); }
    }
}
pub broadcast proof fn lemma_pending_pop(ls: Seq<(Rc<str>, Position)>, n: int, q: Seq<char>)
    requires n == ls.len() - 1, n >= 0,
    ensures #[trigger] pending(ls.subrange(0, n), q) || spec_normalize(ls[n].0@) == q || !pending(ls, q)
{
    let ls2 = ls.subrange(0, n);
    if pending(ls, q) {
        let i = choose|i: int| 0 <= i < ls.len() && spec_normalize((#[trigger] ls[i]).0@) == q;
        if i < n { assert(ls2[i] == ls[i]); }
    }
}
// `found` is link-closed up to what is still on the worklist
pub open spec fn closed_up_to(root: OpsMap, found: ISet<Seq<char>>, ls: Seq<(Rc<str>, Position)>) -> bool {
    &&& forall|k: int| 0 <= k < root.links@.len() ==> {
            let q = spec_normalize((#[trigger] root.links@[k]).0@);
            found.contains(q) || pending(ls, q)
        }
    &&& forall|p: Seq<char>, k: int| #![trigger spec_file_ops(p)->Some_0.links@[k]]
            found.contains(p) && spec_file_ops(p) is Some && 0 <= k < spec_file_ops(p)->Some_0.links@.len() ==> {
            let q = spec_normalize(spec_file_ops(p)->Some_0.links@[k].0@);
            found.contains(q) || pending(ls, q)
        }
}

pub open spec fn extends<T>(a: Seq<T>, b: Seq<T>) -> bool {
    a.len() <= b.len() && forall|k: int| #![trigger a[k]] #![trigger b[k]] 0 <= k < a.len() ==> b[k] == a[k]
}
// `p` is among the paths looked up from history index n on
pub open spec fn logged(lk: Seq<Seq<char>>, n: int, p: Seq<char>) -> bool {
    exists|j: int| n <= j < lk.len() && #[trigger] lk[j] == p
}
pub broadcast proof fn lemma_logged_push(lk: Seq<Seq<char>>, n: int, a: Seq<char>, p: Seq<char>)
    requires 0 <= n <= lk.len(),
    ensures #[trigger] logged(lk.push(a), n, p) == (logged(lk, n, p) || a == p)
{
    let lk2 = lk.push(a);
    if logged(lk, n, p) {
        let j = choose|j: int| n <= j < lk.len() && #[trigger] lk[j] == p;
        assert(lk2[j] == p);
    }
    if a == p { assert(lk2[lk.len() as int] == p); }
    if logged(lk2, n, p) {
        let j = choose|j: int| n <= j < lk2.len() && #[trigger] lk2[j] == p;
        if j < lk.len() { assert(lk[j] == p); }
    }
}
// the termination measure of the worklist loop shrinks when a new reachable path is found
pub broadcast proof fn lemma_found_one_more(u: ISet<Seq<char>>, f: ISet<Seq<char>>, x: Seq<char>)
    requires u.finite(), u.contains(x), !f.contains(x),
    ensures #[trigger] u.difference(f.insert(x)).len() < u.difference(f).len()
{
    ISet::lemma_iset_insert_diff_decreases(u, f, x);
}
pub broadcast group group_link_lemmas { lemma_import_is_reachable, lemma_pending_push, lemma_pending_pop, lemma_logged_push, lemma_found_one_more, }
} // mod link_spec
pub use link_spec::*;
broadcast use link_spec::group_link_lemmas;
