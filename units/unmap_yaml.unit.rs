//@ unit unmap_yaml
//@ serves C15
//@ must_verify YamlConverter::convert_yaml_val YamlConverter::import YamlConverter::merge_mapping_keys Number::as_i64 Number::as_f64 Number::is_u64
// C15 — included data files decode to the data they contain: the ucg-owned mapping serde_yaml::Value -> Val.
// The property restricts YAML inputs to the constructs decoders agree on: mapping keys are strings, unique, no merge
// key `<<`, no tags (anchors/aliases are resolved by the parser before ucg sees the value). That restriction is
// the HYPOTHESIS `yaml_plain(v)` of both contracts; outside it the functions are still proved panic-free and
// terminating, nothing more. Mapping members come in the Mapping's iteration order = DOCUMENT order (IndexMap).
// Same genuine defect as unmap_json (a YAML integer in (i64::MAX, u64::MAX] silently became a rounded Float); fixed by
// /scratch/patches/unmap_yaml.patch; written against the FIXED text, pinned behaviour = mutant `big_u64_to_float`.
//@ include prelude/head.rs
use std::rc::Rc;
use vstd::std_specs::convert::*;
use vstd::std_specs::iter::IteratorSpec;

verus! {
//@ include prelude/core.rs
//@ include prelude/unmap_json_data.rs
//@ include prelude/unmap_yaml_models.rs

// ---------- the hypothesis: the YAML subset of the property ----------
pub open spec fn key_text(k: serde_yaml::Value) -> Seq<char> {
    match k { serde_yaml::Value::String(s) => s@, _ => Seq::<char>::empty() }
}
// entries of one mapping: string keys, none the merge key, pairwise different
pub open spec fn plain_keys(m: Seq<(serde_yaml::Value, serde_yaml::Value)>) -> bool {
    &&& forall|k: int| 0 <= k < m.len() ==> (#[trigger] m[k]).0 is String && key_text(m[k].0) != "<<"@
    &&& forall|i: int, j: int| 0 <= i < j < m.len() ==> key_text((#[trigger] m[i]).0) != key_text((#[trigger] m[j]).0)
}
pub open spec fn yaml_plain(v: serde_yaml::Value) -> bool
    decreases v
{
    match v {
        serde_yaml::Value::Sequence(l) => forall|k: int| 0 <= k < l@.len() ==> yaml_plain(#[trigger] l@[k]),
        serde_yaml::Value::Mapping(m) => plain_keys(m@) && (forall|k: int| 0 <= k < m@.len() ==> yaml_plain((#[trigger] m@[k]).1)),
        serde_yaml::Value::Tagged(_) => false,
        _ => true,
    }
}

// ---------- view of the format value: the tree the parsed document denotes ----------
pub open spec fn yview(v: serde_yaml::Value) -> D
    decreases v
{
    match v {
        serde_yaml::Value::Null => D::Null,
        serde_yaml::Value::Bool(b) => D::Bool(b),
        serde_yaml::Value::Number(n) => match n.n {
            serde_yaml::N::PosInt(u) => D::Int(u as int),
            serde_yaml::N::NegInt(i) => D::Int(i as int),
            serde_yaml::N::Float(f) => D::Float(f),
        },
        serde_yaml::Value::String(s) => D::Str(s@),
        serde_yaml::Value::Sequence(l) => D::List(Seq::new(l@.len(), |k: int| if 0 <= k < l@.len() { yview(l@[k]) } else { D::NotData })),
        serde_yaml::Value::Mapping(m) => D::Obj(Seq::new(m@.len(), |k: int| if 0 <= k < m@.len() { (key_text(m@[k].0), yview(m@[k].1)) } else { (Seq::<char>::empty(), D::NotData) })),
        serde_yaml::Value::Tagged(_) => D::NotData,
    }
}

// ---------- contract pieces ----------
// `fs1` is `fs0` followed by the first n members of m, each mapped to a value denoting exactly its tree
pub open spec fn merged(fs0: Seq<(String, Rc<Val>)>, fs1: Seq<(String, Rc<Val>)>, m: Seq<(serde_yaml::Value, serde_yaml::Value)>, n: int) -> bool {
    &&& fs1.len() == fs0.len() + n
    &&& forall|j: int| 0 <= j < fs0.len() ==> fs1[j] == fs0[j]
    &&& forall|k: int| 0 <= k < n ==> fs1[fs0.len() + k].0@ == key_text((#[trigger] m[k]).0)
            && data(*fs1[fs0.len() + k].1) == yview(m[k].1) && representable(yview(m[k].1))
}
pub open spec fn all_representable(m: Seq<(serde_yaml::Value, serde_yaml::Value)>) -> bool {
    forall|k: int| 0 <= k < m.len() ==> representable(yview((#[trigger] m[k]).1))
}
pub open spec fn seq_inv(vs: Vec<Rc<Val>>, l: Vec<serde_yaml::Value>, n: int) -> bool {
    &&& vs@.len() == n
    &&& forall|k: int| 0 <= k < n ==> representable(yview(#[trigger] l@[k])) && data(*vs@[k]) == yview(l@[k])
}
// the de-duplication loop over the reversed field list R: with pairwise different keys nothing is dropped
pub open spec fn dedupe_inv(collapsed: Vec<(Rc<str>, Rc<Val>)>, seen: BTreeSet<String>, rr: Seq<(String, Rc<Val>)>, n: int) -> bool {
    &&& collapsed@.len() == n
    &&& forall|j: int| 0 <= j < n ==> (#[trigger] collapsed@[j]).0@ == rr[j].0@ && collapsed@[j].1 == rr[j].1
    &&& forall|s: Seq<char>| seen@.contains(s) ==> exists|j: int| 0 <= j < n && (#[trigger] rr[j]).0@ == s
}
pub open spec fn distinct_names(fs: Seq<(String, Rc<Val>)>) -> bool {
    forall|i: int, j: int| 0 <= i < j < fs.len() ==> (#[trigger] fs[i]).0@ != (#[trigger] fs[j]).0@
}

//@ extract src/convert/yaml.rs :: struct YamlConverter
//@   rule R0
//@ end

// `for (key, value) in m {` is rewritten to the equivalent indexed `while` (same entries, same order): Verus' `for`
// does not support `continue`.
//@ extract src/convert/yaml.rs :: impl YamlConverter :: fn merge_mapping_keys
//@   rule R1
//@   subst "Box<dyn Error>>" => "VBoxDynError>"
//@   subst "for (key, value) in m {" => "let mut i__: usize = 0; while i__ < m.len() { let (key, value) = m.entry_at(i__); i__ += 1;"
//@   mutant key_replaced_by_value "fs.push((key," => "fs.push((match value { serde_yaml::Value::String(s) => s.clone(), _ => key }," expect merge_mapping_keys
//@   mutant error_swallowed_into_null "fs.push((key, Rc::new(self.convert_yaml_val(value)?)));" => "fs.push((key, Rc::new(match self.convert_yaml_val(value) { Ok(x) => x, Err(_) => Val::Empty })));" expect merge_mapping_keys
//@   mutant member_skipped "if key == \"<<\"" => "if key == \"<<\" || key == \"a\"" expect merge_mapping_keys
//@   ret r
//@   sig <<<
        ensures
            plain_keys(m@) && (forall|k: int| 0 <= k < m@.len() ==> yaml_plain((#[trigger] m@[k]).1)) ==> (
                (all_representable(m@) ==> r is Ok && merged(old(fs)@, final(fs)@, m@, m@.len() as int))
                && (!all_representable(m@) ==> r is Err)),
        decreases *m, 0int
//@   >>>
//@   loop 1 <<<
            invariant
                0 <= i__ <= m@.len(),
                plain_keys(m@) && (forall|k: int| 0 <= k < m@.len() ==> yaml_plain((#[trigger] m@[k]).1)) ==> merged(old(fs)@, fs@, m@, i__ as int),
            decreases m@.len() - i__
//@   >>>
//@ end

//@ extract src/convert/yaml.rs :: impl YamlConverter :: fn convert_yaml_val
//@   rule R1
//@   subst "Box<dyn Error>>" => "VBoxDynError>"
//@   mutant int_through_f64 "Val::Int(i)" => "Val::Float(verif_i64_as_f64(i))" expect convert_yaml_val
//@   mutant big_u64_to_float "n.is_u64()" => "false" expect convert_yaml_val
//@   mutant seq_last_dropped "Val::List(vs)" => "{ vs.pop(); Val::List(vs) }" expect convert_yaml_val
//@   mutant null_to_empty_string "serde_yaml::Value::Null => Val::Empty" => "serde_yaml::Value::Null => Val::Str(String::new().into())" expect convert_yaml_val
//@   mutant mapping_order_changed "Val::Tuple(collapsed)" => "{ if collapsed.len() > 1 { let x = collapsed.remove(0); collapsed.push(x); } Val::Tuple(collapsed) }" expect convert_yaml_val
//@   ret r
//@   sig <<<
        ensures yaml_plain(*v) ==> unmap_post(yview(*v), r)
        decreases *v, 1int
//@   >>>
//@   loop 1 iter it <<<
                    invariant
                        *v is Sequence && (*v)->Sequence_0 == *l,
                        it.seq().len() == l@.len(),
                        forall|k: int| 0 <= k < l@.len() ==> *(#[trigger] it.seq()[k]) == l@[k],
                        yaml_plain(*v) ==> seq_inv(vs, *l, it.index@),
//@   >>>
//@   before "fs.reverse();" <<<
                let ghost ff = fs@;
//@   >>>
//@   after "fs.reverse();" <<<
                let ghost rr = fs@;
                proof {
                    if yaml_plain(*v) {
                        let n = m@.len() as int;
                        assert(ff.len() == n && rr.len() == n);
                        assert forall|i: int, j: int| 0 <= i < j < rr.len() implies (#[trigger] rr[i]).0@ != (#[trigger] rr[j]).0@ by {
                            assert(rr[i] == ff[n - 1 - i] && rr[j] == ff[n - 1 - j]);
                            assert(ff[n - 1 - i].0@ == key_text(m@[n - 1 - i].0));
                            assert(ff[n - 1 - j].0@ == key_text(m@[n - 1 - j].0));
                        }
                    }
                }
//@   >>>
//@   before "vs.push(Rc::new" <<<
                    proof { assert(yview(*v)->List_0[it.index@] == yview(*aval)); }
//@   >>>
//@   after_loop 1 <<<
                proof {
                    if yaml_plain(*v) {
                        assert(yview(*v)->List_0.len() == vs@.len());
                        assert(data(Val::List(vs))->List_0 =~= yview(*v)->List_0);
                    }
                }
//@   >>>
//@   before "self.merge_mapping_keys(&mut fs, m)?" <<<
                proof {
                    if representable(yview(*v)) {
                        assert forall|k: int| 0 <= k < m@.len() implies representable(yview((#[trigger] m@[k]).1)) by {
                            assert(yview(*v)->Obj_0[k].1 == yview(m@[k].1));
                        }
                    }
                }
//@   >>>
//@   before "collapsed.reverse();" <<<
                let ghost cc = collapsed@;
//@   >>>
//@   after "collapsed.reverse();" <<<
                proof {
                    if yaml_plain(*v) {
                        let n = m@.len() as int;
                        assert(ff.len() == n && rr.len() == n && cc.len() == n);
                        assert forall|k: int| 0 <= k < n implies (#[trigger] collapsed@[k]).0@ == key_text(m@[k].0) && data(*collapsed@[k].1) == yview(m@[k].1) by {
                            assert(collapsed@[k] == cc[n - 1 - k]);
                            assert(rr[n - 1 - k] == ff[k]);
                        }
                        assert(yview(*v)->Obj_0.len() == n);
                        assert(data(Val::Tuple(collapsed))->Obj_0 =~= yview(*v)->Obj_0);
                        assert forall|k: int| 0 <= k < n implies representable((#[trigger] yview(*v)->Obj_0[k]).1) by {
                            assert(representable(yview(m@[k].1)));
                        }
                    }
                }
//@   >>>
//@   loop 2 iter it <<<
                    invariant
                        it.seq() == rr,
                        distinct_names(rr) ==> dedupe_inv(collapsed, seen_keys, rr, it.index@),
//@   >>>
//@ end

// The importer: parse, then map. A document the parser rejects is an error; otherwise (on the property's YAML
// subset) the verdict of the mapper on exactly the parsed value.
//@ extract src/convert/yaml.rs :: impl Importer for YamlConverter :: fn import
//@   impl_header impl YamlConverter
//@   mutant parse_error_swallowed "serde_yaml::from_slice(bytes)?" => "match serde_yaml::from_slice(bytes) { Ok(v) => v, Err(_) => serde_yaml::Value::Null }" expect import
//@   ret r
//@   sig <<<
        ensures match yaml_parse(bytes@) {
            None => r is Err,
            Some(doc) => yaml_plain(doc) ==> match r { Ok(val) => unmap_post(yview(doc), Ok::<Val, VBoxDynError>(*val)), Err(e) => unmap_post(yview(doc), Err::<Val, VBoxDynError>(e)) },
        }
//@   >>>
//@ end

} // verus!

fn main() {}
