// ---- prelude/vm_types.rs: value types of the opcode VM with OpPointer opaque ----
//@ opaque OpPointer
//@ include prelude/vm_values.rs
