"""Bounded stand-ins for the thorough tier (DESIGN §2.4c): finite enumerations run against the real code.
Labelled bounded in the evidence; never counted in obligations/discharged."""
import os
import sys

sys.path.insert(0, os.path.join(os.path.dirname(os.path.dirname(os.path.abspath(__file__))), 'replay'))


def for_property(pid, tier):
    if os.environ.get('VERIF_NO_STANDINS'):
        return None
    try:
        import search
    except Exception as e:
        print('NOTE: bounded stand-ins unavailable (%r); deductive checks only' % (e,))
        return None
    fns = []
    for g in search.STANDINS.get(pid, []):
        def make(gen):
            def run(pid_, tier_, seed_):
                try:
                    return gen(tier_, seed_)
                except Exception as e:  # a stand-in that cannot run (e.g. build failure) never raises an alarm
                    return dict(name=gen.__name__.replace('standin_', ''), status='error', detail=repr(e)[:500])
            run.__name__ = gen.__name__
            return run
        fns.append(make(g))
    return fns
