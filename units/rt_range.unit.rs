//@ unit rt_range
//@ serves C01 C04
//@ must_verify Builtins::range lemma_range_seq_bound
//@ include prelude/head.rs
use std::rc::Rc;

verus! {
//@ include prelude/core.rs
//@ include prelude/vm_types.rs

// ---------- oracle: `start:step:end` is the inclusive arithmetic progression ----------
pub open spec fn range_seq(start: int, step: int, end: int) -> Seq<int>
    decreases (if end >= start { end - start + 1 } else { 0 })
    when step > 0
{
    if start > end { Seq::<int>::empty() } else { seq![start] + range_seq(start + step, step, end) }
}

// every element of the progression lies in [start, end]
proof fn lemma_range_seq_bound(start: int, step: int, end: int)
    requires step > 0
    ensures forall|i: int| 0 <= i < range_seq(start, step, end).len() ==> start <= #[trigger] range_seq(start, step, end)[i] <= end
    decreases (if end >= start { end - start + 1 } else { 0 })
{
    if start <= end {
        lemma_range_seq_bound(start + step, step, end);
        let rest = range_seq(start + step, step, end);
        assert forall|i: int| 0 <= i < range_seq(start, step, end).len() implies start <= #[trigger] range_seq(start, step, end)[i] <= end by {
            if i > 0 { assert(range_seq(start, step, end)[i] == rest[i - 1]); }
        }
    }
}

pub open spec fn int_of(v: Value) -> Option<i64> { match v { P(Int(i)) => Some(i), _ => None } }

// the list value holds exactly the integers of `xs`, in order, one position per element
pub open spec fn is_int_list(v: Value, xs: Seq<int>) -> bool {
    v matches C(List(elems, pos_list))
    && elems@.len() == xs.len() && pos_list@.len() == xs.len()
    && forall|i: int| 0 <= i < xs.len() ==> *(#[trigger] elems@[i]) == P(Int(xs[i] as i64))
}

//@ extract src/build/opcode/runtime.rs :: impl Builtins :: fn range
//@   rule R1 R3(start,step,end)
//@   subst "\"Ranges can only be created with Ints\".to_string().into()" => "verif_msg()"
//@   subst "let mut elems = Vec::new();" => "let mut elems: Vec<Rc<Value>> = Vec::new();"
//@   subst "let mut pos_list = Vec::new();" => "let mut pos_list: Vec<Position> = Vec::new();"
//@   ret r
//@   sig <<<
        // translator invariant (caller obligation): start, step, end were pushed
        requires old(stack)@.len() >= 3
        ensures ({
            let n = old(stack)@.len() as int;
            let start = *old(stack)@[n - 1].0; let step_v = *old(stack)@[n - 2].0; let end = *old(stack)@[n - 3].0;
            // an omitted step (NULL) means 1
            let step = if step_v == P(Empty) { Some(1i64) } else { int_of(step_v) };
            if int_of(start) is Some && step is Some && int_of(end) is Some {
                if step->0 <= 0 { r is Err }
                else {
                    &&& r is Ok
                    &&& final(stack)@.len() == n - 2
                    &&& final(stack)@.subrange(0, n - 3) =~= old(stack)@.subrange(0, n - 3)
                    &&& is_int_list(*final(stack)@[n - 3].0, range_seq(int_of(start)->0 as int, step->0 as int, int_of(end)->0 as int))
                }
            } else { r is Err }
        })
//@   >>>
//@   before "let mut num = start;" <<<
                let ghost done: Seq<int> = Seq::empty();
                let ghost s0 = start as int; let ghost st = step as int; let ghost e0 = end as int;
                proof { lemma_range_seq_bound(s0, st, e0); }
//@   >>>
//@   loop 1 <<<
                    invariant_except_break
                        done + range_seq(num as int, st, e0) =~= range_seq(s0, st, e0),
                    invariant
                        st > 0, st == step, e0 == end, s0 <= num,
                        elems@.len() == done.len(), pos_list@.len() == done.len(),
                        forall|i: int| 0 <= i < done.len() ==> *(#[trigger] elems@[i]) == P(Int(done[i] as i64)),
                    ensures
                        done =~= range_seq(s0, st, e0),
                    decreases (if e0 >= num { e0 - num + 1 } else { 0 })
//@   >>>
//@   after "pos_list.push(pos.clone());" <<<
                    proof {
                        done = done.push(num as int);
                        // unfold one step of the progression
                        assert(range_seq(num as int, st, e0) =~= seq![num as int] + range_seq(num + st, st, e0));
                        if num + st > i64::MAX { assert(range_seq(num + st, st, e0) =~= Seq::<int>::empty()); }
                    }
//@   >>>
//@   mutant range_exclusive "if num > end {" => "if num >= end {" expect range
//@   mutant range_step_ignored "num.checked_add(step)" => "num.checked_add(1)" expect range
//@   mutant range_zero_step_ok "if step <= 0 {" => "if step < 0 {" expect range
//@ end

} // verus!

fn main() {}
