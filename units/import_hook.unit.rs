//@ unit import_hook
//@ serves C09
//@ must_verify Builtins::import Environment::get_cached_path_val Environment::update_path_val VM::with_pointer VM::with_import_stack Builtins::new verif_any lemma_equivalent_spellings_share_one_value lemma_hit_never_evaluates lemma_cycle_is_an_error lemma_child_sees_itself_on_the_import_stack
// C09 — the `import` hook: `Builtins::import` (opcode/runtime.rs) with `Environment::{get_cached_path_val,
// update_path_val}` (opcode/environment.rs), `VM::{with_pointer, with_import_stack}` (opcode/vm.rs),
// `Builtins::new`, `decorate_error!` — all extracted.
//
// Model (prelude/import_hook_world.rs + below, all trusted):
//   * R11: `&RefCell<Environment>` -> `&mut Environment` (`borrow()`/`borrow_mut()` -> identity).
//   * R12: the evaluations the hook starts are the ghost log `world.runs` (one RunRec per call of VM::run: compiled
//     file, working directory, import stack of the child VM). VM::run itself (the interpreter loop, which re-enters
//     this hook for the imports of the evaluated file) is an ASSUMED stub: it logs its call and may do anything
//     to the shared environment and to the child VM.
//   * `PathBuf` is its text; `crate::path::normalize` (src/path.rs, a fold over std's `components()`) and
//     `Path::parent` are UNINTERPRETED functions of the text. What "equivalent spelling" means is therefore NOT
//     decided here: two spellings are equivalent iff `spec_normalize` maps them to the same text.
//   * `Environment::get_ops_for_path` (read + parse + type check + translate, cached per path) is an ASSUMED stub:
//     an uninterpreted partial function `loaded_ops(env, path text)`; it does not touch the value cache.
//
// Contract (import_post), from the property statement:
//   (a) the value cache is read AND written under ONE key, `spec_normalize(raw path)`:
//       hit  => the cached value is pushed, NO evaluation (world.runs unchanged), environment and import stack unchanged;
//       miss => the compiled file of the KEY is evaluated exactly once, in the key's parent directory, and on
//               success the cache maps the key to exactly the value pushed (same Rc);
//   (b) key already on the import stack (and not cached) => Err, no evaluation, nothing changed;
//   (c) the import stack as the code has it: the parent's stack gets the key appended AFTER a successful evaluation
//       (never on a hit, never popped - every child VM works on its own clone); the CHILD VM's stack is the parent's
//       stack + the key, i.e. the file is on the import stack while it is being evaluated;
//   operand popped, result pushed in its place, everything below untouched; on every failure: operand popped only.
//   (Position of the pushed value, as the code has it: the path operand's position on a hit, the hook's position
//   after an evaluation. The second cache lookup of the code is dead under R11 and is proved to change nothing.)
//
// Genuine defect found with clause (c) on the pinned tree (fixed by /scratch/patches/import_hook.patch; the unit is
// written against the FIXED text, the pinned behaviour is the seeded mutant `child_stack_without_self`): the child VM
// got a plain clone of the parent's import stack, and a path is pushed only after its import has finished, so a file
// still being evaluated was never on any stack: `a2.ucg: let bx = (import "b2.ucg").y;` / `b2.ucg: let ax =
// (import "a2.ucg").x;` recursed until the process died of stack overflow (exit 134). Only `let x = import "..";`
// cycles were reported, by the type checker's separate static check.
//@ include prelude/head.rs
use std::rc::Rc;

verus! {
//@ include prelude/core.rs
//@ opaque Position OpPointer Stack Func Module ConstraintVal ReservedWords Shape ConverterRegistry ImporterRegistry AssertCollector Stdout Stderr
//@ clone_spec Position

// opcode::Error is only constructed, decorated and propagated here (R5); message text dropped (R1).
#[verifier::external_body]
pub struct Error { _p: u8 }
impl Error {
    #[verifier::external_body]
    pub fn new(msg: String, pos: Position) -> Self { unimplemented!() }
    #[verifier::external_body]
    pub fn with_pos(self, pos: Position) -> Self { unimplemented!() }
}
//@ extract src/build/opcode/mod.rs :: enum Primitive
//@   rule R0
//@ end
//@ extract src/build/opcode/mod.rs :: enum Composite
//@   rule R0
//@ end
//@ extract src/build/opcode/mod.rs :: enum Value
//@   rule R0
//@ end
use Primitive::{Bool, Empty, Float, Int, Str};
use Composite::{List, Tuple};
use Value::{C, F, K, M, P, S, T};

//@ include prelude/import_hook_world.rs

pub mod cache {
    use super::*;
    #[verifier::external_body]
    pub struct Ops { _p: u8 }
}

// ---------- the shared environment ----------
//@ extract src/build/opcode/environment.rs :: struct Environment
//@   rule R0
//@   subst "Environment<Stdout, Stderr> where Stdout: Write + Clone, Stderr: Write + Clone," => "Environment"
//@ end

// everything but the value cache
pub open spec fn env_frame(a: Environment, b: Environment) -> bool {
    a.shape_cache == b.shape_cache && a.op_cache == b.op_cache && a.converter_registry == b.converter_registry
    && a.importer_registry == b.importer_registry && a.assert_results == b.assert_results && a.stdout == b.stdout
    && a.stderr == b.stderr && a.env_vars == b.env_vars && a.out_lock == b.out_lock
}

//@ extract src/build/opcode/environment.rs :: impl * Environment<Stdout, Stderr> * :: fn get_cached_path_val
//@   impl_header impl Environment
//@   ret r
//@   sig <<<
        ensures match r {
            Some(v) => self.val_cache@.contains_key(path@) && v == self.val_cache@[path@],
            None => !self.val_cache@.contains_key(path@),
        }
//@   >>>
//@   body_start <<<
        broadcast use clax::group_clone_axioms;
//@   >>>
//@   mutant cache_get_always_misses "self.val_cache.get(&path).cloned()" => "None" expect get_cached_path_val
//@ end
//@ extract src/build/opcode/environment.rs :: impl * Environment<Stdout, Stderr> * :: fn update_path_val
//@   impl_header impl Environment
//@   sig <<<
        ensures
            final(self).val_cache@ == old(self).val_cache@.insert(path@, val),
            env_frame(*old(self), *final(self)),
//@   >>>
//@ end

// Environment::get_ops_for_path (R8, outside the unit: file read, parser, type checker, translator, op cache):
// ASSUMED to be a partial function of (environment, path text) that leaves the value cache alone.
pub uninterp spec fn loaded_ops(env: Environment, path: Seq<char>) -> Option<OpPointer>;
impl Environment {
    #[verifier::external_body]
    pub fn get_ops_for_path(&mut self, path: &str) -> (r: Result<OpPointer, Error>)
        ensures
            match loaded_ops(*old(self), path@) { Some(p) => r matches Ok(q) && q == p, None => r is Err },
            final(self).val_cache == old(self).val_cache,
    { unimplemented!() }
}

//@ extract src/build/opcode/error.rs :: macro decorate_error
//@ end

// ---------- the VM the hook creates for the imported file ----------
//@ extract src/build/opcode/runtime.rs :: struct Builtins
//@   rule R0 RV
//@ end
pub mod runtime { pub use super::Builtins; }
//@ extract src/build/opcode/runtime.rs :: impl Builtins :: fn new
//@   rule R0
//@   ret r
//@   sig <<<
        ensures r.strict == strict
//@   >>>
//@ end

//@ extract src/build/opcode/vm.rs :: struct VM
//@   rule R0 RV
//@   subst "reserved_words: &'static BTreeSet<&'static str>" => "reserved_words: ReservedWords"
//@ end

impl Stack {
    #[verifier::external_body]
    pub fn new() -> Self { unimplemented!() }
}
#[verifier::external_body]
fn reserved_words() -> ReservedWords { unimplemented!() }

//@ extract src/build/opcode/vm.rs :: impl VM :: fn with_pointer
//@   subst "<P: Into<PathBuf>>" => "<P: vinto::VIntoPathBuf>"
//@   ret r
//@   sig <<<
        ensures r.ops == ops, r.working_dir@ == working_dir.pview(), r.import_stack@ =~= Seq::<Rc<str>>::empty(),
            r.runtime.strict == strict,
//@   >>>
//@ end
//@ extract src/build/opcode/vm.rs :: impl VM :: fn with_import_stack
//@   rule R4
//@   ret r
//@   sig <<<
        ensures r.import_stack == imports, r.ops == self.ops, r.working_dir == self.working_dir, r.runtime == self.runtime,
//@   >>>
//@ end

// the tuple of the evaluated file's bindings (VM::symbols_to_tuple, R8): a function of the VM's final state
pub uninterp spec fn spec_symbols_tuple(vm: VM, include_mod: bool) -> Value;

impl VM {
    // VM::run (R8: the whole interpreter loop; it re-enters the import hook for the file's own imports).
    // ASSUMED: nothing but "this call is ONE evaluation": it is logged with the compiled file, the working
    // directory and the import stack the VM was given. The environment and the VM are unconstrained afterwards.
    #[verifier::external_body]
    pub fn run(&mut self, env: &mut Environment, world: &mut World) -> (r: Result<(), Error>)
        ensures final(world).runs@ == old(world).runs@.push(RunRec {
            ops: old(self).ops, working_dir: old(self).working_dir@, import_stack: texts(old(self).import_stack@),
        })
    { unimplemented!() }

    #[verifier::external_body]
    pub fn symbols_to_tuple(&self, include_mod: bool) -> (r: Value)
        ensures r == spec_symbols_tuple(*self, include_mod)
    { unimplemented!() }
}

// ---------- the contract, from the property statement ----------
// the ONE key under which the value of an import is cached and cycles are detected
pub open spec fn key_of(raw: Seq<char>) -> Seq<char> { spec_normalize(raw) }

pub open spec fn on_stack(istack: Seq<Rc<str>>, key: Seq<char>) -> bool {
    exists|k: int| 0 <= k < istack.len() && (#[trigger] istack[k])@ == key
}

// exactly one evaluation was started: of `ops`, in directory `dir`, by a VM whose import stack is `st`
pub open spec fn one_more_run(w0: World, w1: World, ops: OpPointer, dir: Seq<char>, st: Seq<Seq<char>>) -> bool {
    &&& w1.runs@.len() == w0.runs@.len() + 1
    &&& w1.runs@.take(w0.runs@.len() as int) =~= w0.runs@
    &&& w1.runs@.last().ops == ops
    &&& w1.runs@.last().working_dir =~= dir
    &&& w1.runs@.last().import_stack =~= st
}

pub open spec fn import_post(
    stack0: Seq<(Rc<Value>, Position)>, stack1: Seq<(Rc<Value>, Position)>,
    env0: Environment, env1: Environment, istack0: Seq<Rc<str>>, istack1: Seq<Rc<str>>,
    world0: World, world1: World, pos: Position, r: Result<(), Error>,
) -> bool {
    let n = stack0.len() as int;
    let below = stack0.take(n - 1);
    let nothing_else = env1 == env0 && world1.runs@ == world0.runs@ && istack1 == istack0;
    match *stack0[n - 1].0 {
        P(Str(raw)) => {
            let key = key_of(raw@);
            if env0.val_cache@.contains_key(key) {
                // HIT: one and the same value, no evaluation
                r is Ok && stack1 =~= below.push((env0.val_cache@[key], stack0[n - 1].1)) && nothing_else
            } else if on_stack(istack0, key) {
                // CYCLE: the key names a file whose import is in progress / done along this chain
                r is Err && stack1 =~= below && nothing_else
            } else {
                match (loaded_ops(env0, key), spec_parent(key)) {
                    (Some(ops), Some(dir)) => {
                        // MISS: exactly one evaluation: of the file the KEY names, in the key's directory, with the
                        // key on the import stack of the evaluating VM
                        &&& one_more_run(world0, world1, ops, dir, texts(istack0).push(key))
                        &&& match r {
                            Ok(_) => {
                                // the cache now maps the key to exactly the value pushed
                                &&& stack1.len() == n && stack1.take(n - 1) =~= below && stack1[n - 1].1 == pos
                                &&& env1.val_cache@.contains_key(key) && env1.val_cache@[key] == stack1[n - 1].0
                                // the parent's import stack records the finished import
                                &&& texts(istack1) =~= texts(istack0).push(key)
                            },
                            Err(_) => stack1 =~= below && istack1 == istack0,
                        }
                    },
                    // the file cannot be compiled / the path has no parent directory: an error, no evaluation
                    _ => r is Err && stack1 =~= below && world1.runs@ == world0.runs@ && istack1 == istack0
                        && env1.val_cache == env0.val_cache,
                }
            }
        },
        // the operand is not a string
        _ => r is Err && stack1 =~= below && nothing_else,
    }
}

//@ extract src/build/opcode/runtime.rs :: impl Builtins :: fn import
//@   rule R1 R3
//@   subst "import<O, E>" => "import"
//@   subst "env: &RefCell<Environment<O, E>>," => "env: &mut Environment, world: &mut World,"
//@   subst "where O: std::io::Write + Clone, E: std::io::Write + Clone," => ""
//@   subst "env.borrow()" => "env"
//@   subst all "env.borrow_mut()" => "env"
//@   subst "vm.run(env)" => "vm.run(env, world)"
//@   subst "normalized.to_string_lossy().into()" => "verif_path_to_rcstr(&normalized)"
// R9': `.iter().any(closure)` -> the verified loop model; the closure body `p.as_ref() == path.as_ref()` is string equality
//@   subst "import_stack .iter() .any(|p| p.as_ref() == path.as_ref())" => "verif_any(import_stack.as_slice(), |p: &Rc<str>| -> (b: bool) ensures b == (p@ == path@) { verif_rcstr_eq(p, &path) })"
// Seeded mutants (the task's list; "import stack not popped" has no counterpart - the code never pops, every child
// works on a clone - its place is taken by the two import-stack mutants below):
//@   mutant cache_updated_under_raw_path ".update_path_val(path.clone(), result.clone())" => ".update_path_val(raw_path.clone(), result.clone())" expect import
//@   mutant cache_looked_up_under_raw_path "if let Some(val) = env.borrow().get_cached_path_val(path.clone())" => "if let Some(val) = env.borrow().get_cached_path_val(raw_path.clone())" expect import
//@   mutant file_loaded_under_raw_path "get_ops_for_path(path.as_ref())" => "get_ops_for_path(raw_path.as_ref())" expect import
//@   mutant cycle_check_after_evaluation "if import_stack .iter() .any(|p| p.as_ref() == path.as_ref()) { return Err(Error::new( format!(\"Import cycle detected: {} in {:?}\", path, import_stack).into(), pos, )); } let val = { env.borrow_mut().get_cached_path_val(path.clone()) }; match val { Some(v) => { stack.push((v, path_pos)); } None => { let op_pointer = decorate_error!(path_pos => env.borrow_mut().get_ops_for_path(path.as_ref()))?; let base_path = normalized.parent().ok_or_else(|| { Error::new( format!(\"No parent directory for import path: {}\", path).into(), pos.clone(), ) })?; let mut in_progress = import_stack.clone(); in_progress.push(path.clone()); let mut vm = VM::with_pointer(self.strict, op_pointer, base_path) .with_import_stack(in_progress); vm.run(env)?;" => "let val = { env.borrow_mut().get_cached_path_val(path.clone()) }; match val { Some(v) => { stack.push((v, path_pos)); } None => { let op_pointer = decorate_error!(path_pos => env.borrow_mut().get_ops_for_path(path.as_ref()))?; let base_path = normalized.parent().ok_or_else(|| { Error::new( format!(\"No parent directory for import path: {}\", path).into(), pos.clone(), ) })?; let mut in_progress = import_stack.clone(); in_progress.push(path.clone()); let mut vm = VM::with_pointer(self.strict, op_pointer, base_path) .with_import_stack(in_progress); vm.run(env)?; if import_stack .iter() .any(|p| p.as_ref() == path.as_ref()) { return Err(Error::new( format!(\"Import cycle detected: {} in {:?}\", path, import_stack).into(), pos, )); }" expect import
//@   mutant child_stack_without_self "in_progress.push(path.clone());" => "" expect import
//@   mutant import_stack_not_extended "import_stack.push(path.clone());" => "" expect import
//@   mutant first_lookup_dropped "if let Some(val) = env.borrow().get_cached_path_val(path.clone())" => "if let Some(val) = (if true { None } else { env.borrow().get_cached_path_val(path.clone()) })" expect import
//@   mutant cycle_check_without_effect "return Err(Error::new( format!(\"Import cycle detected: {} in {:?}\", path, import_stack).into(), pos, ));" => "" expect import
//@   ret r
//@   sig <<<
        requires
            // the translator pushes the path before Hook::Import (else: panic!, see C04)
            old(stack)@.len() >= 1,
        ensures
            import_post(old(stack)@, final(stack)@, *old(env), *final(env), old(import_stack)@, final(import_stack)@,
                *old(world), *final(world), pos, r),
            *final(self) == *old(self),
//@   >>>
//@   body_start <<<
        broadcast use clax::group_clone_axioms;
//@   >>>
//@ end

// ---------- the property's clauses, read off the contract ----------
// "Importing the same file ... under any equivalent spelling of its path, yields one and the same value and
// evaluates the file once": two imports whose raw paths normalise to the same key, the second one issued in any
// state in which the first one's cache entry is still there - the second pushes the very value the first pushed
// and evaluates nothing.
pub proof fn lemma_equivalent_spellings_share_one_value(
    sa0: Seq<(Rc<Value>, Position)>, sa1: Seq<(Rc<Value>, Position)>, ea0: Environment, ea1: Environment,
    ia0: Seq<Rc<str>>, ia1: Seq<Rc<str>>, wa0: World, wa1: World, pa: Position, rawa: Rc<str>,
    sb0: Seq<(Rc<Value>, Position)>, sb1: Seq<(Rc<Value>, Position)>, eb0: Environment, eb1: Environment,
    ib0: Seq<Rc<str>>, ib1: Seq<Rc<str>>, wb0: World, wb1: World, pb: Position, rb: Result<(), Error>, rawb: Rc<str>,
)
    requires
        sa0.len() >= 1, *sa0.last().0 == P(Str(rawa)), sb0.len() >= 1, *sb0.last().0 == P(Str(rawb)),
        // two spellings of one file
        spec_normalize(rawa@) == spec_normalize(rawb@),
        // the first import succeeded ...
        import_post(sa0, sa1, ea0, ea1, ia0, ia1, wa0, wa1, pa, Ok(())),
        // ... and the second happens while its cache entry is still what the first left
        eb0.val_cache@.contains_key(key_of(rawa@)), eb0.val_cache@[key_of(rawa@)] == ea1.val_cache@[key_of(rawa@)],
        import_post(sb0, sb1, eb0, eb1, ib0, ib1, wb0, wb1, pb, rb),
    ensures
        rb is Ok,
        sb1.last().0 == sa1.last().0,          // one and the same value (the same Rc)
        wb1.runs@ == wb0.runs@,                // no second evaluation
{
    let n = sa0.len() as int;
    assert(sa0[n - 1] == sa0.last());
    assert(sb0[sb0.len() - 1] == sb0.last());
    let key = key_of(rawa@);
    if ea0.val_cache@.contains_key(key) {
        assert(ea1 == ea0);
    }
}

// "cache hit => the cached value is pushed and NO evaluation happens"
pub proof fn lemma_hit_never_evaluates(
    s0: Seq<(Rc<Value>, Position)>, s1: Seq<(Rc<Value>, Position)>, e0: Environment, e1: Environment,
    i0: Seq<Rc<str>>, i1: Seq<Rc<str>>, w0: World, w1: World, pos: Position, r: Result<(), Error>, raw: Rc<str>,
)
    requires
        s0.len() >= 1, *s0.last().0 == P(Str(raw)), e0.val_cache@.contains_key(spec_normalize(raw@)),
        import_post(s0, s1, e0, e1, i0, i1, w0, w1, pos, r),
    ensures
        r is Ok, w1.runs@ == w0.runs@, s1.last().0 == e0.val_cache@[spec_normalize(raw@)], e1 == e0,
{
    assert(s0[s0.len() - 1] == s0.last());
}

// "A chain of imports that leads back to a file still being imported ends the build with an import-cycle
// diagnostic instead of recursing": the key is on the import stack (and, being unfinished, not in the cache).
pub proof fn lemma_cycle_is_an_error(
    s0: Seq<(Rc<Value>, Position)>, s1: Seq<(Rc<Value>, Position)>, e0: Environment, e1: Environment,
    i0: Seq<Rc<str>>, i1: Seq<Rc<str>>, w0: World, w1: World, pos: Position, r: Result<(), Error>, raw: Rc<str>, k: int,
)
    requires
        s0.len() >= 1, *s0.last().0 == P(Str(raw)), !e0.val_cache@.contains_key(spec_normalize(raw@)),
        0 <= k < i0.len(), i0[k]@ == spec_normalize(raw@),
        import_post(s0, s1, e0, e1, i0, i1, w0, w1, pos, r),
    ensures
        r is Err, w1.runs@ == w0.runs@,
{
    assert(s0[s0.len() - 1] == s0.last());
    assert(on_stack(i0, key_of(raw@)));
}

// ... and that premise is what the hook itself establishes for the files it evaluates: the VM evaluating an imported
// file has that file's key on its import stack (so an import chain leading back to it meets lemma_cycle_is_an_error).
pub proof fn lemma_child_sees_itself_on_the_import_stack(
    s0: Seq<(Rc<Value>, Position)>, s1: Seq<(Rc<Value>, Position)>, e0: Environment, e1: Environment,
    i0: Seq<Rc<str>>, i1: Seq<Rc<str>>, w0: World, w1: World, pos: Position, r: Result<(), Error>, raw: Rc<str>,
)
    requires
        s0.len() >= 1, *s0.last().0 == P(Str(raw)),
        import_post(s0, s1, e0, e1, i0, i1, w0, w1, pos, r),
        w1.runs@ != w0.runs@,
    ensures
        w1.runs@.len() == w0.runs@.len() + 1,
        w1.runs@.last().import_stack.contains(spec_normalize(raw@)),
        // and everything the parent had on its stack is inherited
        forall|k: int| 0 <= k < i0.len() ==> w1.runs@.last().import_stack.contains(#[trigger] i0[k]@),
{
    assert(s0[s0.len() - 1] == s0.last());
    let key = key_of(raw@);
    let st = texts(i0).push(key);
    assert(st[st.len() - 1] == key);
    assert forall|k: int| 0 <= k < i0.len() implies st.contains(#[trigger] i0[k]@) by {
        assert(st[k] == i0[k]@);
    }
}

} // verus!

fn main() {}
