// ---- prelude/printer_indent_dispatch.rs: NOT ucg code. The hand-written case split of the render_expr proof (see
// units/printer_indent.unit.rs): which of the four verified copies of the real function handles which kind of
// expression. It is pulled into the unit with `//@ extract /verif/prelude/printer_indent_dispatch.rs :: ..` (not
// included) for one reason: the contract of `render_expr` is spliced onto it like onto any extracted function, so the
// runner's vacuity canary (`assert(false)` behind the precondition) is planted in the function that carries the name
// and the precondition of render_expr. It is VERIFIED, not assumed. ----
impl<'a, W> AstPrinter<'a, W>
where
    W: Write,
{
    pub fn render_expr(&mut self, expr: &Expression) -> std::io::Result<()> {
        match expr {
            Expression::Binary(_)
            | Expression::Cast(_)
            | Expression::Call(_)
            | Expression::Copy(_)
            | Expression::Debug(_)
            | Expression::Fail(_)
            | Expression::Convert(_) => self.render_expr__g0(expr),
            Expression::Format(_)
            | Expression::Func(_)
            | Expression::Grouped(_, _)
            | Expression::Import(_)
            | Expression::Include(_) => self.render_expr__g1(expr),
            Expression::FuncOp(_) => self.render_expr__g2(expr),
            _ => self.render_expr__g3(expr),
        }
    }
}
