// ---- prelude/xml_events_model.rs: the part of xml-rs 0.8 that src/convert/xml.rs talks to, as a GHOST EVENT LOG
// (inside verus!) ----
// needs: `use std::rc::Rc;` before verus!, prelude/core.rs, prelude/conv_env_types.rs (Val, VError, ConvertResult)
//
// Everything in this file is a TRUSTED MODEL of a dependency (xml-rs) or of ucg's error type.  What it says:
// xml-rs's `EventWriter` is a machine that is fed a sequence of events and renders them as bytes.  ucg only
// decides WHICH events are fed, in which order, with which names / attributes / namespace declarations / text.
// The model records exactly that: every successful `EventWriter::write(event)` appends the abstract event to the
// ghost log of the sink it was created over.  How an event becomes bytes (well-formedness checks, escaping of
// `< > & ' "`, indentation, `<a></a>` vs `<a/>`, the encoding default "UTF-8") is xml-rs's job and NOT modelled.

// `xml::common::XmlVersion`: the real enum.
//@ extract dep:xml-rs/src/common.rs :: enum XmlVersion
//@   rule R0
//@ end

// One abstract event.  Names and texts are the character sequences ucg handed over (xml-rs splits a name
// `prefix:local` itself; it receives the text as written in the document tuple).
pub enum Ev {
    StartDocument { version: XmlVersion, encoding: Option<Seq<char>>, standalone: Option<bool> },
    // attrs: (name, value) in the order of the `.attr()` calls; ns: (prefix, uri) declarations, the default
    // namespace has the empty prefix (xml-rs: `default_ns(u)` is `ns(NS_NO_PREFIX = "", u)`)
    StartElement { name: Seq<char>, attrs: Seq<(Seq<char>, Seq<char>)>, ns: Seq<(Seq<char>, Seq<char>)> },
    Characters(Seq<char>),
    EndElement,
}

// ---------- xml::writer::events ----------
// `XmlEvent<'a>`: only the variants / constructors xml.rs uses (it never builds ProcessingInstruction, CData,
// Comment, or StartElement / EndElement directly - those two come from the builders below).
pub enum XmlEvent<'a> {
    StartDocument { version: XmlVersion, encoding: Option<&'a str>, standalone: Option<bool> },
    Characters(&'a str),
}

// `StartElementBuilder`: name + Vec<Attribute> (pushed in call order) + Namespace (a map prefix -> uri;
// `put` keeps the FIRST uri given for a prefix - xml.rs declares at most one per element).
pub struct StartElementBuilder {
    pub b_name: Ghost<Seq<char>>,
    pub b_attrs: Ghost<Seq<(Seq<char>, Seq<char>)>>,
    pub b_ns: Ghost<Seq<(Seq<char>, Seq<char>)>>,
}
pub struct EndElementBuilder { pub _p: u8 }

impl<'a> XmlEvent<'a> {
    #[verifier::external_body]
    pub fn start_element(name: &str) -> (r: StartElementBuilder)
        ensures r.b_name@ == name@, r.b_attrs@ =~= Seq::<(Seq<char>, Seq<char>)>::empty(), r.b_ns@ =~= Seq::<(Seq<char>, Seq<char>)>::empty()
    { unimplemented!() }

    #[verifier::external_body]
    pub fn end_element() -> (r: EndElementBuilder)
    { unimplemented!() }

    #[verifier::external_body]
    pub fn characters(data: &'a str) -> (r: XmlEvent<'a>)
        ensures r == XmlEvent::Characters(data)
    { unimplemented!() }
}

// ---------- xml::escape ----------
// `escape_str_attribute(s) -> Cow<str>` (xml-rs escape.rs): `<` `>` `"` `'` `&` and \n \r \t become entities.  Which
// entities is xml-rs's business (uninterpreted); the contract pins WHERE the escaped text goes.
pub uninterp spec fn xml_esc_attr(s: Seq<char>) -> Seq<char>;

#[verifier::external_body]
pub fn verif_xml_escape_attr(s: &str) -> (r: String)
    ensures r@ == xml_esc_attr(s@)
{ unimplemented!() }

impl StartElementBuilder {
    #[verifier::external_body]
    pub fn attr(self, name: &str, value: &str) -> (r: StartElementBuilder)
        ensures r.b_name@ == self.b_name@, r.b_attrs@ =~= self.b_attrs@.push((name@, value@)), r.b_ns@ == self.b_ns@
    { unimplemented!() }

    #[verifier::external_body]
    pub fn ns(self, prefix: &str, uri: &str) -> (r: StartElementBuilder)
        ensures r.b_name@ == self.b_name@, r.b_attrs@ == self.b_attrs@, r.b_ns@ =~= self.b_ns@.push((prefix@, uri@))
    { unimplemented!() }

    #[verifier::external_body]
    pub fn default_ns(self, uri: &str) -> (r: StartElementBuilder)
        ensures r.b_name@ == self.b_name@, r.b_attrs@ == self.b_attrs@, r.b_ns@ =~= self.b_ns@.push((Seq::<char>::empty(), uri@))
    { unimplemented!() }
}

// `E: Into<XmlEvent<'a>>`: what `EventWriter::write` accepts, with the abstract event it stands for.
pub trait IntoXmlEvent: Sized {
    spec fn ev(self) -> Ev;
}
pub open spec fn opt_text(o: Option<&str>) -> Option<Seq<char>> {
    match o { Some(s) => Some(s@), None => None }
}
impl<'a> IntoXmlEvent for XmlEvent<'a> {
    open spec fn ev(self) -> Ev {
        match self {
            XmlEvent::StartDocument { version, encoding, standalone } => Ev::StartDocument { version, encoding: opt_text(encoding), standalone },
            XmlEvent::Characters(s) => Ev::Characters(s@),
        }
    }
}
impl IntoXmlEvent for StartElementBuilder {
    open spec fn ev(self) -> Ev {
        Ev::StartElement { name: self.b_name@, attrs: self.b_attrs@, ns: self.b_ns@ }
    }
}
impl IntoXmlEvent for EndElementBuilder {
    open spec fn ev(self) -> Ev { Ev::EndElement }
}

// ---------- the sink and the writer ----------
// `dyn Write` as seen THROUGH xml-rs: `events` are the events delivered so far by EventWriters created over this
// sink (its bytes are xml-rs's rendering of them); `failed`: some `EventWriter::write` reported an error (an I/O
// error of the sink, or xml-rs's emitter refusing the event).
pub struct VDynWrite { pub events: Ghost<Seq<Ev>>, pub failed: Ghost<bool> }

// `EventWriter<W>`: owns its sink W.  xml.rs instantiates W = `&mut dyn Write` (R7: write_node's `W` is
// monomorphised to it).
pub struct EventWriter<W> { pub sink: W }

impl<'a> EventWriter<&'a mut VDynWrite> {
    // ASSUMED about xml-rs: a successful write delivers exactly this event after the earlier ones and nothing
    // else; a failing one sets `failed` and retracts nothing.  The writer keeps writing to the same sink (the
    // prophecy clause: whatever the sink finally holds is what the caller of `create_writer` sees).
    #[verifier::external_body]
    pub fn write<E: IntoXmlEvent>(&mut self, event: E) -> (r: ConvertResult)
        ensures
            *final(final(self).sink) == *final(old(self).sink),
            r is Ok ==> final(self).sink.events@ =~= old(self).sink.events@.push(event.ev()) && final(self).sink.failed@ == old(self).sink.failed@,
            r is Err ==> final(self).sink.failed@ && old(self).sink.events@.is_prefix_of(final(self).sink.events@),
    { unimplemented!() }
}

// `EmitterConfig`: the two settings xml.rs makes only change the rendering (indentation, `<a></a>`): not modelled.
pub struct EmitterConfig { pub _p: u8 }
impl EmitterConfig {
    #[verifier::external_body]
    pub fn new() -> EmitterConfig { unimplemented!() }
    #[verifier::external_body]
    pub fn perform_indent(self, value: bool) -> EmitterConfig { unimplemented!() }
    #[verifier::external_body]
    pub fn normalize_empty_elements(self, value: bool) -> EmitterConfig { unimplemented!() }
    // a writer over the (reborrowed) sink: starts with the sink as it is, and the sink ends as the writer leaves it
    #[verifier::external_body]
    pub fn create_writer<'a>(self, sink: &'a mut VDynWrite) -> (r: EventWriter<&'a mut VDynWrite>)
        ensures *r.sink == *old(sink), *final(r.sink) == *final(sink)
    { unimplemented!() }
}

// ---------- ucg's error type (src/error.rs): only constructed and propagated ----------
//@ extract src/error.rs :: enum ErrorType
//@   rule R0
//@ end
#[verifier::external_body]
pub struct BuildError { _p: u8 }
impl BuildError {
    #[verifier::external_body]
    pub fn new(msg: &str, t: ErrorType) -> BuildError { unimplemented!() }
    // `Box<dyn Error>` is VError (conv_env_types.rs): opaque
    #[verifier::external_body]
    pub fn to_boxed(self) -> VError { unimplemented!() }
}
