// ---- prelude/lsp_loop_std.rs: std pieces the LSP message loop uses that vstd does not specify (inside verus!) ----
// `String == &str` / `String != &str` (`req.method == HoverRequest::METHOD`): equality of the texts.
pub assume_specification<'a> [<String as PartialEq<&'a str>>::eq] (a: &String, b: &&str) -> (r: bool)
    ensures r == (a@ == (*b)@);
pub assume_specification<'a> [<String as PartialEq<&'a str>>::ne] (a: &String, b: &&str) -> (r: bool)
    ensures r == (a@ != (*b)@);
// `Iterator::last` on `vec.into_iter()`: the last of the remaining elements (None when there is none).
// (`vstd::std_specs::iter::IteratorSpec::remaining` is vstd's model of what a `vec::IntoIter` still yields.)
pub assume_specification<T, A: std::alloc::Allocator> [<std::vec::IntoIter<T, A> as std::iter::Iterator>::last] (it: std::vec::IntoIter<T, A>) -> (r: Option<T>)
    ensures r == (if it.remaining().len() == 0 { None::<T> } else { Some(it.remaining().last()) });
