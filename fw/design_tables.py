#!/usr/bin/env python3
"""Regenerate the machine-made tables of DESIGN.md (between <!-- BEGIN:x --> / <!-- END:x --> markers):
units (from units/*.unit.rs + last evidence), seeded changes (from seeded/*/meta.json), fixes (known_findings.txt)."""
import glob, json, os, re, sys
V = os.path.dirname(os.path.dirname(os.path.abspath(__file__)))


def units_table():
    en = set(x.strip() for x in open(os.path.join(V, 'units/enabled.txt')) if x.strip() and not x.startswith('#'))
    ev = {}
    for f in glob.glob(os.path.join(V, 'evidence/C*.json')):
        e = json.load(open(f))
        for u in e['coverage'].get('units', []):
            ev[u['unit']] = u
    rows = ['| unit | serves | real functions under contract (extracted on every run) | Verus fns | seeded mutants | substs / rules |', '|---|---|---|---|---|---|']
    for p in sorted(glob.glob(os.path.join(V, 'units/*.unit.rs'))):
        name = os.path.basename(p)[:-8]
        if name not in en:
            continue
        t = open(p).read()
        # follow includes for extract lines
        def expand(txt, depth=0):
            out = txt
            for inc in re.findall(r'^//@ include (\S+)', txt, re.M):
                try:
                    out += expand(open(os.path.join(V, inc)).read(), depth + 1) if depth < 3 else ''
                except OSError:
                    pass
            return out
        full = expand(t)
        serves = re.search(r'^//@ serves (.*)$', t, re.M).group(1)
        fns = []
        for m in re.finditer(r'^//@ extract (\S+) :: (.*)$', full, re.M):
            spec = m.group(2).strip()
            if ' fn ' in ' ' + spec or spec.startswith('fn ') or 'make_fn' in spec:
                leaf = spec.split(' :: ')
                nm = ' :: '.join(x for x in leaf if x.startswith(('fn ', 'make_fn ', 'arm ')))
                cont = [x for x in leaf if x.startswith('impl')]
                short = (re.sub(r'^impl\s+(\*\s*)?', '', cont[0]).split(' for ')[-1].split('<')[0].strip(' *') + '::' if cont else '') + nm.replace('fn ', '').replace('make_fn ', '')
                src = m.group(1)
                fns.append(short + ('' if not src.startswith('dep:') else ' (dep)'))
        u = ev.get(name, {})
        nf = len(u.get('functions', {}))
        nm_ = len(re.findall(r'^//@\s+mutant ', full, re.M))
        ns = len(re.findall(r'^//@\s+subst', full, re.M))
        rules = sorted(set(re.findall(r'\b(R\d+T?|RV)\b', ' '.join(re.findall(r'^//@\s+rule (.*)$', full, re.M)))))
        seen, uniq = set(), []
        for f in fns:
            if f not in seen:
                seen.add(f); uniq.append(f)
        rows.append('| `%s` | %s | %s | %s | %d | %d substs; %s |' % (name, serves, ', '.join('`%s`' % f for f in uniq), nf or '?', nm_, ns, ' '.join(rules)))
    return '\n'.join(rows)


def seeds_table():
    rows = ['| seed | property | change (function) | needs | quick | thorough | caught by |', '|---|---|---|---|---|---|---|']
    for f in sorted(glob.glob(os.path.join(V, 'seeded/*/meta.json'))):
        m = json.load(open(f))
        sid = os.path.basename(os.path.dirname(f))
        def res(tier):
            outs = []
            by = []
            for k, v in sorted(m.get('checks', {}).items()):
                if k.endswith(tier):
                    outs.append({0: 'MISSED (OK)', 1: 'VIOLATION', 2: 'undecided'}.get(v['rc'], str(v['rc'])))
                    for l in v['lines']:
                        mm = re.search(r'replay=\S*/(\S+?)\.txt', l)
                        if mm and l.startswith('VIOLATION'):
                            by.append(mm.group(1).replace('standin_', 'bounded:').split('__')[0] + ('::' + mm.group(1).split('__')[1] if '__' in mm.group(1) else ''))
            return ', '.join(outs), by
        q, qb = res('quick')
        t, tb = res('thorough')
        by = sorted(set(qb + tb))
        if m.get('note'):
            q = q + ' (obsolete, see note in meta.json)'
        rows.append('| %s | %s | %s (%s) | %s | %s | %s | %s |' % (sid, m.get('property'), m.get('summary', '')[:140].replace('|', '/'), ', '.join(m.get('functions', []))[:80].replace('|', '/'), m.get('needs', '')[:120].replace('|', '/'), q, t, ', '.join(by) or '-'))
    return '\n'.join(rows)


def fixes_table():
    rows = ['| property | commit | obligation / place | what failed |', '|---|---|---|---|']
    for ln in open(os.path.join(V, 'known_findings.txt')):
        m = re.match(r'fixed:\s+property=(\S+)\s+(\S+)\s+(.*)$', ln.strip())
        if m:
            rest = m.group(3)
            ob, _, what = rest.partition(': ')
            rows.append('| %s | `%s` | %s | %s |' % (m.group(1), m.group(2), ob.replace('|', '/'), what.replace('|', '/')))
    for ln in open(os.path.join(V, 'known_findings.txt')):
        m = re.match(r'finding:\s+property=(\S+)\s+(.*)$', ln.strip())
        if m:
            rows.append('| %s | **known finding (not fixed)** | %s | |' % (m.group(1), m.group(2).replace('|', '/')[:500]))
    return '\n'.join(rows)


VERDICT = {
    'C01': 'PARTIAL: VM instruction kernel + dispatch, runtime hooks, translator op structure, both format template parsers + the `@{..}` group scan',
    'C02': '**DECIDED** (token list -> operand list -> tree, every length)',
    'C03': 'PARTIAL: Val -> format value mappers, lowering, out/convert hook',
    'C04': 'PARTIAL: panic-freedom + termination of every extracted function',
    'C05': 'PARTIAL, narrow: literal layer',
    'C06': 'PARTIAL: run-time half + static narrowing kernel (no named-constraint correctness)',
    'C08': 'DECIDED modulo std models',
    'C09': 'PARTIAL, function level: path rewriter + whole AST walker, import hook',
    'C10': 'PARTIAL: symbol-table layer, function/nested scopes',
    'C11': 'PARTIAL: position stepping, literal decoding, every token recogniser, token(), tokenize()',
    'C12': 'PARTIAL, narrow: event sequence handed to xml-rs',
    'C13': 'DECIDED at collector + hook + verdict + directory walk',
    'C14': 'DECIDED at hook level',
    'C15': 'PARTIAL: format value -> Val mappers, include hook',
    'C16': 'PARTIAL, function level: cache coherence (op cache, value cache, shape cache, out locks)',
    'C17': 'PARTIAL, narrow: run-time error position plumbing (handlers, VM::run, VIA call sites, translator pairing)',
    'C18': 'PARTIAL: env tuple, selector miss diagnostics, dispatch',
    'C20': 'PARTIAL, narrow: position kernel',
}


def summary_table():
    sys.path.insert(0, os.path.join(V, 'fw'))
    sys.path.insert(0, os.path.join(V, 'replay'))
    import claims
    try:
        import search
        st = search.STANDINS
    except Exception:
        st = {}
    en = [x.strip() for x in open(os.path.join(V, 'units/enabled.txt')) if x.strip() and not x.startswith('#')]
    serves = {}
    for u in en:
        t = open(os.path.join(V, 'units/%s.unit.rs' % u)).read()
        for pid in re.search(r'^//@ serves (.*)$', t, re.M).group(1).split():
            serves.setdefault(pid, []).append(u)
    rows = ['| id | verdict | units (Verus) | bounded stand-ins (labelled bounded) |', '|---|---|---|---|']
    for i in range(1, 21):
        pid = 'C%02d' % i
        if pid in claims.CLAIMS:
            rows.append('| %s | %s | %s | %s |' % (pid, VERDICT.get(pid, 'PARTIAL'), ', '.join('`%s`' % u for u in serves.get(pid, [])),
                                                  ', '.join(sorted(set(f.__name__.replace('standin_', '') for f in st.get(pid, [])))) or '-'))
        else:
            rows.append('| %s | N/A | - | - |' % pid)
    return '\n'.join(rows)


def counts_block():
    en = [x.strip() for x in open(os.path.join(V, 'units/enabled.txt')) if x.strip() and not x.startswith('#')]
    nm = 0
    for u in en:
        t = open(os.path.join(V, 'units/%s.unit.rs' % u)).read()
        for inc in re.findall(r'^//@ include (\S+)', t, re.M):
            try:
                t += open(os.path.join(V, inc)).read()
            except OSError:
                pass
        nm += len(re.findall(r'^//@\s+mutant ', t, re.M))
    kf = open(os.path.join(V, 'known_findings.txt')).read()
    nfix = len(set(re.findall(r'^fixed:\s+property=\S+\s+(\S+)', kf, re.M)))
    nfind = len(re.findall(r'^finding:', kf, re.M))
    ob = dis = 0
    for f in glob.glob(os.path.join(V, 'evidence/C*.json')):
        e = json.load(open(f))
        ob += e['coverage'].get('obligations', 0) if isinstance(e.get('coverage'), dict) else 0
    seeds = glob.glob(os.path.join(V, 'seeded/*/meta.json'))
    return ('Counts at the time this file was last regenerated: **%d units** enabled, **%d seeded mutants** recorded in them, '
            '**%d `fix:` commits** in `/repo` (each recorded in `known_findings.txt`), **%d known findings** not repaired, '
            '**%d seeded changes** from independent agents kept under `seeded/`.' % (len(en), nm, nfix, nfind, len(seeds)))


def main():
    p = os.path.join(V, 'DESIGN.md')
    s = open(p).read()
    for key, fn in (('units', units_table), ('seeds', seeds_table), ('fixes', fixes_table), ('summary', summary_table), ('counts', counts_block)):
        a, b = '<!-- BEGIN:%s -->' % key, '<!-- END:%s -->' % key
        if a in s and b in s:
            s = s[:s.index(a) + len(a)] + '\n' + fn() + '\n' + s[s.index(b):]
    open(p, 'w').write(s)
    print('DESIGN.md tables regenerated')


if __name__ == '__main__':
    main()
