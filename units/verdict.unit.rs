//@ unit verdict
//@ serves C13
//@ must_verify do_validate build_file FileBuilder::assert_results FileBuilder::assert_summary FileBuilder::set_strict FileBuilder::enable_validate_mode AssertCollector::new AssertCollector::record_assert_result
//@ include prelude/head.rs

// C13, per-file verdict: `do_validate` / `build_file` (main.rs) and the FileBuilder accessors they read the
// collector through (build/mod.rs), verbatim.  `FileBuilder::build` (the whole compiler) is an ASSUMED-contract
// stub: it appends entries to the shared collector, never removes or rewrites them, returns Ok or Err.
// Contract of do_validate, from the property statement: the verdict is PASS iff the build returned Ok and
// every entry recorded DURING THIS CALL is ok -- independent of what earlier files left in the collector --
// and what is printed for the file is exactly this call's entries (one line each) followed by the verdict.
// History: the tree before `fix: ucg test gives every file its own verdict and log` fails exactly the three
// per-file clauses (`tracks`, the verdict, the printed log): the collector in the shared Environment was never
// reset (replay: `ucg test a_test.ucg b_test.ucg`, a failing => b reported Fail and b's log repeats a's lines).
// Not claimed: when the build returns Err the collector's summary is NOT printed (only the error), so
// assertions evaluated before the error appear in no log; `printed_for` says so explicitly.
// R11 is implemented by stand-in methods `VEnv::borrow_mut`/`borrow` (prelude/collector_env.rs), not by text
// rewriting; R12 threads `world: &mut World` through both functions.
verus! {
//@ include prelude/core.rs
//@ include prelude/collector_model.rs
//@ include prelude/collector_env.rs

// ---------- stand-ins for what main.rs only moves around ----------
// `Box<dyn Error>` (R5: dyn Trait is outside Verus): an opaque error value.
#[verifier::external_body]
pub struct VBoxErr { _p: u8 }

// std::path::PathBuf (R5/R8): opaque, identified by a ghost id; the three operations build_file uses are
// uninterpreted functions of their arguments.
pub struct PathBuf { pub id: Ghost<PathId> }
pub uninterp spec fn spec_path_from(s: Seq<char>) -> PathId;
pub uninterp spec fn spec_is_relative(p: PathId) -> bool;
pub uninterp spec fn spec_join(a: PathId, b: PathId) -> PathId;
impl PathBuf {
    #[verifier::external_body]
    pub fn from(s: &str) -> (r: PathBuf) ensures r.id@ == spec_path_from(s@) { unimplemented!() }
    #[verifier::external_body]
    pub fn is_relative(&self) -> (r: bool) ensures r == spec_is_relative(self.id@) { unimplemented!() }
    #[verifier::external_body]
    pub fn join(&self, p: PathBuf) -> (r: PathBuf) ensures r.id@ == spec_join(self.id@, p.id@) { unimplemented!() }
}
// the file `ucg test` builds for the argument `file` when started in directory `cwd`
pub open spec fn resolved(file: Seq<char>, cwd: PathId) -> PathId {
    if spec_is_relative(spec_path_from(file)) { spec_join(cwd, spec_path_from(file)) } else { spec_path_from(file) }
}

// R12: the outside world as far as do_validate/build_file touch it: the lines they print, and the
// current directory.  `println!`/`eprintln!` call sites become one stub each that logs WHICH line was printed
// with which arguments (R1, content-keeping form).
pub enum Out {
    Validating(Seq<char>),   // println!("Validating {}", file)
    Summary(Seq<char>),      // println!("{}", builder.assert_summary())
    FilePass(Seq<char>),     // println!("File {} Pass\n", file)
    FileFail(Seq<char>),     // println!("File {} Fail\n", file)
    ErrMsg,                  // eprintln!("Err: {}", msg)      (message text dropped)
}
pub struct World { pub out: Ghost<Seq<Out>>, pub cwd: Ghost<PathId> }

#[verifier::external_body]
pub fn vprint_validating(world: &mut World, file: &str)
    ensures final(world).out@ == old(world).out@.push(Out::Validating(file@)), final(world).cwd == old(world).cwd
{ }
#[verifier::external_body]
pub fn vprint_summary(world: &mut World, summary: String)
    ensures final(world).out@ == old(world).out@.push(Out::Summary(summary@)), final(world).cwd == old(world).cwd
{ }
#[verifier::external_body]
pub fn vprint_file_pass(world: &mut World, file: &str)
    ensures final(world).out@ == old(world).out@.push(Out::FilePass(file@)), final(world).cwd == old(world).cwd
{ }
#[verifier::external_body]
pub fn vprint_file_fail(world: &mut World, file: &str)
    ensures final(world).out@ == old(world).out@.push(Out::FileFail(file@)), final(world).cwd == old(world).cwd
{ }
#[verifier::external_body]
pub fn veprint_err(world: &mut World, msg: VBoxErr)
    ensures final(world).out@ == old(world).out@.push(Out::ErrMsg), final(world).cwd == old(world).cwd
{ }
// std::env::current_dir() with the io::Error -> Box<dyn Error> conversion of `?` folded in; may fail.
#[verifier::external_body]
pub fn verif_current_dir(world: &World) -> (r: Result<PathBuf, VBoxErr>)
    ensures r matches Ok(p) ==> p.id@ == world.cwd@
{ unimplemented!() }

// ---------- FileBuilder (build/mod.rs) ----------
// R11 stand-in: `environment: &RefCell<Environment>` becomes `&mut VEnv`; the fields the extracted code does
// not look at (working_dir, std, import_path, last, out) are folded into `rest`.
#[verifier::external_body]
pub struct FileBuilderRest { _p: u8 }
pub struct FileBuilder<'a> {
    pub environment: &'a mut VEnv,
    pub strict: bool,
    pub validate_mode: bool,
    pub rest: FileBuilderRest,
}

//@ extract src/build/mod.rs :: type BuildResult
//@   rule R0
//@   subst "Box<dyn Error>>" => "VBoxErr>"
//@ end

// main.rs names these through `use ucglib::build;`
pub mod build {
    pub use super::{AssertCollector, FileBuilder};
}

impl<'a> FileBuilder<'a> {
    // ASSUMED (R8, constructor outside the unit): stores the environment reference, reads and writes nothing
    // of the environment.
    #[verifier::external_body]
    pub fn new(working_dir: PathBuf, import_paths: &'a Vec<PathBuf>, environment: &'a mut VEnv) -> (r: Self)
        ensures
            *r.environment == *old(environment),
            *final(r.environment) == *final(environment),
    { unimplemented!() }

    // ASSUMED contract of the whole build of one file (R8; everything below it -- parser, translator, VM -- is
    // outside this unit): it returns Ok or Err, and whatever it does to the assertion collector it does
    // through the assert hook (unit assert_hook), i.e. it only APPENDS entries: entries recorded earlier
    // are neither removed nor rewritten (`log` grows, `tracks` is preserved -- the reflexive-transitive closure
    // of the hook's proved contract).  The other parts of the environment (caches ...) may change freely.
    #[verifier::external_body]
    pub fn build(&mut self, file: PathBuf) -> (r: BuildResult)
        ensures
            old(self).environment.log@.is_prefix_of(final(self).environment.log@),
            keeps_tracking(*old(self).environment, *final(self).environment),
            final(self).environment.builds@ == old(self).environment.builds@.push((file.id@, r is Ok)),
            *final(final(self).environment) == *final(old(self).environment),
            final(self).strict == old(self).strict, final(self).validate_mode == old(self).validate_mode,
    { unimplemented!() }
}

//@ extract src/build/mod.rs :: impl * FileBuilder<'a, Stdout, Stderr> * :: fn set_strict
//@   impl_header impl<'a> FileBuilder<'a>
//@   sig <<<
        ensures
            final(self).strict == strict, final(self).validate_mode == old(self).validate_mode,
            final(self).environment == old(self).environment,
//@   >>>
//@ end
//@ extract src/build/mod.rs :: impl * FileBuilder<'a, Stdout, Stderr> * :: fn enable_validate_mode
//@   impl_header impl<'a> FileBuilder<'a>
//@   rule R0
//@   sig <<<
        ensures
            final(self).validate_mode, final(self).strict == old(self).strict,
            final(self).environment == old(self).environment,
//@   >>>
//@ end
//@ extract src/build/mod.rs :: impl * FileBuilder<'a, Stdout, Stderr> * :: fn assert_results
//@   impl_header impl<'a> FileBuilder<'a>
//@   mutant results_negated "self.environment.borrow().assert_results.success" => "!self.environment.borrow().assert_results.success" expect assert_results
//@   ret r
//@   sig <<<
        ensures r == old(self.environment).assert_results.success
//@   >>>
//@ end
//@ extract src/build/mod.rs :: impl * FileBuilder<'a, Stdout, Stderr> * :: fn assert_summary
//@   impl_header impl<'a> FileBuilder<'a>
//@   mutant summary_is_failures "assert_results.summary.clone()" => "assert_results.failures.clone()" expect assert_summary
//@   ret r
//@   sig <<<
        ensures r@ == old(self.environment).assert_results.summary@
//@   >>>
//@ end

// ---------- the verdict ----------
// the entries recorded between two states of the same environment
pub open spec fn entries_since(before: VEnv, after: VEnv) -> Seq<Entry> {
    since(after, before.log@.len() as int)
}

//@ extract src/main.rs :: fn build_file
//@   subst "env: &'a RefCell<Environment<StdoutWrapper, StderrWrapper>>," => "env: &'a mut VEnv, world: &mut World,"
//@   subst "Result<build::FileBuilder<'a, StdoutWrapper, StderrWrapper>, Box<dyn Error>>" => "Result<build::FileBuilder<'a>, VBoxErr>"
//@   subst all "std::env::current_dir()" => "verif_current_dir(&*world)"
//@   subst "println!(\"{}\", builder.assert_summary())" => "vprint_summary(world, builder.assert_summary())"
//@   mutant build_error_swallowed "builder.build(file_path_buf)?;" => "let _ = builder.build(file_path_buf);" expect build_file
//@   mutant summary_not_printed "if validate { println" => "if !validate { println" expect build_file
//@   ret r
//@   sig <<<
    ensures
        final(world).cwd == old(world).cwd,
        match r {
            Ok(b) => {
                // exactly one build was run, of the named file, and it succeeded
                &&& b.environment.builds@ == old(env).builds@.push((resolved(file@, old(world).cwd@), true))
                &&& old(env).log@.is_prefix_of(b.environment.log@)
                &&& keeps_tracking(*old(env), *b.environment)
                &&& *final(b.environment) == *final(env)
                // in validate mode the collector's summary is printed, otherwise nothing
                &&& final(world).out@ == (if validate { old(world).out@.push(Out::Summary(b.environment.assert_results.summary@)) } else { old(world).out@ })
            },
            Err(_) => {
                // no build, or one failed build; nothing printed
                &&& (final(env).builds@ == old(env).builds@
                     || final(env).builds@ == old(env).builds@.push((resolved(file@, old(world).cwd@), false)))
                &&& old(env).log@.is_prefix_of(final(env).log@)
                &&& keeps_tracking(*old(env), *final(env))
                &&& final(world).out@ == old(world).out@
            },
        },
//@   >>>
//@ end

// the builds run between two states of the same environment, and "this call ran one build and it returned Ok"
pub open spec fn builds_since(before: VEnv, after: VEnv) -> Seq<(PathId, bool)> {
    after.builds@.subrange(before.builds@.len() as int, after.builds@.len() as int)
}
pub open spec fn built_ok(before: VEnv, after: VEnv) -> bool {
    builds_since(before, after).len() == 1 && builds_since(before, after)[0].1
}

// What `ucg test` prints for one file, given whether its build succeeded and the entries it recorded.
pub open spec fn printed_for(file: Seq<char>, built_ok: bool, e: Seq<Entry>) -> Seq<Out> {
    if built_ok {
        seq![Out::Validating(file), Out::Summary(summary_of(e)), if all_ok(e) { Out::FilePass(file) } else { Out::FileFail(file) }]
    } else {
        seq![Out::Validating(file), Out::ErrMsg]
    }
}

//@ extract src/main.rs :: fn do_validate
//@   subst "env: &'a RefCell<Environment<StdoutWrapper, StderrWrapper>>," => "env: &'a mut VEnv, world: &mut World,"
//@   subst "println!(\"Validating {}\", file)" => "vprint_validating(world, file)"
//@   subst "build_file(file, true, strict, import_paths, env)" => "build_file(file, true, strict, import_paths, env, world)"
//@   subst "println!(\"File {} Pass\\n\", file)" => "vprint_file_pass(world, file)"
//@   subst "println!(\"File {} Fail\\n\", file)" => "vprint_file_fail(world, file)"
//@   subst "eprintln!(\"Err: {}\", msg)" => "veprint_err(world, msg)"
//@   subst? "env.borrow_mut().val_cache.clear();" => "env.borrow_mut().rest.clear_val_cache();"
//@   mutant fix_reverted "env.borrow_mut().assert_results = build::AssertCollector::new();" => "" expect do_validate
//@   mutant fail_reported_pass "println!(\"File {} Fail\\n\", file); return false;" => "println!(\"File {} Fail\\n\", file);" expect do_validate
//@   mutant verdict_negated "if b.assert_results()" => "if !b.assert_results()" expect do_validate
//@   mutant build_error_passes "eprintln!(\"Err: {}\", msg); return false;" => "eprintln!(\"Err: {}\", msg);" expect do_validate
//@   ret r
//@   sig <<<
    ensures
        // history only grows; at most one build is run, and it is of the named file
        old(env).log@.is_prefix_of(final(env).log@),
        old(env).builds@.is_prefix_of(final(env).builds@),
        builds_since(*old(env), *final(env)).len() <= 1,
        builds_since(*old(env), *final(env)).len() == 1 ==> builds_since(*old(env), *final(env))[0].0 == resolved(file@, old(world).cwd@),
        // afterwards the collector holds exactly this call's entries, whatever earlier files left in it
        tracks(*final(env), old(env).log@.len() as int),
        // THE VERDICT: pass exactly when the file built and every assertion recorded DURING THIS CALL holds
        r == (built_ok(*old(env), *final(env)) && all_ok(entries_since(*old(env), *final(env)))),
        // what is printed for this file shows exactly this call's entries, once each, and the verdict
        final(world).out@ =~= old(world).out@ + printed_for(file@, built_ok(*old(env), *final(env)), entries_since(*old(env), *final(env))),
        final(world).cwd == old(world).cwd,
//@   >>>
//@ end

} // verus!

fn main() {}
