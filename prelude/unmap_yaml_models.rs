// ---- prelude/unmap_yaml_models.rs: serde_yaml's value types as `convert_yaml_val` / `merge_mapping_keys` see them
// (inside verus!) ----
// needs prelude/unmap_json_data.rs.
// Pinned serde_yaml 0.9.34: `Mapping` wraps an IndexMap<Value, Value>: iteration is in INSERTION = DOCUMENT order,
// keys are arbitrary Values, pairwise different AS VALUES (the parser rejects duplicate keys).
// `enum Value`, `type Sequence`, `struct Number`, `enum N` and the three Number accessors the mapper calls are
// EXTRACTED from the pinned dependency source; `Mapping` is a hand-written model, `TaggedValue` is opaque.
pub mod serde_yaml {
    use super::*;

//@ extract dep:serde_yaml/src/number.rs :: struct Number
//@   rule R0 RV
//@ end
    // (visibility normalised like RV)
//@ extract dep:serde_yaml/src/number.rs :: enum N
//@   rule R0
//@   subst "enum N" => "pub enum N"
//@ end

    // the mathematical value of an integer number
    pub open spec fn n_int(n: N) -> Option<int> {
        match n {
            N::PosInt(u) => Some(u as int),
            N::NegInt(i) => Some(i as int),
            N::Float(_) => None,
        }
    }

    // `n as f64` is the uninterpreted int->float conversion (R6).
//@ extract dep:serde_yaml/src/number.rs :: impl Number :: fn as_i64
//@   rule R0
//@   ret r
//@   sig <<<
        ensures r == (match n_int(self.n) { Some(x) => if fits_i64(x) { Some(x as i64) } else { None }, None => None })
//@   >>>
//@ end
//@ extract dep:serde_yaml/src/number.rs :: impl Number :: fn is_u64
//@   rule R0
//@   ret r
//@   sig <<<
        ensures r == (self.n is PosInt)
//@   >>>
//@ end
//@ extract dep:serde_yaml/src/number.rs :: impl Number :: fn as_f64
//@   rule R0
//@   subst "N::PosInt(n) => Some(n as f64)" => "N::PosInt(n) => Some(verif_u64_as_f64(n))"
//@   subst "N::NegInt(n) => Some(n as f64)" => "N::NegInt(n) => Some(verif_i64_as_f64(n))"
//@   ret r
//@   sig <<<
        ensures r == Some(match self.n { N::PosInt(u) => u64_to_f64(u), N::NegInt(i) => i64_to_f64(i), N::Float(f) => f })
//@   >>>
//@ end
    impl Number {
        // `impl Display for Number` through `ToString::to_string`: an opaque text (only used for number KEYS,
        // which the property excludes).
        #[verifier::external_body]
        pub fn to_string(&self) -> String { unimplemented!() }
    }

    // serde_yaml::value::TaggedValue { tag, value }: the mapper never looks inside (Tagged(_) arms) - opaque.
    #[verifier::external_body]
    pub struct TaggedValue { _p: u8 }

    // MODEL of serde_yaml::Mapping (mapping.rs: `struct Mapping { map: IndexMap<Value, Value> }`): the entries in
    // the order the map's iterator yields them = insertion order = document order. `len` is the number of
    // entries; `for (k, v) in &mapping` (mapping.rs `impl IntoIterator for &Mapping`: `self.map.iter()`) yields
    // every entry once, in that order; `entry_at(i)` is the i-th item of that iteration.
    pub struct Mapping { pub entries: Vec<(Value, Value)> }
    impl View for Mapping {
        type V = Seq<(Value, Value)>;
        open spec fn view(&self) -> Seq<(Value, Value)> { self.entries@ }
    }
    impl Mapping {
        pub fn len(&self) -> (r: usize)
            ensures r == self@.len()
        { self.entries.len() }
        pub fn entry_at(&self, i: usize) -> (r: (&Value, &Value))
            requires i < self@.len()
            ensures *r.0 == self@[i as int].0, *r.1 == self@[i as int].1
        { (&self.entries[i].0, &self.entries[i].1) }
    }

//@ extract dep:serde_yaml/src/value/mod.rs :: enum Value
//@   rule R0
//@ end
//@ extract dep:serde_yaml/src/value/mod.rs :: type Sequence
//@   rule R0
//@ end

    // serde_yaml::Error / `serde_yaml::from_slice::<Value>`: the dependency's PARSER. ASSUMED to be a deterministic
    // function of the bytes, `yaml_parse`: Some(value) or None (malformed document).
    #[verifier::external_body]
    pub struct Error { _p: u8 }
    #[verifier::external_body]
    pub fn from_slice(bytes: &[u8]) -> (r: Result<Value, Error>)
        ensures match yaml_parse(bytes@) { Some(v) => r == Ok::<Value, Error>(v), None => r is Err }
    { unimplemented!() }
}
pub uninterp spec fn yaml_parse(bytes: Seq<u8>) -> Option<serde_yaml::Value>;
// `?` on the parser's error: std `impl<E: Error> From<E> for Box<dyn Error>`.
impl From<serde_yaml::Error> for VBoxDynError {
    #[verifier::external_body]
    fn from(e: serde_yaml::Error) -> (r: VBoxDynError) { unimplemented!() }
}

// ---------- std models used by the yaml mapper ----------
// deprecated `i64::max_value()` (serde_yaml's as_i64): the constant.
pub assume_specification [i64::max_value] () -> (r: i64)
    ensures r == i64::MAX;
// `Vec::reverse` (slice::reverse through DerefMut): the reversed sequence.
pub assume_specification<T> [<[T]>::reverse] (s: &mut [T])
    ensures final(s)@ == old(s)@.reverse();
// `String == &str` (`key == "<<"`): equality of the texts.
pub assume_specification<'a> [<String as PartialEq<&'a str>>::eq] (a: &String, b: &&str) -> (r: bool)
    ensures r == (a@ == (*b)@);

// std BTreeSet<String> (`seen_keys`): a set of texts.
#[verifier::external_body]
#[verifier::accept_recursive_types(T)]
pub struct BTreeSet<T> { _t: core::marker::PhantomData<T> }
impl View for BTreeSet<String> { type V = Set<Seq<char>>; uninterp spec fn view(&self) -> Set<Seq<char>>; }
impl BTreeSet<String> {
    #[verifier::external_body]
    pub fn new() -> (r: Self) ensures r@ == Set::<Seq<char>>::empty() { unimplemented!() }
    #[verifier::external_body]
    pub fn contains(&self, k: &String) -> (r: bool) ensures r == self@.contains(k@) { unimplemented!() }
    #[verifier::external_body]
    pub fn insert(&mut self, k: String) -> (r: bool)
        ensures final(self)@ == old(self)@.insert(k@), r == !old(self)@.contains(k@)
    { unimplemented!() }
}
