// ---- prelude/shape_narrow_spec.rs: the Shape types (extracted), the compatibility oracle of C06 (static half) and its lemmas (inside verus!) ----
// Positions are only cloned and stored (R5).
//@ opaque Position
//@ clone_spec Position

//@ extract src/ast/mod.rs :: struct PositionedItem
//@   rule R0
//@ end
//@ extract src/ast/mod.rs :: type TupleShape
//@ end
//@ extract src/ast/mod.rs :: struct FuncShapeDef
//@   rule R0 RV
//@ end
//@ extract src/ast/mod.rs :: struct ModuleShape
//@   rule R0 RV
//@ end
//@ extract src/ast/mod.rs :: enum ImportShape
//@   rule R0
//@ end
//@ extract src/ast/mod.rs :: enum NarrowingShape
//@   rule R0
//@ end
//@ extract src/ast/mod.rs :: struct NarrowedShape
//@   rule R0
//@ end
//@ extract src/ast/mod.rs :: enum Shape
//@   rule R0
//@ end
// R0: #[derive(Clone)] is structural
//@ clone_spec Shape

// R0: `#[derive(PartialEq)]` on Shape is not visible to Verus. `==` on two shapes (only used by the memo-cache lookup of the
// ConstraintRef arm) is an uninterpreted function of the two.
pub uninterp spec fn shape_same(a: Shape, b: Shape) -> bool;
impl PartialEqSpecImpl for Shape {
    open spec fn obeys_eq_spec() -> bool { true }
    open spec fn eq_spec(&self, other: &Shape) -> bool { shape_same(*self, *other) }
}
impl PartialEq for Shape {
    #[verifier::external_body]
    fn eq(&self, other: &Shape) -> bool { unimplemented!() }
}

pub type Fields = Seq<(PositionedItem<Rc<str>>, Shape)>;

// ---------- termination measure: number of Shape nodes (Func / Module / Import are leaves here) ----------
pub open spec fn sz_list(v: Vec<Shape>, n: nat) -> nat
    decreases v, n
{
    if n == 0 || n > v@.len() { 0 } else { sz(v@[n - 1]) + sz_list(v, (n - 1) as nat) }
}
pub open spec fn sz_fields(v: TupleShape, n: nat) -> nat
    decreases v, n
{
    if n == 0 || n > v@.len() { 0 } else { sz(v@[n - 1].1) + sz_fields(v, (n - 1) as nat) }
}
pub open spec fn sz_ns(ns: NarrowedShape) -> nat
    decreases ns
{
    match ns.types {
        NarrowingShape::Narrowed(v) => sz_list(v, v@.len()),
        NarrowingShape::Any => 0,
    }
}
pub open spec fn sz(s: Shape) -> nat
    decreases s
{
    match s {
        Shape::List(ns) => 1 + sz_ns(ns),
        Shape::Narrowed(ns) => 1 + sz_ns(ns),
        Shape::Tuple(pi) => 1 + sz_fields(pi.val, pi.val@.len()),
        _ => 1,
    }
}


pub open spec fn seq_sz(s: Seq<Shape>) -> nat
    decreases s.len()
{
    if s.len() == 0 { 0 } else { sz(s.last()) + seq_sz(s.drop_last()) }
}
pub open spec fn fields_sz(s: Fields) -> nat
    decreases s.len()
{
    if s.len() == 0 { 0 } else { sz(s.last().1) + fields_sz(s.drop_last()) }
}

pub proof fn lemma_sz_list_elem(v: Vec<Shape>, n: nat, i: int)
    requires 0 <= i < n <= v@.len()
    ensures sz(v@[i]) <= sz_list(v, n)
    decreases n
{
    if i < n - 1 { lemma_sz_list_elem(v, (n - 1) as nat, i); }
}
pub proof fn lemma_sz_fields_elem(v: TupleShape, n: nat, i: int)
    requires 0 <= i < n <= v@.len()
    ensures sz(v@[i].1) <= sz_fields(v, n)
    decreases n
{
    if i < n - 1 { lemma_sz_fields_elem(v, (n - 1) as nat, i); }
}
pub proof fn lemma_sz_pos(s: Shape)
    ensures sz(s) >= 1
{ }

// ---------- the oracle ----------
// A Narrowed without candidates, `Any`, and a type hole put no constraint on the other side.
pub open spec fn unconstrained(s: Shape) -> bool {
    s is Hole || (s matches Shape::Narrowed(ns) && (ns.types matches NarrowingShape::Narrowed(v) ==> v@.len() == 0))
}
pub open spec fn cands(s: Shape) -> Seq<Shape>
    recommends s is Narrowed
{
    match s { Shape::Narrowed(NarrowedShape { types: NarrowingShape::Narrowed(v), .. }) => v@, _ => Seq::empty() }
}
// element types of a list shape (None: unknown element type, `Any`)
pub open spec fn elems(ns: NarrowedShape) -> Option<Seq<Shape>> {
    match ns.types { NarrowingShape::Narrowed(v) => Some(v@), NarrowingShape::Any => None }
}

// Shapes the stubbed arms are about (the statement says nothing on functions and modules).
pub uninterp spec fn func_compat(l: FuncShapeDef, r: FuncShapeDef) -> bool;
pub uninterp spec fn module_compat(l: ModuleShape, r: ModuleShape) -> bool;
// named constraints: not interpreted by this oracle (the contracts that use compat require cref_free shapes)
pub uninterp spec fn cref_compat(a: Shape, b: Shape) -> bool;

// compat(a, b): exemplar shape a admits shape b (property C06, reference "Shape Constraints"):
//  * a type error on either side is never admitted;
//  * a hole / an unconstrained candidate set admits everything;
//  * a candidate set admits what one of its candidates admits (and is admitted if one of its candidates is);
//  * same primitive type;
//  * tuples: every field of ONE side has a field of the same name on the other side whose type it agrees with
//    (one field set contained in the other, shared fields agree);
//  * lists: every element type of ONE side is admitted by some element type of the other side; a list of unknown
//    element type (Any) and an empty list admit everything;
//  * anything else is a mismatch (Int vs Float, tuple vs list ...).
pub open spec fn compat(a: Shape, b: Shape) -> bool
    decreases sz(a) + sz(b)
    via compat_decreases
{
    if a is TypeErr || b is TypeErr { false }
    else if a is ConstraintRef || b is ConstraintRef { cref_compat(a, b) }
    else if unconstrained(a) || unconstrained(b) { true }
    else if a is Narrowed { exists|i: int| 0 <= i < cands(a).len() && compat(#[trigger] cands(a)[i], b) }
    else if b is Narrowed { exists|j: int| 0 <= j < cands(b).len() && compat(a, #[trigger] cands(b)[j]) }
    else {
        match (a, b) {
            (Shape::Str(_), Shape::Str(_)) | (Shape::Boolean(_), Shape::Boolean(_))
            | (Shape::Int(_), Shape::Int(_)) | (Shape::Float(_), Shape::Float(_)) => true,
            (Shape::List(l), Shape::List(r)) => match (elems(l), elems(r)) {
                (Some(ls), Some(rs)) =>
                    (forall|i: int| 0 <= i < ls.len() ==> exists|j: int| 0 <= j < rs.len() && compat(#[trigger] ls[i], #[trigger] rs[j]))
                    || (forall|j: int| 0 <= j < rs.len() ==> exists|i: int| 0 <= i < ls.len() && compat(#[trigger] rs[j], #[trigger] ls[i])),
                _ => true,
            },
            (Shape::Tuple(l), Shape::Tuple(r)) => {
                let lf = l.val@; let rf = r.val@;
                (forall|i: int| 0 <= i < lf.len() ==> exists|j: int| 0 <= j < rf.len()
                    && rf[j].0.val@ == lf[i].0.val@ && compat((#[trigger] lf[i]).1, (#[trigger] rf[j]).1))
                || (forall|j: int| 0 <= j < rf.len() ==> exists|i: int| 0 <= i < lf.len()
                    && lf[i].0.val@ == rf[j].0.val@ && compat((#[trigger] rf[j]).1, (#[trigger] lf[i]).1))
            },
            (Shape::Func(l), Shape::Func(r)) => func_compat(l, r),
            (Shape::Module(l), Shape::Module(r)) => module_compat(l, r),
            _ => false,
        }
    }
}

#[via_fn]
proof fn compat_decreases(a: Shape, b: Shape)
{
    if a is Narrowed && !unconstrained(a) {
        let v = a->Narrowed_0.types->Narrowed_0;
        assert forall|i: int| 0 <= i < cands(a).len() implies sz(#[trigger] cands(a)[i]) < sz(a) by {
            lemma_sz_list_elem(v, v@.len(), i);
        }
    }
    if b is Narrowed && !unconstrained(b) {
        let v = b->Narrowed_0.types->Narrowed_0;
        assert forall|j: int| 0 <= j < cands(b).len() implies sz(#[trigger] cands(b)[j]) < sz(b) by {
            lemma_sz_list_elem(v, v@.len(), j);
        }
    }
    if a is List && b is List && elems(a->List_0) is Some && elems(b->List_0) is Some {
        let lv = a->List_0.types->Narrowed_0;
        let rv = b->List_0.types->Narrowed_0;
        assert forall|i: int| 0 <= i < lv@.len() implies sz(#[trigger] lv@[i]) < sz(a) by { lemma_sz_list_elem(lv, lv@.len(), i); }
        assert forall|j: int| 0 <= j < rv@.len() implies sz(#[trigger] rv@[j]) < sz(b) by { lemma_sz_list_elem(rv, rv@.len(), j); }
    }
    if a is Tuple && b is Tuple {
        let lv = a->Tuple_0.val;
        let rv = b->Tuple_0.val;
        assert forall|i: int| 0 <= i < lv@.len() implies sz((#[trigger] lv@[i]).1) < sz(a) by { lemma_sz_fields_elem(lv, lv@.len(), i); }
        assert forall|j: int| 0 <= j < rv@.len() implies sz((#[trigger] rv@[j]).1) < sz(b) by { lemma_sz_fields_elem(rv, rv@.len(), j); }
    }
}


pub proof fn lemma_seq_sz_elem(s: Seq<Shape>, i: int)
    requires 0 <= i < s.len()
    ensures sz(s[i]) <= seq_sz(s)
    decreases s.len()
{
    if i < s.len() - 1 { lemma_seq_sz_elem(s.drop_last(), i); }
}
pub proof fn lemma_fields_sz_elem(s: Fields, i: int)
    requires 0 <= i < s.len()
    ensures sz(s[i].1) <= fields_sz(s)
    decreases s.len()
{
    if i < s.len() - 1 { lemma_fields_sz_elem(s.drop_last(), i); }
}
pub proof fn lemma_sz_list_seq(v: Vec<Shape>, n: nat)
    requires n <= v@.len()
    ensures sz_list(v, n) == seq_sz(v@.take(n as int))
    decreases n
{
    if n > 0 {
        lemma_sz_list_seq(v, (n - 1) as nat);
        assert(v@.take(n as int).drop_last() =~= v@.take(n - 1));
    }
}
pub proof fn lemma_sz_fields_seq(v: TupleShape, n: nat)
    requires n <= v@.len()
    ensures sz_fields(v, n) == fields_sz(v@.take(n as int))
    decreases n
{
    if n > 0 {
        lemma_sz_fields_seq(v, (n - 1) as nat);
        assert(v@.take(n as int).drop_last() =~= v@.take(n - 1));
    }
}

pub proof fn lemma_sz_ns_seq(ns: NarrowedShape)
    ensures elems(ns) matches Some(xs) ==> sz_ns(ns) == seq_sz(xs)
{
    if let NarrowingShape::Narrowed(v) = ns.types { lemma_sz_list_seq(v, v@.len()); assert(v@.take(v@.len() as int) =~= v@); }
}
pub proof fn lemma_sz_tuple_seq(v: TupleShape)
    ensures sz_fields(v, v@.len()) == fields_sz(v@)
{
    lemma_sz_fields_seq(v, v@.len()); assert(v@.take(v@.len() as int) =~= v@);
}

// no reference to a named constraint anywhere in the shape (function and module shapes are opaque here)
pub uninterp spec fn func_cref_free(d: FuncShapeDef) -> bool;
pub uninterp spec fn module_cref_free(d: ModuleShape) -> bool;
pub open spec fn cref_free(s: Shape) -> bool
    decreases s
{
    match s {
        Shape::ConstraintRef(_) => false,
        Shape::List(ns) => cref_free_ns(ns),
        Shape::Narrowed(ns) => cref_free_ns(ns),
        Shape::Tuple(pi) => forall|i: int| 0 <= i < pi.val@.len() ==> cref_free((#[trigger] pi.val@[i]).1),
        Shape::Func(d) => func_cref_free(d),
        Shape::Module(d) => module_cref_free(d),
        _ => true,
    }
}
pub open spec fn cref_free_ns(ns: NarrowedShape) -> bool
    decreases ns
{
    match ns.types {
        NarrowingShape::Narrowed(v) => forall|i: int| 0 <= i < v@.len() ==> cref_free(#[trigger] v@[i]),
        NarrowingShape::Any => true,
    }
}

pub open spec fn admitted_by_some(x: Shape, ys: Seq<Shape>) -> bool {
    exists|j: int| 0 <= j < ys.len() && compat(x, #[trigger] ys[j])
}
pub open spec fn list_sub_from(xs: Seq<Shape>, from: int, ys: Seq<Shape>) -> bool {
    forall|k: int| from <= k < xs.len() ==> admitted_by_some(#[trigger] xs[k], ys)
}
pub open spec fn field_admitted(f: (PositionedItem<Rc<str>>, Shape), rf: Fields) -> bool {
    exists|j: int| 0 <= j < rf.len() && rf[j].0.val@ == f.0.val@ && compat(f.1, (#[trigger] rf[j]).1)
}
pub open spec fn tuple_sub_from(lf: Fields, from: int, rf: Fields) -> bool {
    forall|k: int| from <= k < lf.len() ==> field_admitted(#[trigger] lf[k], rf)
}

pub type Seen = Seq<(Rc<str>, Shape, Shape)>;
pub type SymMap = Map<Rc<str>, Shape>;
// the memo cache is untouched; the symbol table keeps exactly its names (entries of holes may be refined)
pub open spec fn frame(st0: SymMap, st1: SymMap, seen0: Seen, seen1: Seen) -> bool {
    st1.dom() =~= st0.dom() && seen1 == seen0
}

pub open spec fn has_field(fs: Fields, name: Seq<char>) -> bool {
    exists|j: int| 0 <= j < fs.len() && (#[trigger] fs[j]).0.val@ == name
}
pub open spec fn has_fields_of(fs: Fields, of: Fields) -> bool {
    forall|i: int| 0 <= i < of.len() ==> has_field(fs, (#[trigger] of[i]).0.val@)
}

// What narrowing a against b returns:
//  * a type error exactly when the shapes are not compatible;
//  * otherwise one of the two shapes, and the MORE SPECIFIC one where that is defined:
//    - against a side that puts no constraint (hole, Any, no candidates): the other side;
//    - a candidate set against a definite shape: the definite shape;
//    - two tuples: a tuple that has every field of both (narrowing never forgets a field). This IS part of C06: the narrowed
//      shape becomes the static type of the binding, so a forgotten field is invisible to every later constraint:
//        let x :: {a=0} = {a=1, b=2};  let y :: {a=0, b=""} = x;
//      built (exit 0, y.b == 2) while the exemplar wants a string, and is refused without the first, satisfied constraint
//      (fixed by "tuple narrowing keeps the tuple that has all the fields"; mutant tuple_result_forgets_fields is the old code);
//    - two lists: the side whose element types are all admitted by the other side (unknown element type: the other side).
pub open spec fn np_err(a: Shape, b: Shape, r: Shape) -> bool {
    (r is TypeErr) == !compat(a, b)
}
pub open spec fn np_side(a: Shape, b: Shape, r: Shape) -> bool {
    !(r is TypeErr) ==> {
        &&& (r == a || r == b)
        &&& (unconstrained(a) && !unconstrained(b) ==> r == b)
        &&& (unconstrained(b) && !unconstrained(a) ==> r == a)
        &&& (!unconstrained(a) && !unconstrained(b) && a is Narrowed && !(b is Narrowed) ==> r == b)
        &&& (!unconstrained(a) && !unconstrained(b) && b is Narrowed && !(a is Narrowed) ==> r == a)
    }
}
pub open spec fn np_tuple(a: Shape, b: Shape, r: Shape) -> bool {
    !(r is TypeErr) && a is Tuple && b is Tuple ==> r is Tuple
        && has_fields_of(r->Tuple_0.val@, a->Tuple_0.val@) && has_fields_of(r->Tuple_0.val@, b->Tuple_0.val@)
}
// What np_tuple buys in the two-step scenario above: a field that the bound value (a) has and a LATER exemplar (c) names is
// still a field of the narrowed shape (r), so the later check compares its type instead of not seeing the field.
pub proof fn lemma_np_tuple_no_field_lost(a: Shape, b: Shape, r: Shape, c: Shape, n: Seq<char>)
    requires
        a is Tuple, b is Tuple, c is Tuple, !(r is TypeErr), np_tuple(a, b, r),
        has_field(a->Tuple_0.val@, n), has_field(c->Tuple_0.val@, n),
    ensures r is Tuple, has_field(r->Tuple_0.val@, n)
{
    let fa = a->Tuple_0.val@;
    let i = choose|i: int| 0 <= i < fa.len() && (#[trigger] fa[i]).0.val@ == n;
    assert(has_field(r->Tuple_0.val@, fa[i].0.val@));
}
pub open spec fn np_list(a: Shape, b: Shape, r: Shape) -> bool {
    !(r is TypeErr) && a is List && b is List ==> match (elems(a->List_0), elems(b->List_0)) {
        (Some(ea), Some(eb)) => (r == a && list_sub_from(ea, 0, eb)) || (r == b && list_sub_from(eb, 0, ea)),
        (Some(_), None) => r == a,
        (None, Some(_)) => r == b,
        (None, None) => true,
    }
}
pub open spec fn narrow_post(a: Shape, b: Shape, r: Shape) -> bool {
    np_err(a, b, r) && np_side(a, b, r) && np_tuple(a, b, r) && np_list(a, b, r)
}

pub proof fn lemma_cands(s: Shape)
    ensures
        s matches Shape::Narrowed(NarrowedShape { types: NarrowingShape::Narrowed(v), .. }) ==>
            cands(s) == v@
            && (forall|j: int| 0 <= j < v@.len() ==> sz(#[trigger] v@[j]) < sz(s))
            && (cref_free(s) ==> forall|j: int| 0 <= j < v@.len() ==> cref_free(#[trigger] v@[j])),
{
    if let Shape::Narrowed(NarrowedShape { types: NarrowingShape::Narrowed(v), .. }) = s {
        assert forall|j: int| 0 <= j < v@.len() implies sz(#[trigger] v@[j]) < sz(s) by { lemma_sz_list_elem(v, v@.len(), j); }
        if cref_free(s) { assert(cref_free_ns(s->Narrowed_0)); }
    }
}
// unfolding of cref_free for the two container shapes
pub proof fn lemma_cref_free_parts(s: Shape)
    requires cref_free(s)
    ensures
        s matches Shape::List(ns) ==> cref_free_ns(ns) && (elems(ns) matches Some(xs) ==> forall|j: int| 0 <= j < xs.len() ==> cref_free(#[trigger] xs[j])),
        s matches Shape::Tuple(pi) ==> forall|j: int| 0 <= j < pi.val@.len() ==> cref_free((#[trigger] pi.val@[j]).1),
{
    if let Shape::List(ns) = s { assert(cref_free_ns(ns)); }
}


// ---------- the oracle does not depend on which side is called the exemplar ----------
// (for shapes made of primitives, tuples, lists, candidate sets, holes and imports; a type error nested inside a
// candidate set, and the uninterpreted function / module / named-constraint cases, are excluded)
pub open spec fn plain(s: Shape) -> bool
    decreases s
{
    match s {
        Shape::ConstraintRef(_) | Shape::TypeErr(_, _) | Shape::Func(_) | Shape::Module(_) => false,
        Shape::List(ns) => plain_ns(ns),
        Shape::Narrowed(ns) => plain_ns(ns),
        Shape::Tuple(pi) => forall|i: int| 0 <= i < pi.val@.len() ==> plain((#[trigger] pi.val@[i]).1),
        _ => true,
    }
}
pub open spec fn plain_ns(ns: NarrowedShape) -> bool
    decreases ns
{
    match ns.types {
        NarrowingShape::Narrowed(v) => forall|i: int| 0 <= i < v@.len() ==> plain(#[trigger] v@[i]),
        NarrowingShape::Any => true,
    }
}
pub proof fn lemma_plain_cands(s: Shape)
    requires plain(s), s is Narrowed, !unconstrained(s)
    ensures
        cands(s).len() > 0,
        forall|j: int| 0 <= j < cands(s).len() ==> plain(#[trigger] cands(s)[j]) && sz(cands(s)[j]) < sz(s),
{
    lemma_cands(s);
    assert(plain_ns(s->Narrowed_0));
}

// compat on two lists / two tuples, in terms of the named subset predicates
// (each direction in its own lemma: the two disjuncts are "forall-exists" formulas that feed each other's triggers, so they
// are never given to the solver positively at the same time)
proof fn lemma_compat_lists_1(a: Shape, b: Shape)
    requires a is List, b is List, elems(a->List_0) is Some, elems(b->List_0) is Some,
        list_sub_from(elems(a->List_0)->Some_0, 0, elems(b->List_0)->Some_0),
    ensures compat(a, b)
{
    let la = elems(a->List_0)->Some_0; let lb = elems(b->List_0)->Some_0;
    assert forall|i: int| 0 <= i < la.len() implies exists|j: int| 0 <= j < lb.len() && compat(#[trigger] la[i], #[trigger] lb[j]) by {
        assert(admitted_by_some(la[i], lb));
    }
    if la.len() > 0 {
        // (a seed term lb[j0] for the quantifier instantiation)
        assert(admitted_by_some(la[0], lb));
        let j0 = choose|j: int| 0 <= j < lb.len() && compat(la[0], #[trigger] lb[j]);
    }
}
proof fn lemma_compat_lists_2(a: Shape, b: Shape)
    requires a is List, b is List, elems(a->List_0) is Some, elems(b->List_0) is Some,
        list_sub_from(elems(b->List_0)->Some_0, 0, elems(a->List_0)->Some_0),
    ensures compat(a, b)
{
    let la = elems(a->List_0)->Some_0; let lb = elems(b->List_0)->Some_0;
    assert forall|j: int| 0 <= j < lb.len() implies exists|i: int| 0 <= i < la.len() && compat(#[trigger] lb[j], #[trigger] la[i]) by {
        assert(admitted_by_some(lb[j], la));
    }
    if lb.len() > 0 {
        assert(admitted_by_some(lb[0], la));
        let i0 = choose|i: int| 0 <= i < la.len() && compat(lb[0], #[trigger] la[i]);
    }
}
proof fn lemma_compat_lists_3(a: Shape, b: Shape)
    requires a is List, b is List, elems(a->List_0) is Some, elems(b->List_0) is Some, compat(a, b),
    ensures list_sub_from(elems(a->List_0)->Some_0, 0, elems(b->List_0)->Some_0) || list_sub_from(elems(b->List_0)->Some_0, 0, elems(a->List_0)->Some_0)
{
    let la = elems(a->List_0)->Some_0; let lb = elems(b->List_0)->Some_0;
    if !list_sub_from(la, 0, lb) && !list_sub_from(lb, 0, la) {
        let k = choose|k: int| 0 <= k < la.len() && !admitted_by_some(#[trigger] la[k], lb);
        let m = choose|m: int| 0 <= m < lb.len() && !admitted_by_some(#[trigger] lb[m], la);
        assert(false);
    }
}
pub proof fn lemma_compat_lists(a: Shape, b: Shape)
    requires a is List, b is List
    ensures compat(a, b) == (match (elems(a->List_0), elems(b->List_0)) {
        (Some(la), Some(lb)) => list_sub_from(la, 0, lb) || list_sub_from(lb, 0, la),
        _ => true,
    })
{
    if elems(a->List_0) is Some && elems(b->List_0) is Some {
        let la = elems(a->List_0)->Some_0; let lb = elems(b->List_0)->Some_0;
        if list_sub_from(la, 0, lb) { lemma_compat_lists_1(a, b); }
        else if list_sub_from(lb, 0, la) { lemma_compat_lists_2(a, b); }
        else if compat(a, b) { lemma_compat_lists_3(a, b); }
    } else {
        assert(compat(a, b));
    }
}
proof fn lemma_compat_tuples_1(a: Shape, b: Shape)
    requires a is Tuple, b is Tuple, tuple_sub_from(a->Tuple_0.val@, 0, b->Tuple_0.val@)
    ensures compat(a, b)
{
    let lf = a->Tuple_0.val@; let rf = b->Tuple_0.val@;
    assert forall|i: int| 0 <= i < lf.len() implies exists|j: int| 0 <= j < rf.len()
        && rf[j].0.val@ == lf[i].0.val@ && compat((#[trigger] lf[i]).1, (#[trigger] rf[j]).1) by {
        assert(field_admitted(lf[i], rf));
    }
    if lf.len() > 0 {
        assert(field_admitted(lf[0], rf));
        let j0 = choose|j: int| 0 <= j < rf.len() && rf[j].0.val@ == lf[0].0.val@ && compat(lf[0].1, (#[trigger] rf[j]).1);
    }
}
proof fn lemma_compat_tuples_2(a: Shape, b: Shape)
    requires a is Tuple, b is Tuple, tuple_sub_from(b->Tuple_0.val@, 0, a->Tuple_0.val@)
    ensures compat(a, b)
{
    let lf = a->Tuple_0.val@; let rf = b->Tuple_0.val@;
    assert forall|j: int| 0 <= j < rf.len() implies exists|i: int| 0 <= i < lf.len()
        && lf[i].0.val@ == rf[j].0.val@ && compat((#[trigger] rf[j]).1, (#[trigger] lf[i]).1) by {
        assert(field_admitted(rf[j], lf));
    }
    if rf.len() > 0 {
        assert(field_admitted(rf[0], lf));
        let i0 = choose|i: int| 0 <= i < lf.len() && lf[i].0.val@ == rf[0].0.val@ && compat(rf[0].1, (#[trigger] lf[i]).1);
    }
}
proof fn lemma_compat_tuples_3(a: Shape, b: Shape)
    requires a is Tuple, b is Tuple, compat(a, b)
    ensures tuple_sub_from(a->Tuple_0.val@, 0, b->Tuple_0.val@) || tuple_sub_from(b->Tuple_0.val@, 0, a->Tuple_0.val@)
{
    let lf = a->Tuple_0.val@; let rf = b->Tuple_0.val@;
    if !tuple_sub_from(lf, 0, rf) && !tuple_sub_from(rf, 0, lf) {
        let k = choose|k: int| 0 <= k < lf.len() && !field_admitted(#[trigger] lf[k], rf);
        let m = choose|m: int| 0 <= m < rf.len() && !field_admitted(#[trigger] rf[m], lf);
        assert(false);
    }
}
pub proof fn lemma_compat_tuples(a: Shape, b: Shape)
    requires a is Tuple, b is Tuple
    ensures compat(a, b) == (tuple_sub_from(a->Tuple_0.val@, 0, b->Tuple_0.val@) || tuple_sub_from(b->Tuple_0.val@, 0, a->Tuple_0.val@))
{
    if tuple_sub_from(a->Tuple_0.val@, 0, b->Tuple_0.val@) { lemma_compat_tuples_1(a, b); }
    else if tuple_sub_from(b->Tuple_0.val@, 0, a->Tuple_0.val@) { lemma_compat_tuples_2(a, b); }
    else if compat(a, b) { lemma_compat_tuples_3(a, b); }
}

// one direction, using the symmetric statement on strictly smaller pairs
proof fn lemma_compat_sym_imp(a: Shape, b: Shape)
    requires plain(a), plain(b), compat(a, b)
    ensures compat(b, a)
    decreases sz(a) + sz(b), 0nat
{
    if unconstrained(a) || unconstrained(b) {
    } else if a is Narrowed {
        lemma_plain_cands(a);
        let i = choose|i: int| 0 <= i < cands(a).len() && compat(#[trigger] cands(a)[i], b);
        let ai = cands(a)[i];
        lemma_compat_sym(ai, b);
        // compat(b, ai)
        if b is Narrowed {
            lemma_plain_cands(b);
            // a witness j with compat(cb[j], ai)
            let j = if unconstrained(ai) { 0 } else { choose|j: int| 0 <= j < cands(b).len() && compat(#[trigger] cands(b)[j], ai) };
            let bj = cands(b)[j];
            // compat(bj, a): symmetric to compat(a, bj), which holds through candidate ai
            lemma_compat_sym(ai, bj);
            lemma_compat_sym(bj, a);
            assert(compat(ai, bj));
            assert(compat(a, bj)) by {
                if !unconstrained(bj) { assert(compat(#[trigger] cands(a)[i], bj)); }
            }
            assert(compat(#[trigger] cands(b)[j], a));
        } else {
            assert(compat(b, #[trigger] cands(a)[i]));
        }
    } else if b is Narrowed {
        lemma_plain_cands(b);
        let j = choose|j: int| 0 <= j < cands(b).len() && compat(a, #[trigger] cands(b)[j]);
        lemma_compat_sym(a, cands(b)[j]);
        assert(compat(#[trigger] cands(b)[j], a));
    } else if a is List && b is List {
        lemma_compat_lists(a, b); lemma_compat_lists(b, a);
    } else if a is Tuple && b is Tuple {
        lemma_compat_tuples(a, b); lemma_compat_tuples(b, a);
    } else {
        // same primitive type
    }
}

pub proof fn lemma_compat_sym(a: Shape, b: Shape)
    requires plain(a), plain(b)
    ensures compat(a, b) == compat(b, a)
    decreases sz(a) + sz(b), 1nat
{
    if compat(a, b) { lemma_compat_sym_imp(a, b); }
    if compat(b, a) { lemma_compat_sym_imp(b, a); }
}
