#!/bin/bash
cd /verif
for p in C01 C02 C03 C04 C05 C06 C08 C09 C10 C11 C12 C13 C14 C15 C16 C17 C18 C20; do
  ./check $p quick > /tmp/q_$p.log 2>&1; echo "$p rc=$? $(tail -1 /tmp/q_$p.log)"
done
