#!/bin/bash
# usage: keep2.sh Cxx  -- renumber round-2 seeds after existing ones and confirm+test them
cd /verif
pid=$1
n=$(ls -d seeded/${pid}_* 2>/dev/null | sed 's/.*_//' | sort -n | tail -1); n=${n:-0}
for d in /tmp/seeds3/$pid/${pid}_*; do
  [ -f $d/patch.diff ] || continue
  n=$((n+1)); new=/tmp/seeds3/$pid/keep/${pid}_$n; mkdir -p /tmp/seeds3/$pid/keep; cp -r $d $new
  python3 fw/seedkeep.py $new
done
