"""C11 bounded stand-ins: "Tokens carry their exact text and location; layout does not matter".

Oracle: a small reference lexer written from the language reference (docsite/site/content/reference/grammar.md, types.md,
expressions.md "Symbols") -- NOT from ucg's tokenizer:
  * whitespace between tokens is discarded; a comment runs from `//` to the end of the line (the LF);
  * a symbol starts with an ASCII letter and continues with ASCII letters, digits, `_` and `-`; an integer is DIGIT+;
  * a string is `"` ... `"`, `\\n` `\\r` `\\t` are newline / carriage return / tab, `\\` followed by any other character is that
    character, everything else (non-ASCII included) is kept byte for byte;
  * operators: the two-character operators `== => >= <= .. :: && || %% != !~` win over their one-character prefixes
    (left-to-right maximal munch), then the one-character tokens `% ( ) * + , - . / : ; < = > [ ] { | } ~`.
Positions (assumption, stated by the property as "line, column and byte offset at which it really starts"): offset = number of
BYTES before the token's first character (for a string: its opening quote); line = 1 + number of LF before it; column = 1 + number
of BYTES between the last LF (or the start of the text) and the token -- a tab, a CR and each byte of a multi-byte character
count 1.  (HEAD reports `x` in `"é" x` at column 6 / offset 5, i.e. bytes, so this is also the convention in use.)

Whitespace bytes used between tokens: space, tab, LF, CR, CRLF, form feed 0x0C, vertical tab 0x0B -- all of them are accepted by
the unchanged tokenizer (checked on HEAD); U+00A0 / U+2028 are not and are not used.

The END token ("every token reports the line, column and byte offset at which it really starts"): the tokenizer closes the stream
with a token of type END and empty text, which the parser uses to report "unexpected end of input".  The end of the input really
is just past the last character of the source -- after any trailing blanks, line ends (LF / CRLF), blank lines and comments --,
so an END token must report offset = len(source in bytes), line = 1 + number of LF in the source, column = 1 + bytes after the
last LF.  Only its position is pinned, and only when the stream carries such a token (check_end).

Not pinned (incidental): the names of the token types beyond the coarse class (word / digit / quoted / punct), whether there is an
END token at all, what a word glued to `true` / `false` / `NULL` lexes to (`truex`), symbols starting with `_`.
"""
import itertools
import json
import os
import random
import re
import shutil
import tempfile

import realcode as R

try:
    from . import c04 as C4
except ImportError:      # loaded as a top-level module
    import c04 as C4

TWO = ['==', '=>', '>=', '<=', '..', '::', '&&', '||', '%%', '!=', '!~']
ONE = list('%()*+,-./:;<=>[]{|}~')
WS_BYTES = ' \t\r\n\x0b\x0c'
WORD_START = 'abcdefghijklmnopqrstuvwxyzABCDEFGHIJKLMNOPQRSTUVWXYZ'
WORD_CONT = WORD_START + '0123456789_-'
CLASS_OF_TYP = {'BAREWORD': 'word', 'BOOLEAN': 'word', 'EMPTY': 'word', 'DIGIT': 'digit', 'QUOTED': 'quoted', 'PUNCT': 'punct'}


class LexError(Exception):
    pass


def decode_string_body(body):
    out, i = [], 0
    while i < len(body):
        if body[i] == '\\':
            if i + 1 >= len(body):
                raise LexError('dangling backslash')
            out.append({'n': '\n', 'r': '\r', 't': '\t'}.get(body[i + 1], body[i + 1]))
            i += 2
        else:
            out.append(body[i])
            i += 1
    return ''.join(out)


def ref_lex(src):
    """Reference lexer: [(class, fragment, char_index)]; raises LexError where the reference defines no token."""
    toks, i, n = [], 0, len(src)
    while i < n:
        ch = src[i]
        if ch in WS_BYTES:
            i += 1
        elif src.startswith('//', i):
            j = src.find('\n', i)
            i = n if j < 0 else j + 1
        elif ch == '"':
            j = i + 1
            while True:
                if j >= n:
                    raise LexError('unterminated string')
                if src[j] == '\\':
                    j += 2
                elif src[j] == '"':
                    break
                else:
                    j += 1
            toks.append(('quoted', decode_string_body(src[i + 1:j]), i))
            i = j + 1
        elif ch in '0123456789':
            j = i
            while j < n and src[j] in '0123456789':
                j += 1
            toks.append(('digit', src[i:j], i))
            i = j
        elif ch in WORD_START:
            j = i
            while j < n and src[j] in WORD_CONT:
                j += 1
            toks.append(('word', src[i:j], i))
            i = j
        elif src[i:i + 2] in TWO:
            toks.append(('punct', src[i:i + 2], i))
            i += 2
        elif ch in ONE:
            toks.append(('punct', ch, i))
            i += 1
        else:
            raise LexError('no token starts with %r' % ch)
    return toks


def true_position(src, char_index):
    b = src[:char_index].encode('utf-8')
    off = len(b)
    line = b.count(b'\n') + 1
    col = off - (b.rfind(b'\n') + 1) + 1
    return line, col, off


def parse_tokens(payload):
    out = []
    for x in payload.split('\x1f'):
        f = x.split('\x1e')
        if len(f) != 5:
            return None
        out.append((f[0], f[1], int(f[2]), int(f[3]), int(f[4])))
    return [t for t in out if t[0] != 'END']


def end_tokens(payload):
    """The END token(s) of a token dump: [(line, column, offset)]."""
    out = []
    for x in payload.split('\x1f'):
        f = x.split('\x1e')
        if len(f) == 5 and f[0] == 'END':
            out.append((int(f[2]), int(f[3]), int(f[4])))
    return out


def check_end(src, payload):
    """None, or (what, expected, observed) when an END token of the stream is not reported just past the last character of src."""
    tp = true_position(src, len(src))
    for e in end_tokens(payload):
        if e != tp:
            return ('the END token is reported at line %d column %d offset %d, the input really ends at line %d column %d offset %d' % (e + tp),
                    dict(line=tp[0], column=tp[1], offset=tp[2]), dict(line=e[0], column=e[1], offset=e[2]))
    return None


# ------------------------------------------------------------------ vocabulary and layouts
KEYWORDS = ['let', 'import', 'include', 'as', 'func', 'select', 'map', 'filter', 'reduce', 'module', 'mod', 'out', 'constraint', 'convert', 'assert', 'fail', 'TRACE',
            'NULL', 'in', 'is', 'not', 'true', 'false', 'self', 'env', 'str', 'int', 'float', 'bool', 'item', 'this']
IDENTS = ['x', 'y1', 'foo_bar', 'a-b', 'A9', 'Zz_-', 'letter', 'inner', 'island', 'notes', 'mapper', 'q']
INTS = ['0', '1', '42', '007', '9223372036854775807', '123456789012345678901234567890']
STRINGS = ['""', '"s t"', '"é"', '"日本語 ✓"', '"// not a comment"', '"a\\"b"', '"back\\\\slash"', '"\\n\\t\\r"', '"multi\nline"', '"crlf\r\nline"', '"tab\there"',
           '"\\q\\é"', '"a\\\nb"', '"@{item} @"', '"\U0001F600"', '"x\x0cy\x0bz"', '"/"', '"1"', '"let"', '"=="']
VOCAB = KEYWORDS + IDENTS + INTS + STRINGS + TWO + ONE
EXPECT = {}
for _t in VOCAB:
    _r = ref_lex(_t)
    assert len(_r) == 1, _t
    EXPECT[_t] = (_r[0][0], _r[0][1])
# separators: every ASCII whitespace byte the tokenizer accepts, LF and CRLF line ends, comments (empty, with multi-byte text, with quotes, with a second
# `//`, with a lone CR inside their text -- everything up to the LF is comment)
SEPS = [' ', '  ', '\t', '\n', '\r\n', '\r', '\x0c', '\x0b', ' \t \r\n ', '\n\n', ' // c\n', '// c\r\n', '//\n', '//\r\n', ' // one\r+ 1\n', '// é✓ 日本\n', ' // "unterminated\n',
        '// a // b\n', '\t// let x = 1;\n\t', '\n// l1\n// l2\n', ' //// \n', '\r\n\r\n', ' \x0c\x0b ', '// \\\n']
EOF_TAILS = ['', ' ', '\n', '\r\n', '\t', ' // end', '// end', '//', ' // end\n', '// é', '// a\rb', '\x0c', '\x0b',
             # what a text can end in: several blanks, a lone CR, blank lines (LF / CRLF / mixed, with blanks on them), comments with and without their line end
             '   ', '\r', '\n\n', '\n\n\n', '\r\n\r\n', '\n\r\n', '\r\n\n', ' \n \n ', '\n\t', '\n ', '\t\r\n', '// end\r\n', '// é✓\n', '//\n', '//\r\n', '\n// end', '\n// end\n',
             '\n\n// end\n\n', ' // a\n// b', ' // a\n// b\n', '\r\n// end\r\n\r\n', '// end\n ', '// end\n\t\n']


def driver_safe(src):
    """The replay driver reads its cases from one stream, separated by a line holding only `%%%%`: a text with such a line in it (`%%` `%%` glued, alone on a
    line) cannot be handed over intact -- the generators re-draw their separators instead of producing one."""
    return re.search(r'\n%%%%(\n|$)', src) is None


def glue_safe(a, b):
    """May token texts a and b be written without anything between them?  Yes iff the reference lexer reads a+b as exactly a, b
    (and not across `true` / `false` / `NULL` followed by a word character, which the reference does not define)."""
    if a in ('true', 'false', 'NULL') and b[0] in WORD_CONT:
        return False
    try:
        r = ref_lex(a + b)
    except LexError:
        return False
    return [(c, f) for c, f, _ in r] == [EXPECT[a], EXPECT[b]] and r[1][2] == len(a)


def lay_out(rnd, toks, glue):
    """Text of the token sequence with random separators; with glue=True separators may be empty where that is safe."""
    for attempt in range(50):
        src, starts = rnd.choice(['', '', ' ', '\n', '// head\n', '\r\n', '\t']), []
        for k, t in enumerate(toks):
            if k > 0:
                if glue and rnd.random() < 0.5 and glue_safe(toks[k - 1], t):
                    sep = ''
                else:
                    sep = rnd.choice(SEPS) if attempt < 49 else ' '
                    if sep.startswith('/') and toks[k - 1].endswith('/'):
                        sep = ' ' + sep       # `/` directly followed by `//` would read as a comment start one character early
                src += sep
            starts.append(len(src))
            src += t
        tail = rnd.choice(EOF_TAILS) if attempt < 49 else ''
        if tail.startswith('/') and toks and toks[-1].endswith('/'):
            tail = ' ' + tail
        if driver_safe(src + tail):
            break
    return src + tail, starts


def check_tokens(src, toks, starts, res):
    """Compare the real tokenizer's answer with the expected sequence and the true positions; returns None or (what, expected, observed)."""
    st, payload = res
    if st in ('TIMEOUT', 'CRASH'):
        return None         # the process died or stalled: C04's business (and possibly machine load), not a statement about tokens
    if st != 'OK':
        return ('the text does not tokenise', 'tokens %r' % (toks,), '%s %s' % (st, payload[:200]))
    got = parse_tokens(payload)
    if got is None:
        return ('unreadable token dump', '', payload[:200])
    exp = [EXPECT[t] for t in toks]
    got_cf = [(CLASS_OF_TYP.get(g[0], None), g[1]) for g in got]
    if len(got) != len(exp) or any(gf != ef or (gc is not None and gc != ec) for (gc, gf), (ec, ef) in zip(got_cf, exp)):
        return ('token sequence differs from the source text', str(exp), str([(g[0], g[1]) for g in got]))
    for t, s0, g in zip(toks, starts, got):
        tp = true_position(src, s0)
        if (g[2], g[3], g[4]) != tp:
            return ('token %r reported at line %d column %d offset %d, really starts at line %d column %d offset %d' % ((t, g[2], g[3], g[4]) + tp),
                    dict(line=tp[0], column=tp[1], offset=tp[2]), dict(line=g[2], column=g[3], offset=g[4]))
    return check_end(src, payload)


def viol(name, bound, n, src, what, exp, obs, how='replay driver `tokens` (ucglib::tokenizer::tokenize)'):
    return dict(name=name, bound=bound, cases=n, status='violation', detail='%s in %r' % (what, src[:160]),
                input=dict(source=src, expected=exp, observed=obs, how=how))


# ------------------------------------------------------------------ (a) layout insensitivity of the token sequence  +  (b) true positions
def standin_layout_tokens(tier, seed):
    rnd = random.Random(seed)
    n = 5000 if tier == 'thorough' else 200
    bound = ('%d seeded random sequences of 1..40 tokens from the full vocabulary (%d tokens: keywords, symbols, integers, %d string literals, every operator), each laid '
             'out twice (A: a random separator between all tokens; B: separators dropped where the reference lexer allows) with %d separators (space, tab, LF, CRLF, CR, '
             'FF, VT, comments incl. multi-byte / lone CR / `//` inside) and %d end-of-text tails; both layouts must give the same (class, fragment) sequence = the tokens '
             'written, each at its true line / byte column / byte offset, and the END token just past the last character' % (n, len(VOCAB), len(STRINGS), len(SEPS), len(EOF_TAILS)))
    cases, metas = [], []
    for i in range(n):
        k = rnd.randint(1, 40) if i % 3 else rnd.randint(1, 6)
        toks = [rnd.choice(VOCAB) for _ in range(k)]
        for glue in (False, True):
            src, starts = lay_out(rnd, toks, glue)
            cases.append(src)
            metas.append((toks, starts))
    res = C4.run_cases('tokens', cases)
    for i in range(0, len(cases), 2):
        for j in (i, i + 1):
            bad = check_tokens(cases[j], metas[j][0], metas[j][1], res[j])
            if bad:
                return viol('layout_tokens', bound, len(cases), cases[j], bad[0], bad[1], bad[2])
        a, b = parse_tokens(res[i][1]), parse_tokens(res[i + 1][1])
        if [(t[0], t[1]) for t in a] != [(t[0], t[1]) for t in b]:
            return viol('layout_tokens', bound, len(cases), cases[i] + '\n-- versus --\n' + cases[i + 1], 'two layouts of the same tokens give different (typ, fragment) sequences',
                        str([(t[0], t[1]) for t in a]), str([(t[0], t[1]) for t in b]))
    return dict(name='layout_tokens', bound=bound, cases=len(cases), status='ok')


# ------------------------------------------------------------------ (a') layout insensitivity of the parsed program
POS_RE = re.compile(r'Position \{[^{}]*\}')


def relayout(rnd, src):
    """Re-lay a program: keep its tokens (lexed by the reference lexer), replace everything between them."""
    toks = ref_lex(src)
    texts = []
    for k, (c, f, i) in enumerate(toks):
        end = toks[k + 1][2] if k + 1 < len(toks) else len(src)
        raw = src[i:end]
        # the token's own text: strip trailing whitespace / comments by re-lexing prefixes
        if c == 'quoted':
            j = 1
            while raw[j] != '"':
                j += 2 if raw[j] == '\\' else 1
            texts.append(raw[:j + 1])
        elif c == 'punct':
            texts.append(f)
        else:
            texts.append(f)
    for attempt in range(50):
        out = rnd.choice(['', '\n', '// relaid\n', '\r\n'])
        for k, t in enumerate(texts):
            if k > 0:
                a, b = texts[k - 1], t
                ok = False
                if rnd.random() < 0.4:
                    try:
                        r = ref_lex(a + b)
                        ok = len(r) == 2 and r[1][2] == len(a) and not (a in ('true', 'false', 'NULL') and b[0] in WORD_CONT)
                    except LexError:
                        ok = False
                if not ok:
                    sep = rnd.choice(SEPS)
                    if sep.startswith('/') and a.endswith('/'):
                        sep = ' ' + sep
                    out += sep
            out += t
        tail = rnd.choice(EOF_TAILS)
        if tail.startswith('/') and texts and texts[-1].endswith('/'):
            tail = ' ' + tail
        if driver_safe(out + tail):
            break
    return out + tail, texts


def program_corpus(rnd, n_random):
    progs = [t for _, t in C4.shipped_files()]
    fam = C4.gen_edge_families()
    progs += fam['nesting'][:120] + rnd.sample(fam['expr_templates'], 150) + rnd.sample(fam['stmt_templates'], 100) + rnd.sample(fam['format_templates'], 60)
    progs += [C4.r_program(rnd, 3) for _ in range(n_random)]
    return progs


def standin_layout_ast(tier, seed):
    rnd = random.Random(seed)
    progs = program_corpus(rnd, 300 if tier == 'thorough' else 40)
    if tier != 'thorough':
        n_ship = len(C4.shipped_files())
        progs = rnd.sample(progs[:n_ship], min(n_ship, 30)) + rnd.sample(progs[n_ship:], 100)
    lays = 3 if tier == 'thorough' else 1
    bound = ('%d programs (the shipped .ucg files -- all in thorough, 30 sampled in quick --, generated and grammar-random programs), each re-laid %d time(s) with random whitespace / newlines (LF, CRLF) / comments between '
             'its tokens (dropped where the reference lexer allows): same (typ, fragment) sequence, and where the original parses the same AST modulo positions' % (len(progs), lays))
    cases, meta = [], []
    for p in progs:
        try:
            ref_lex(p)
        except LexError:
            continue
        if not driver_safe(p):
            continue
        cases.append(p)
        meta.append(None)
        for _ in range(lays):
            q, _texts = relayout(rnd, p)
            if not driver_safe(q):
                q = p
            cases.append(q)
            meta.append(p)
    r_tok, r_ast = C4.par([lambda: C4.run_cases('tokens', cases), lambda: C4.run_cases_sharded('ast', cases, 3 if tier == 'thorough' else 2)])
    base_i = None
    for i, m in enumerate(meta):
        if m is None:
            base_i = i
            continue
        st0, pl0 = r_tok[base_i]
        st1, pl1 = r_tok[i]
        if st0 == 'OK' and st1 not in ('TIMEOUT', 'CRASH'):
            a = parse_tokens(pl0)
            b = parse_tokens(pl1) if st1 == 'OK' else None
            if b is None or [(t[0], t[1]) for t in a] != [(t[0], t[1]) for t in b]:
                return viol('layout_ast', bound, 2 * len(cases), cases[i], 'a re-laid program tokenises differently from the original',
                            'the tokens of the original: ' + str([(t[0], t[1]) for t in a])[:600], ('%s %s' % (st1, pl1[:200])) if b is None else str([(t[0], t[1]) for t in b])[:600])
        sa0, pa0 = r_ast[base_i]
        sa1, pa1 = r_ast[i]
        if sa0 == 'OK' and sa1 not in ('TIMEOUT', 'CRASH'):
            if sa1 != 'OK' or POS_RE.sub('P', pa0) != POS_RE.sub('P', pa1):
                return viol('layout_ast', bound, 2 * len(cases), cases[i], 'a re-laid program parses to a different AST than the original (positions ignored)',
                            'original program:\n' + m[:1500], ('%s %s' % (sa1, pa1[:300])) if sa1 != 'OK' else 'AST differs', how='replay driver `ast` (ucglib::parse::parse), Position{..} blanked')
    return dict(name='layout_ast', bound=bound, cases=2 * len(cases), status='ok')


# ------------------------------------------------------------------ (b) positions after multi-byte characters, CRLF, tabs, comments, multi-line strings
def standin_true_positions(tier, seed):
    rnd = random.Random(seed)
    n = 5000 if tier == 'thorough' else 300
    heavy_seps = ['\t', '\t\t', '\r\n', '\r', ' // é✓ 日本語\n', '// \U0001F600\r\n', '\n', ' ', ' // x\ry\n', '\x0c', '\x0b', '\n\n\n', '// "\n', ' \t\r\n\t ']
    heavy_vocab = ['"é"', '"日本語 ✓"', '"\U0001F600\U0001F600"', '"multi\nline"', '"crlf\r\nline"', '"three\n\nlines\n"', '"tab\there"', '"é\n✓\r\n日"', '"\\n"', '"a\\\nb"', '"\r"', '"// é"',
                   'x', 'foo_bar', 'a-b', '1', '42', '=', ';', '==', '=>', '..', '::', '&&', '||', '%%', '!=', '!~', '+', '/', '{', '}', '(', ')', '[', ']', ',', '.', ':', '|', 'let', 'NULL', 'true']
    bound = ('%d seeded sequences of 1..25 tokens, weighted towards multi-byte and multi-line string literals, separated by tabs / CR / CRLF / LF / FF / VT / comments with '
             'multi-byte text and followed by one of %d end-of-text tails: every token, the END token included, at its true line, byte column and byte offset' % (n, len(EOF_TAILS)))
    cases, metas = [], []
    while len(cases) < n:
        toks = [rnd.choice(heavy_vocab) for _ in range(rnd.randint(1, 25))]
        src, starts = rnd.choice(['', '\n', '\r\n', '// é\n', '\t']), []
        for k, t in enumerate(toks):
            if k > 0:
                sep = rnd.choice(heavy_seps)
                if sep.startswith('/') and toks[k - 1].endswith('/'):
                    sep = ' ' + sep
                src += sep
            starts.append(len(src))
            src += t
        tail = rnd.choice(EOF_TAILS)
        src += (' ' + tail) if (tail.startswith('/') and toks[-1].endswith('/')) else tail
        if not driver_safe(src):
            continue
        cases.append(src)
        metas.append((toks, starts))
    for t in heavy_vocab:
        if t not in EXPECT:
            r = ref_lex(t)
            EXPECT[t] = (r[0][0], r[0][1])
    res = C4.run_cases('tokens', cases)
    for src, (toks, starts), r in zip(cases, metas, res):
        bad = check_tokens(src, toks, starts, r)
        if bad:
            return viol('true_positions', bound, len(cases), src, bad[0], bad[1], bad[2])
    return dict(name='true_positions', bound=bound, cases=len(cases), status='ok')


# ------------------------------------------------------------------ (c) longest operator; all pairs / triples with and without separators
def standin_operator_munch(tier, seed):
    rnd = random.Random(seed)
    ops = TWO + ONE
    seqs = [(a,) for a in ops] + list(itertools.product(ops, repeat=2))
    triples = list(itertools.product(ops, repeat=3))
    seqs += triples if tier == 'thorough' else rnd.sample(triples, 1500)
    cases, exp = [], []
    for s in seqs:
        for sep in ('', ' '):
            src = sep.join(s)
            try:
                e = [(c, f) for c, f, _ in ref_lex(src)]
            except LexError:
                continue            # e.g. a lone `!` or `&` left over: the reference defines no token, not pinned
            cases.append(src)
            exp.append(e)
    # the operators of the property statement inside expressions, glued to operands
    for o in TWO:
        for l, r in [('a', 'b'), ('1', '2'), ('"s"', '"t"'), (')', '('), ('x', '1'), ('a ', ' b'), ('a\n', '\nb'), ('a// c\n', 'b')]:
            src = l + o + r
            try:
                cases.append(src)
                exp.append([(c, f) for c, f, _ in ref_lex(src)])
            except LexError:
                cases.pop()
    bound = ('every sequence of 1..2 operator tokens (31 operators) and %s sequences of 3, written with and without a blank between them (%d texts), + the 11 two-character operators '
             'glued to 8 operand contexts: the tokens are those of left-to-right maximal munch (`===` -> `==` `=`, `=>>` -> `=>` `>`, `...` -> `..` `.`)' % ('all' if tier == 'thorough' else '1500 sampled', len(cases)))
    res = C4.run_cases('tokens', cases)
    for src, e, (st, pl) in zip(cases, exp, res):
        got = parse_tokens(pl) if st == 'OK' else None
        if got is None or [g[1] for g in got] != [f for _, f in e]:
            return viol('operator_munch', bound, len(cases), src, 'adjacent characters do not form the longest operators', str([f for _, f in e]), ('%s %s' % (st, pl[:120])) if got is None else str([g[1] for g in got]))
        for g, (line, col, off) in zip(got, [true_position(src, i) for _, _, i in ref_lex(src)]):
            if (g[2], g[3], g[4]) != (line, col, off):
                return viol('operator_munch', bound, len(cases), src, 'operator %r reported at line %d column %d offset %d, really at line %d column %d offset %d' % (g[1], g[2], g[3], g[4], line, col, off), dict(line=line, column=col, offset=off), dict(line=g[2], column=g[3], offset=g[4]))
        bad = check_end(src, pl)
        if bad:
            return viol('operator_munch', bound, len(cases), src, bad[0], bad[1], bad[2])
    return dict(name='operator_munch', bound=bound, cases=len(cases), status='ok', exhaustive=(tier == 'thorough'))


def standin_vocab_pairs(tier, seed):
    """All pairs (thorough: + sampled triples) of tokens from the full vocabulary, with a separator and -- where the reference lexer allows -- without."""
    rnd = random.Random(seed)
    seqs = list(itertools.product(VOCAB, repeat=2))
    if tier != 'thorough':
        seqs = rnd.sample(seqs, 1500)
    seqs += [tuple(rnd.choice(VOCAB) for _ in range(3)) for _ in range(12000 if tier == 'thorough' else 500)]
    cases, metas = [], []
    for s in seqs:
        sep = rnd.choice(SEPS)
        variants = [sep]
        if all(glue_safe(s[k], s[k + 1]) for k in range(len(s) - 1)):
            variants.append('')
        for v in variants:
            src, starts = '', []
            for k, t in enumerate(s):
                if k > 0:
                    src += (' ' + v) if (v.startswith('/') and s[k - 1].endswith('/')) else v
                starts.append(len(src))
                src += t
            tail = rnd.choice(EOF_TAILS)
            tail = (' ' + tail) if (tail.startswith('/') and s[-1].endswith('/')) else tail
            src += tail if driver_safe(src + tail) else ''
            if not driver_safe(src):
                continue
            cases.append(src)
            metas.append((list(s), starts))
    bound = ('%s pairs of tokens from the %d-token vocabulary + %d seeded triples, each written with a random separator and, where the reference lexer reads the glued text as '
             'the same tokens, without any, and ended by a random end-of-text tail (%d texts): same tokens, true positions (END token included)' % ('all %d' % (len(VOCAB) ** 2) if tier == 'thorough' else '1500 sampled', len(VOCAB), 12000 if tier == 'thorough' else 500, len(cases)))
    res = C4.run_cases('tokens', cases)
    for src, (toks, starts), r in zip(cases, metas, res):
        bad = check_tokens(src, toks, starts, r)
        if bad:
            return viol('vocab_pairs', bound, len(cases), src, bad[0], bad[1], bad[2])
    return dict(name='vocab_pairs', bound=bound, cases=len(cases), status='ok')


# ------------------------------------------------------------------ (d) string literals over arbitrary Unicode with every escape form
def gen_string(rnd):
    """(source text of the literal, decoded value)"""
    src, val = [], []
    for _ in range(rnd.randint(0, 24)):
        k = rnd.random()
        if k < 0.45:
            cp = rnd.choice([rnd.randrange(0x20, 0x7f), rnd.randrange(0xa0, 0x800), rnd.randrange(0x800, 0xd800), rnd.randrange(0xe000, 0xfffe), rnd.randrange(0x10000, 0x110000)])
            ch = chr(cp)
            if ch in '"\\':
                continue
            src.append(ch)
            val.append(ch)
        elif k < 0.6:
            e = rnd.choice('nrt')
            src.append('\\' + e)
            val.append({'n': '\n', 'r': '\r', 't': '\t'}[e])
        elif k < 0.72:
            e = rnd.choice('"\\')
            src.append('\\' + e)
            val.append(e)
        elif k < 0.82:      # a backslash before any other character is that character
            e = rnd.choice(['a', 'q', '0', 'x', 'u', ' ', '/', '@', '{', 'é', '✓', '\U0001F600', "'", 'N'])
            src.append('\\' + e)
            val.append(e)
        elif k < 0.92:      # raw control / layout characters inside the literal are kept byte for byte
            e = rnd.choice(['\n', '\r\n', '\t', '\r', '\x0c', '\x0b', '\x01', '\x7f', '́', '​', '﻿', '\xa0'])
            src.append(e)
            val.append(e)
        else:
            e = rnd.choice(['//', '@', '@{item}', '%', '/*', '\\\\\\"', 'let x = 1;'])
            src.append(e)
            val.append(decode_string_body(e))
    return '"' + ''.join(src) + '"', ''.join(val)


FIXED_STRINGS = [('""', ''), ('" "', ' '), ('"é"', 'é'), ('"naïve ✓"', 'naïve ✓'), ('"日本語"', '日本語'), ('"a\\nb"', 'a\nb'), ('"q\\"q"', 'q"q'), ('"back\\\\slash"', 'back\\slash'),
                 ('"tab\\tx"', 'tab\tx'), ('"cr\\rx"', 'cr\rx'), ('"\\\\"', '\\'), ('"\\\\\\\\"', '\\\\'), ('"\\\\\\""', '\\"'), ('"\\"\\""', '""'), ('"\\\\n"', '\\n'), ('"\\q"', 'q'),
                 ('"\\é"', 'é'), ('"a\\\nb"', 'a\nb'), ('"raw\nnewline"', 'raw\nnewline'), ('"raw\r\ncrlf"', 'raw\r\ncrlf'), ('"// c"', '// c'), ('"\U0001F600"', '\U0001F600'),
                 ('"é"', 'é'), ('"﻿bom"', '﻿bom'), ('"\x7f\x01"', '\x7f\x01'), ('"' + 'é' * 500 + '"', 'é' * 500), ('"' + '\\\\' * 200 + '"', '\\' * 200)]


def standin_string_literals(tier, seed):
    rnd = random.Random(seed)
    n = 8000 if tier == 'thorough' else 400
    lits = list(FIXED_STRINGS) + [gen_string(rnd) for _ in range(n)]
    lits = [(s, v) for s, v in lits if '\x1e' not in s and '\x1f' not in s and driver_safe(s) and '\n%%%%' not in s]
    bound = ('%d fixed + %d seeded string literals of 0..24 pieces over arbitrary Unicode (1-4 byte characters, combining marks, BOM, controls, raw LF / CRLF / tab) with every '
             'escape form (\\n \\r \\t \\" \\\\, backslash + any other character, backslash + newline): the token fragment, and the value written by `out json` through the real '
             'binary, equal the decoded text; each literal also as the last token of a text before an end-of-text tail (END token just past the last character)' % (len(FIXED_STRINGS), n))
    # 1. the token
    cases = ['let v = %s ;' % s for s, _ in lits]
    # ... and the literal as the LAST token of the text, followed by an end-of-text tail: the END token sits just past the last character
    end_cases = ['let v = %s%s' % (s, EOF_TAILS[k % len(EOF_TAILS)]) for k, (s, _) in enumerate(lits)]
    for src, (st, pl) in zip(end_cases, C4.run_cases('tokens', end_cases)):
        bad = check_end(src, pl) if st == 'OK' else (None if st in ('TIMEOUT', 'CRASH') else ('the text does not tokenise', 'tokens', '%s %s' % (st, pl[:200])))
        if bad:
            return viol('string_literals', bound, len(cases), src, bad[0], bad[1], bad[2])
    res = C4.run_cases('tokens', cases)
    for (s, v), src, (st, pl) in zip(lits, cases, res):
        got = parse_tokens(pl) if st == 'OK' else None
        q = [g for g in (got or []) if g[0] == 'QUOTED']
        if got is None or len(q) != 1 or q[0][1] != v:
            return viol('string_literals', bound, len(cases), src, 'a string literal does not carry its decoded text', v, ('%s %s' % (st, pl[:160])) if not q else q[0][1])
        after = [g for g in got if g[1] == ';']
        tp = true_position(src, len(src) - 1)
        if not after or (after[-1][2], after[-1][3], after[-1][4]) != tp:
            return viol('string_literals', bound, len(cases), src, 'the token after the literal is not reported at its true position', dict(line=tp[0], column=tp[1], offset=tp[2]),
                        str(after[-1][2:]) if after else 'no `;` token')
    # 2. the value in build output: out json [lit, lit, ...] through the real binary
    work = tempfile.mkdtemp(prefix='verif_c11_')
    n_cases = len(cases) + len(end_cases)
    try:
        chunk = 200
        for i in range(0, len(lits), chunk):
            part = lits[i:i + chunk]
            src = 'out json [\n' + ',\n'.join(s for s, _ in part) + '\n];\n'
            with open(os.path.join(work, 's.ucg'), 'w', encoding='utf-8', newline='') as f:
                f.write(src)
            if os.path.exists(os.path.join(work, 's.json')):
                os.remove(os.path.join(work, 's.json'))
            rc, so, se = R.run_ucg(['build', 's.ucg'], work)
            n_cases += len(part)
            try:
                with open(os.path.join(work, 's.json'), encoding='utf-8', newline='') as f:
                    got = json.load(f)
            except Exception as e:      # noqa
                got = None
            if rc != 0 or not isinstance(got, list) or len(got) != len(part):
                # find the literal that breaks the build
                for s, v in part:
                    with open(os.path.join(work, 'o.ucg'), 'w', encoding='utf-8', newline='') as f:
                        f.write('out json %s;\n' % s)
                    rc1, so1, se1 = R.run_ucg(['build', 'o.ucg'], work)
                    if rc1 != 0:
                        return viol('string_literals', bound, n_cases, 'out json %s;' % s, 'a valid string literal does not build', v, 'rc=%d %s' % (rc1, (so1 + se1)[-200:]), how='`ucg build o.ucg`, artifact o.json')
                return viol('string_literals', bound, n_cases, src[:2000], 'a list of valid string literals does not build', 'a JSON list of %d strings' % len(part), 'rc=%d %s' % (rc, (so + se)[-200:]), how='`ucg build s.ucg`')
            for (s, v), g in zip(part, got):
                if g != v:
                    return viol('string_literals', bound, n_cases, 'out json %s;' % s, 'the value of a string literal in build output is not its decoded text', v, g, how='`ucg build`, JSON artifact decoded with a JSON parser')
    finally:
        shutil.rmtree(work, ignore_errors=True)
    return dict(name='string_literals', bound=bound, cases=n_cases, status='ok')


# ------------------------------------------------------------------ (e) the END token: every way a text can end
END_ATOMS = [' ', '\t', '\n', '\r\n', '\r', '\x0c', '// c', '//', '// é✓ 日', '// "x']
END_BODIES = ['', 'x', 'let x = 1', 'let x = 1;', '"s"', '"é✓"', '"multi\nline"', '"ends in newline\n"', '42', ';', '1 /', '}', 'a.b', 'let x = 1;\nlet y = "é";\r\nlet z = [1, 2]',
              '// head\nx', '\n\nx', 'x == y', 'NULL']


def standin_end_position(tier, seed):
    """The END token after every way a text can end: nothing, blanks, LF, CRLF, lone CR, blank lines, comments with / without their line end."""
    d_all, d_first = (4, 5) if tier == 'thorough' else (3, 4)       # pieces per tail: on every body / on the first two bodies (the empty text and `x`)
    tails = ['']
    for k in range(1, d_first + 1):
        tails += [''.join(t) for t in itertools.product(END_ATOMS, repeat=k)]
    n_all = sum(len(END_ATOMS) ** k for k in range(0, d_all + 1))    # `tails` is ordered by number of pieces
    cases = []
    for i, b in enumerate(END_BODIES):
        for t in (tails if i < 2 else tails[:n_all]):
            cases.append(b + ((' ' + t) if (b.endswith('/') and t.startswith('/')) else t))
    cases += [b + t for b in END_BODIES for t in EOF_TAILS if not (b.endswith('/') and t.startswith('/'))]
    bound = ('the END token after every way a text can end: %d bodies (empty text, one token of every class, statements with and without `;`, multi-line / multi-byte strings, '
             'several lines) x every sequence of 0..%d pieces (0..%d on the empty text and on `x`) from {space, tab, LF, CRLF, lone CR, FF, comment, empty comment, multi-byte comment, '
             'comment with a quote} -- exhaustive -- + every body x the %d end-of-text tails of the layout families (%d texts): END is reported at offset = length of the text in bytes, '
             'line = 1 + number of LF, column = 1 + bytes after the last LF' % (len(END_BODIES), d_all, d_first, len(EOF_TAILS), len(cases)))
    res = C4.run_cases_sharded('tokens', cases, 4 if tier == 'thorough' else 2)
    seen = 0
    for src, (st, pl) in zip(cases, res):
        if st in ('TIMEOUT', 'CRASH'):
            continue
        if st != 'OK':
            return viol('end_position', bound, len(cases), src, 'a text made of valid tokens, blanks and comments does not tokenise', 'a token stream', '%s %s' % (st, pl[:200]))
        seen += len(end_tokens(pl))
        bad = check_end(src, pl)
        if bad:
            return viol('end_position', bound, len(cases), src, bad[0], bad[1], bad[2])
    return dict(name='end_position', bound=bound, cases=len(cases), status='ok', detail='%d END tokens seen' % seen)


def standin_template_expressions(tier, seed):
    """The expressions embedded in a format template are tokenized like any other program text: layout and comments do not matter,
    string literals inside keep every byte, a keyword at the very end of the embedded text is that keyword."""
    base = [('1 + 2', '3'), ('item + 2', None), ('"a" + "b"', 'ab'), ('NULL', None), ('true', 'true'), ('false', 'false'), ('[1, 2].0', '1'), ('{a = 7}.a', '7'),
            ('"a  b"', 'a  b'), ('"a\\tb"', 'a\tb'), ('"x // not a comment"', 'x // not a comment'), ('1 + 2 * 3', '7'), ('"\xe9\xe8 \u65e5"', '\xe9\xe8 \u65e5')]
    layouts = [lambda e: e, lambda e: ' ' + e + ' ', lambda e: e.replace(' + ', '\n+\n'), lambda e: e.replace(' + ', ' // c\n + '), lambda e: e + ' // tail\n',
               lambda e: '\t' + e.replace(' + ', '\t+\t'), lambda e: e.replace(' + ', '  +  '), lambda e: '// lead\n' + e, lambda e: e.replace(' + ', '\r\n+ ')]
    cases, groups = [], []
    for expr, want in base:
        idx = []
        for lay in layouts:
            txt = lay(expr)
            # inside a UCG string literal: backslash and double quote are escaped, everything else is literal (newlines, tabs)
            lit = txt.replace('\\', '\\\\').replace('"', '\\"')
            cases.append('let v = "@{%s}" %% 5;' % lit)
            idx.append(len(cases) - 1)
        groups.append((expr, want, idx))
    res = R.driver('eval', cases)
    bound = '%d programs: %d embedded expressions x %d layouts (blanks, tabs, newlines, CRLF, comments before / inside / after) inside `"@{...}" %% 5`' % (len(cases), len(base), len(layouts))
    for expr, want, idx in groups:
        outs = [res[i] for i in idx]
        ref = outs[0]
        for i, o in zip(idx, outs):
            if o != ref:
                return dict(name='template_expressions', bound=bound, cases=len(cases), status='violation',
                            detail='the same embedded expression `%s` gives %s %s as written and %s %s in another layout: `%s`' % (expr, ref[0], ref[1][:80], o[0], o[1][:80], cases[i][:200]),
                            input=dict(source=cases[i], expected='the same result as `%s`: %s %s' % (cases[idx[0]], ref[0], ref[1]), observed='%s %s' % o, how='replay driver `eval`'))
        if want is not None and (ref[0] != 'OK' or ('"%s"' % want) not in ref[1].replace('\\t', '\t')):
            return dict(name='template_expressions', bound=bound, cases=len(cases), status='violation',
                        detail='`"@{%s}" %% 5` gives %s %s, expected the text %r' % (expr, ref[0], ref[1][:120], want),
                        input=dict(source=cases[idx[0]], expected=want, observed='%s %s' % ref, how='replay driver `eval`'))
    return dict(name='template_expressions', bound=bound, cases=len(cases), status='ok')


STANDINS = [standin_template_expressions, standin_end_position, standin_layout_tokens, standin_layout_ast, standin_true_positions, standin_operator_munch, standin_vocab_pairs, standin_string_literals]
