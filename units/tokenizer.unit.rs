//@ unit tokenizer
//@ serves C11 C04
//@ must_verify StrIter::new StrIter::next StrIter::clone StrIter::get_offset StrIter::line StrIter::column OffsetStrIter::new_with_offsets OffsetStrIter::new OffsetStrIter::next OffsetStrIter::clone OffsetStrIter::get_offset OffsetStrIter::line OffsetStrIter::column Position::from Token::new Token::new_with_pos ascii_ws ascii_alpha ascii_digit eoi optional not trap complete OffsetStrIter::span whitespace comment lemma_line_start_bounds lemma_step_positioned lemma_positioned_bounds lemma_boundary_step lemma_ascii_steps lemma_suffix_valid lemma_boundary_is_char_boundary lemma_ascii_on_boundary lemma_ascii_text lemma_fixed_text lemma_starts_1 lemma_starts_2 lemma_starts_first lemma_ws_dep_set lemma_ws_end_bounds lemma_ws_run_is_ascii lemma_cmt_lits lemma_cmt_end_bounds lemma_cmt_stop lemma_cmt_end_least lemma_until_span
//@ include prelude/head.rs
use vstd::utf8::*;
use std::rc::Rc;
use std::ops::Index;

// C11, first part: the two recognisers that make "layout does not matter" true - `whitespace` and `comment`
// (src/tokenizer/mod.rs) - under contract, together with everything of abortable_parser 0.2.3 they are built from.
// Extracted: the two ucg items verbatim (make_fn! expanded one layer, R10); the dependency's combinator macros and
// functions from the pinned source (prelude/tokenizer_macros.rs, prelude/tokenizer_ap.rs - what is rewritten there,
// and why, is said at each item).  Hand-written: the oracle and the lemmas (prelude/tokenizer_spec.rs).
//   whitespace  consumes exactly the maximal run of the bytes `ascii_ws` accepts and fails on an empty run; on a character
//               boundary of a &str that run is the run of ASCII whitespace (space \t \n VT FF \r); one WS token, empty text,
//               true start position.
//   comment     `//`, then everything up to and including the first LF or CRLF (a lone CR is comment text) or the end of
//               the input; the token's text is exactly the bytes in between; true start position; no panic in the span.

//@ include prelude/tokenizer_macros.rs

verus! {
//@ include prelude/core.rs
//@ include prelude/stepper_iter.rs
//@ include prelude/tokenizer_spec.rs

//@ extract src/tokenizer/mod.rs :: make_fn whitespace
//@   ret r
//@   sig <<<
    requires wf_osi(i)
    ensures whitespace_tok(i, r)
//@   >>>
//@   body_start <<<
    proof {
        reveal_strlit("");
        lemma_ws_end_bounds(bytes_of(i), off_of(i));
        if off_of(i) < bytes_of(i).len() { lemma_ws_end_bounds(bytes_of(i), off_of(i) + 1); }
        if on_boundary(bytes_of(i), off_of(i)) { lemma_ws_run_is_ascii(bytes_of(i), off_of(i)); }
    }
//@   >>>
//@   mutant ws_empty_run "_ => peek!(ascii_ws)," => "" expect whitespace
//@   mutant ws_single_byte "_ => repeat!(ascii_ws)," => "_ => ascii_ws," expect whitespace
//@   mutant ws_pos_at_end "span => input!(), _ => peek!(ascii_ws), _ => repeat!(ascii_ws)," => "_ => peek!(ascii_ws), _ => repeat!(ascii_ws), span => input!()," expect whitespace
//@ end

//@ extract src/tokenizer/mod.rs :: fn comment
// names the elided lifetime (the closure signature inside until! has to mention it)
//@   subst "fn comment(input: OffsetStrIter) -> Result<OffsetStrIter, Token>" => "fn comment<'a>(input: OffsetStrIter<'a>) -> Result<OffsetStrIter<'a>, Token>"
//@   ret r
//@   sig <<<
    requires wf_osi(input)
    ensures comment_tok(input, r)
//@   >>>
//@   body_start <<<
    proof {
        lemma_cmt_lits();
        let bs = bytes_of(input); let o = off_of(input);
        lemma_starts_2(bs, o, 0x2F, 0x2F);
        if starts_comment(bs, o) {
            // `/` is ASCII: the stepper stands on a character boundary, and so does the text after `//`
            lemma_ascii_on_boundary(input.contained.source, o);
            lemma_boundary_step(bs, o); lemma_boundary_step(bs, o + 1);
            lemma_cmt_end_bounds(bs, o + 2);
        }
    }
//@   >>>
//@   before "let rest = match optional" <<<
                    proof {
                        let bs = bytes_of(input); let s = off_of(input) + 2; let e = off_of(rest);
                        assert forall|j: int| s <= j < e implies !cmt_ends_at(bs, j) by { lemma_cmt_stop(bs, j); }
                        lemma_cmt_stop(bs, e);
                        lemma_cmt_end_least(bs, s, e);
                        lemma_ascii_on_boundary(input.contained.source, e);
                        if e < bs.len() { lemma_boundary_step(bs, e); }
                        if is_crlf(bs, e) { lemma_boundary_step(bs, e + 1); }
                    }
//@   >>>
// seeded change B: a lone CR ends the comment
//@   mutant cmt_cr_terminates "discard!(text_token!(\"\\r\\n\"))," => "discard!(text_token!(\"\\r\"))," expect comment
//@   mutant cmt_single_slash "text_token!(input, \"//\")" => "text_token!(input, \"/\")" expect comment
// the CR of a CRLF terminator becomes part of the comment text
//@   mutant cmt_text_keeps_cr "either!( eoi, discard!(text_token!(\"\\r\\n\")), discard!(text_token!(\"\\n\")) )" => "either!( eoi, discard!(text_token!(\"\\n\")) )" expect comment
//@   mutant cmt_newline_not_eaten "Result::Complete(next_rest, _) => next_rest," => "Result::Complete(next_rest, _) => rest.clone()," expect comment
//@   mutant cmt_needs_newline "either!( eoi, discard!" => "either!( discard!" expect comment
//@ end


} // verus!

fn main() {}
