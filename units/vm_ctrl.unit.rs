//@ unit vm_ctrl
//@ serves C01 C04
//@ must_verify OpsMap::len OpsMap::is_empty OpPointer::next OpPointer::jump OpPointer::op OpPointer::pos OpPointer::idx VM::push VM::pop VM::op_jump VM::op_and VM::op_or VM::op_jump_if_true VM::op_jump_if_false VM::op_select_jump VM::op_not VM::op_gt VM::op_lt VM::op_gteq VM::op_lteq
//@ include prelude/head.rs
use std::rc::Rc;

verus! {
//@ include prelude/core.rs
//@ include prelude/vm_values.rs

// Rc<str> == Rc<str> compares contents (std; no vstd spec) - R9' model.
#[verifier::external_body]
pub fn verif_rcstr_eq(a: &Rc<str>, b: &Rc<str>) -> (r: bool)
    ensures r == (a@ == b@)
{ a == b }

impl Position {
    #[verifier::external_body]
    pub fn new(line: usize, column: usize, offset: usize) -> Self { unimplemented!() }
}

//@ opaque VShapeMap VLinks
//@ extract src/ast/mod.rs :: enum CastType
//@   rule R0
//@ end
//@ extract src/build/opcode/mod.rs :: enum Hook
//@   rule R0
//@ end
//@ extract src/build/opcode/mod.rs :: enum ConstraintArmType
//@   rule R0
//@ end
//@ extract src/build/opcode/mod.rs :: enum Op
//@   rule R0
//@ end
//@ extract src/build/opcode/translate.rs :: struct OpsMap
//@   rule R0
//@   subst "shape_map: BTreeMap<Rc<str>, Shape>" => "shape_map: VShapeMap"
//@   subst "links: BTreeMap<Rc<str>, Position>" => "links: VLinks"
//@ end
//@ extract src/build/opcode/translate.rs :: impl OpsMap :: fn len
//@   ret r
//@   sig <<<
        ensures r == self.ops@.len()
//@   >>>
//@ end
//@ extract src/build/opcode/translate.rs :: impl OpsMap :: fn is_empty
//@   ret r
//@   sig <<<
        ensures r == (self.ops@.len() == 0)
//@   >>>
//@ end
//@ extract src/build/opcode/pointer.rs :: struct OpPointer
//@   rule R0
//@   subst "path: Option<PathBuf>" => "path: Option<VPathBuf>"
//@ end

pub open spec fn nops(p: OpPointer) -> int { p.pos_map.ops@.len() as int }

// The instruction pointer is either unset or inside the program.
pub open spec fn ptr_wf(p: OpPointer) -> bool {
    p.ptr matches Some(i) ==> i < nops(p)
}

//@ extract src/build/opcode/pointer.rs :: impl OpPointer :: fn op
//@   ret r
//@   sig <<<
        ensures
            (self.ptr matches Some(i) && i < nops(*self)) ==> r == Some(&self.pos_map.ops@[self.ptr->0 as int]),
            (self.ptr is None || self.ptr->0 >= nops(*self)) ==> r is None,
//@   >>>
//@ end
//@ extract src/build/opcode/pointer.rs :: impl OpPointer :: fn pos
//@   ret r
//@   sig <<<
        ensures
            (self.ptr matches Some(i) && i < self.pos_map.pos@.len()) ==> r == Some(&self.pos_map.pos@[self.ptr->0 as int]),
            (self.ptr is None || self.ptr->0 >= self.pos_map.pos@.len()) ==> r is None,
//@   >>>
//@ end
//@ extract src/build/opcode/pointer.rs :: impl OpPointer :: fn next
//@   ret r
//@   sig <<<
        requires ptr_wf(*old(self))
        ensures
            ptr_wf(*final(self)),
            final(self).pos_map == old(self).pos_map, final(self).path == old(self).path,
            // advances by exactly one op, starting at 0; stops (and stays) at the last op
            match old(self).ptr {
                None => if nops(*old(self)) > 0 { final(self).ptr == Some(0usize) && r == Some(&old(self).pos_map.ops@[0]) }
                        else { final(self).ptr is None && r is None },
                Some(i) => if i + 1 < nops(*old(self)) { final(self).ptr == Some((i + 1) as usize) && r == Some(&old(self).pos_map.ops@[i + 1]) }
                           else { final(self).ptr == old(self).ptr && r is None },
            },
//@   >>>
//@   before "let nxt =" <<<
            proof { axiom_vec_len_bound(&self.pos_map.ops); }
//@   >>>
//@   mutant next_skips "let nxt = i + 1;" => "let nxt = i + 2;" expect next
//@ end
//@ extract src/build/opcode/pointer.rs :: impl OpPointer :: fn jump
//@   ret r
//@   subst "\"FAULT!!! Invalid Jump!\".into()" => "verif_msg()"
//@   sig <<<
        ensures
            final(self).pos_map == old(self).pos_map, final(self).path == old(self).path,
            ptr < nops(*old(self)) ==> r is Ok && final(self).ptr == Some(ptr),
            ptr >= nops(*old(self)) ==> r is Err && final(self).ptr == old(self).ptr,
//@   >>>
//@   mutant jump_le "if ptr < self.pos_map.len()" => "if ptr <= self.pos_map.len()" expect jump
//@ end
//@ extract src/build/opcode/pointer.rs :: impl OpPointer :: fn idx
//@   ret r
//@   subst "\"FAULT!!! Position Check failure!\".into()" => "verif_msg()"
//@   sig <<<
        ensures self.ptr matches Some(i) ==> r == Ok::<usize, Error>(i),
                self.ptr is None ==> r is Err,
//@   >>>
//@ end

impl Value {
    // only used to build messages here (R1/R8)
    #[verifier::external_body]
    fn type_name(&self) -> &'static str { unimplemented!() }
}

//@ extract src/build/opcode/vm.rs :: struct VM
//@   rule R0 RV
//@   subst "working_dir: PathBuf" => "working_dir: VPathBuf"
//@   subst "runtime: runtime::Builtins" => "runtime: Builtins"
//@   subst "reserved_words: &'static BTreeSet<&'static str>" => "reserved_words: ReservedWords"
//@ end

// nothing but the value stack, the `last` debugging slot and the instruction pointer may change
pub open spec fn frame(a: VM, b: VM) -> bool {
    a.symbols == b.symbols && a.self_stack == b.self_stack && a.import_stack == b.import_stack
    && a.working_dir == b.working_dir && a.runtime == b.runtime && a.reserved_words == b.reserved_words
    && a.ops.pos_map == b.ops.pos_map && a.ops.path == b.ops.path
}

//@ extract src/build/opcode/vm.rs :: impl VM :: fn push
//@   ret r
//@   sig <<<
        ensures r is Ok, final(self).stack@ == old(self).stack@.push((val, pos)),
            frame(*old(self), *final(self)), final(self).ops == old(self).ops,
//@   >>>
//@ end
//@ extract src/build/opcode/vm.rs :: impl VM :: fn pop
//@   subst "Some(v.clone())" => "Some((v.0.clone(), v.1.clone()))"
//@   ret r
//@   sig <<<
        requires old(self).stack@.len() > 0
        ensures r is Ok, r->Ok_0 == old(self).stack@.last(), final(self).stack@ == old(self).stack@.drop_last(),
            frame(*old(self), *final(self)), final(self).ops == old(self).ops,
//@   >>>
//@ end

// ---------- oracle: relative jumps ----------
// A relative jump by `jp` from the op at index v lands on v + jp (the run loop then advances by one).
// Before the first op (ptr unset) the target is jp itself.
pub open spec fn jump_target(p: OpPointer, jp: i32) -> int {
    match p.ptr { Some(v) => v + jp, None => jp as int }
}
// Caller obligation (translator invariant, not discharged here): programs are shorter than 2^31 ops and
// relative jumps never point before the start of the program (Verus leaves the wrapping cast of a
// negative i32 to usize unspecified, so the contract is silent there).
pub open spec fn jump_pre(p: OpPointer, jp: i32) -> bool {
    &&& 0 <= jump_target(p, jp) <= i32::MAX
    &&& (p.ptr matches Some(v) ==> v <= i32::MAX)
}
pub open spec fn jumped(a: VM, b: VM, jp: i32, r: Result<(), Error>) -> bool {
    let t = jump_target(a.ops, jp);
    &&& (0 <= t < nops(a.ops) ==> r is Ok && b.ops.ptr == Some(t as usize))
    &&& (!(0 <= t < nops(a.ops)) ==> r is Err && b.ops.ptr == a.ops.ptr)
}

//@ extract src/build/opcode/vm.rs :: impl VM :: fn op_jump
//@   subst ".map(|v| (v as i32 + jp) as usize)" => ".map(|v: usize| -> (t: usize) requires v <= i32::MAX && 0 <= v + jp <= i32::MAX ensures t == v + jp { (v as i32 + jp) as usize })"
//@   ret r
//@   sig <<<
        requires jump_pre(old(self).ops, jp)
        ensures frame(*old(self), *final(self)), final(self).stack == old(self).stack,
            jumped(*old(self), *final(self), jp, r),
//@   >>>
//@   mutant jump_off_by_one "(v as i32 + jp) as usize })" => "(v as i32 + jp + 1) as usize })" expect op_jump
//@ end

pub open spec fn bool_of(v: Value) -> Option<bool> { match v { P(Bool(b)) => Some(b), _ => None } }

// Short-circuit operators.  `&&`: the left operand is on top of the stack.  false => it stays as the
// result and the right operand's code is skipped (jump); true => it is dropped and the right operand
// is evaluated next; anything else is an error.  `||` is the dual.
pub open spec fn short_circuit(a: VM, b: VM, jp: i32, r: Result<(), Error>, skip_on: bool) -> bool {
    let n = a.stack@.len() as int;
    &&& frame(a, b)
    &&& match bool_of(*a.stack@[n - 1].0) {
        None => r is Err,
        Some(c) => if c == skip_on {
                jumped(a, b, jp, r) && (r is Ok ==> b.stack@ =~= a.stack@)
            } else {
                r is Ok && b.stack@ =~= a.stack@.drop_last() && b.ops == a.ops
            },
    }
}

//@ extract src/build/opcode/vm.rs :: impl VM :: fn op_and
//@   rule R1 R3
//@   ret r
//@   sig <<<
        requires old(self).stack@.len() >= 1, jump_pre(old(self).ops, jp)
        ensures short_circuit(*old(self), *final(self), jp, r, false)
//@   >>>
//@   mutant and_no_pushback "self.push(cc, cond_pos)?;" => "" expect op_and
//@   mutant and_inverted "if !cond {" => "if *cond {" expect op_and
//@ end
//@ extract src/build/opcode/vm.rs :: impl VM :: fn op_or
//@   rule R1 R3
//@   subst "if cond {" => "if *cond {"
//@   ret r
//@   sig <<<
        requires old(self).stack@.len() >= 1, jump_pre(old(self).ops, jp)
        ensures short_circuit(*old(self), *final(self), jp, r, true)
//@   >>>
//@   mutant or_inverted "if *cond {" => "if !*cond {" expect op_or
//@ end

pub open spec fn cond_jump(a: VM, b: VM, jp: i32, r: Result<(), Error>, jump_on: bool) -> bool {
    let n = a.stack@.len() as int;
    &&& frame(a, b)
    &&& match bool_of(*a.stack@[n - 1].0) {
        None => r is Err,
        Some(c) => if c == jump_on { jumped(a, b, jp, r) && b.stack@ =~= a.stack@.drop_last() }
                   else { r is Ok && b.stack@ =~= a.stack@.drop_last() && b.ops == a.ops },
    }
}
//@ extract src/build/opcode/vm.rs :: impl VM :: fn op_jump_if_true
//@   rule R1 R3
//@   subst "if cond {" => "if *cond {"
//@   ret r
//@   sig <<<
        requires old(self).stack@.len() >= 1, jump_pre(old(self).ops, jp)
        ensures cond_jump(*old(self), *final(self), jp, r, true)
//@   >>>
//@ end
//@ extract src/build/opcode/vm.rs :: impl VM :: fn op_jump_if_false
//@   rule R1 R3
//@   ret r
//@   sig <<<
        requires old(self).stack@.len() >= 1, jump_pre(old(self).ops, jp)
        ensures cond_jump(*old(self), *final(self), jp, r, false)
//@   >>>
//@   mutant jif_inverted "if !cond {" => "if *cond {" expect op_jump_if_false
//@ end

// select: the arm's field name (top) against the searched value (below): a string / symbol must be
// equal to the name; a boolean matches the names `true` / `false`.
pub open spec fn select_matches(field: Value, search: Value) -> bool {
    match (field, search) {
        (S(f), P(Str(s))) => f@ == s@,
        (S(f), S(s)) => f@ == s@,
        (S(f), P(Bool(b))) => (f@ == "true"@ && b) || (f@ == "false"@ && !b),
        _ => false,
    }
}
//@ extract src/build/opcode/vm.rs :: impl VM :: fn op_select_jump
//@   rule R3
//@   subst "fname == sname" => "verif_rcstr_eq(fname, sname)"
//@   subst "== \"true\" && b" => "== \"true\" && *b"
//@   ret r
//@   sig <<<
        requires old(self).stack@.len() >= 2, jump_pre(old(self).ops, jp)
        ensures ({
            let a = *old(self); let b = *final(self); let n = a.stack@.len() as int;
            &&& frame(a, b)
            &&& if select_matches(*a.stack@[n - 1].0, *a.stack@[n - 2].0) {
                    // matched: both popped, fall through into the arm
                    r is Ok && b.stack@ =~= a.stack@.subrange(0, n - 2) && b.ops == a.ops
                } else {
                    // no match: the searched value goes back and control moves to the next arm
                    jumped(a, b, jp, r) && (r is Ok ==> b.stack@ =~= a.stack@.subrange(0, n - 1))
                }
        })
//@   >>>
//@   mutant select_no_pushback "self.push(search, srch_pos)?;" => "" expect op_select_jump
//@ end

//@ extract src/build/opcode/vm.rs :: impl VM :: fn op_not
//@   rule R1 R3
//@   ret r
//@   sig <<<
        requires old(self).stack@.len() >= 1
        ensures ({
            let a = *old(self); let b = *final(self); let n = a.stack@.len() as int;
            &&& frame(a, b) && b.ops == a.ops
            &&& match bool_of(*a.stack@[n - 1].0) {
                None => r is Err,
                Some(c) => r is Ok && b.stack@.len() == n && b.stack@.subrange(0, n - 1) =~= a.stack@.subrange(0, n - 1)
                           && *b.stack@[n - 1].0 == P(Bool(!c)),
            }
        })
//@   >>>
//@ end

// ---------- oracle: ordering comparisons (Int x Int and Float x Float only) ----------
pub enum Cmp { Gt, Lt, GtEq, LtEq }
pub open spec fn cmp_result(op: Cmp, l: Value, r: Value) -> Option<bool> {
    match (l, r) {
        (P(Int(a)), P(Int(b))) => Some(match op { Cmp::Gt => a > b, Cmp::Lt => a < b, Cmp::GtEq => a >= b, Cmp::LtEq => a <= b }),
        (P(Float(a)), P(Float(b))) => Some(match op { Cmp::Gt => f64_gt(a, b), Cmp::Lt => f64_lt(a, b), Cmp::GtEq => f64_ge(a, b), Cmp::LtEq => f64_le(a, b) }),
        _ => None,
    }
}
pub open spec fn cmp_contract(op: Cmp, a: VM, b: VM, r: Result<(), Error>) -> bool {
    let n = a.stack@.len() as int;
    // LEFT operand on top of the stack, RIGHT below it
    &&& frame(a, b) && b.ops == a.ops
    &&& match cmp_result(op, *a.stack@[n - 1].0, *a.stack@[n - 2].0) {
        Some(x) => r is Ok && b.stack@.len() == n - 1 && b.stack@.subrange(0, n - 2) =~= a.stack@.subrange(0, n - 2)
                   && *b.stack@[n - 2].0 == P(Bool(x)),
        None => r is Err,
    }
}
//@ extract src/build/opcode/vm.rs :: impl VM :: fn op_gt
//@   rule R1 R3 R6(*f,*ff)
//@   ret r
//@   sig <<<
        requires old(self).stack@.len() >= 2
        ensures cmp_contract(Cmp::Gt, *old(self), *final(self), r)
//@   >>>
//@   mutant gt_swapped "Bool(i > ii)" => "Bool(ii > i)" expect op_gt
//@ end
//@ extract src/build/opcode/vm.rs :: impl VM :: fn op_lt
//@   rule R1 R3 R6(*f,*ff)
//@   ret r
//@   sig <<<
        requires old(self).stack@.len() >= 2
        ensures cmp_contract(Cmp::Lt, *old(self), *final(self), r)
//@   >>>
//@   mutant lt_le "Bool(i < ii)" => "Bool(i <= ii)" expect op_lt
//@ end
//@ extract src/build/opcode/vm.rs :: impl VM :: fn op_gteq
//@   rule R1 R3 R6(*f,*ff)
//@   ret r
//@   sig <<<
        requires old(self).stack@.len() >= 2
        ensures cmp_contract(Cmp::GtEq, *old(self), *final(self), r)
//@   >>>
//@ end
//@ extract src/build/opcode/vm.rs :: impl VM :: fn op_lteq
//@   rule R1 R3 R6(*f,*ff)
//@   ret r
//@   sig <<<
        requires old(self).stack@.len() >= 2
        ensures cmp_contract(Cmp::LtEq, *old(self), *final(self), r)
//@   >>>
//@   mutant fle_lt "f <= ff" => "f < ff" expect op_lteq
//@   mutant fle_swapped "verif_f64_le(*f, *ff)" => "verif_f64_le(*ff, *f)" expect op_lteq
//@ end

} // verus!

fn main() {}
