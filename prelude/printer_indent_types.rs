// ---- prelude/printer_indent_types.rs: the AST of src/ast/mod.rs (all types the printer walks), verbatim, with the
// real `Position` (its `line` is what the printer computes with) and the real `pos()` accessors. ----
// `PathBuf` (Position.file), `Scope` and `Val` are only carried around (R5).
//@ opaque PathBuf Scope Val

//@ extract src/ast/mod.rs :: struct Position
//@   rule R0
//@ end
//@ extract src/ast/mod.rs :: enum TokenType
//@   rule R0
//@ end
//@ extract src/ast/mod.rs :: struct Token
//@   rule R0
//@ end
//@ extract src/ast/mod.rs :: type FieldList
//@   rule R0
//@ end
//@ extract src/ast/mod.rs :: struct PositionedItem
//@   rule R0
//@ end
//@ extract src/ast/mod.rs :: enum Value
//@   rule R0
//@ end
//@ extract src/ast/mod.rs :: struct CallDef
//@   rule R0
//@ end
//@ extract src/ast/mod.rs :: enum CastType
//@   rule R0
//@ end
//@ extract src/ast/mod.rs :: struct CastDef
//@   rule R0
//@ end
//@ extract src/ast/mod.rs :: struct SelectDef
//@   rule R0
//@ end
//@ extract src/ast/mod.rs :: struct FuncDef
//@   rule R0
//@ end
//@ extract src/ast/mod.rs :: enum BinaryExprType
//@   rule R0
//@ end
//@ extract src/ast/mod.rs :: struct BinaryOpDef
//@   rule R0
//@ end
//@ extract src/ast/mod.rs :: struct CopyDef
//@   rule R0
//@ end
//@ extract src/ast/mod.rs :: enum FormatArgs
//@   rule R0
//@ end
//@ extract src/ast/mod.rs :: struct FormatDef
//@   rule R0
//@ end
//@ extract src/ast/mod.rs :: struct IncludeDef
//@   rule R0
//@ end
//@ extract src/ast/mod.rs :: struct ListDef
//@   rule R0
//@ end
//@ extract src/ast/mod.rs :: enum FuncOpDef
//@   rule R0
//@ end
//@ extract src/ast/mod.rs :: struct ReduceOpDef
//@   rule R0
//@ end
//@ extract src/ast/mod.rs :: struct MapFilterOpDef
//@   rule R0
//@ end
//@ extract src/ast/mod.rs :: struct ModuleDef
//@   rule R0
//@ end
//@ extract src/ast/mod.rs :: struct RangeDef
//@   rule R0
//@ end
//@ extract src/ast/mod.rs :: struct ConstraintRangeDef
//@   rule R0
//@ end
//@ extract src/ast/mod.rs :: enum ConstraintArm
//@   rule R0
//@ end
//@ extract src/ast/mod.rs :: struct ConstraintDef
//@   rule R0
//@ end
//@ extract src/ast/mod.rs :: struct ImportDef
//@   rule R0
//@ end
//@ extract src/ast/mod.rs :: struct FailDef
//@   rule R0
//@ end
//@ extract src/ast/mod.rs :: struct NotDef
//@   rule R0
//@ end
//@ extract src/ast/mod.rs :: struct DebugDef
//@   rule R0
//@ end
//@ extract src/ast/mod.rs :: struct ConvertDef
//@   rule R0
//@ end
//@ extract src/ast/mod.rs :: enum Expression
//@   rule R0
//@ end
//@ extract src/ast/mod.rs :: struct LetDef
//@   rule R0
//@ end
//@ extract src/ast/mod.rs :: struct ConstraintBindingDef
//@   rule R0
//@ end
//@ extract src/ast/mod.rs :: enum Statement
//@   rule R0
//@ end

// the comment map the tokenizer fills: line of a comment group -> its comment tokens (real std BTreeMap, vstd's model)
//@ extract src/tokenizer/mod.rs :: type CommentGroup
//@   rule R0
//@ end
//@ extract src/tokenizer/mod.rs :: type CommentMap
//@   rule R0
//@ end

// ---------- the position accessors, verbatim (which line a node reports is NOT constrained: the printer's contract
// holds for every line number) ----------
//@ extract src/ast/mod.rs :: impl Value :: fn pos
//@   rule R0
//@ end
//@ extract src/ast/mod.rs :: impl FuncOpDef :: fn pos
//@   rule R0
//@ end
//@ extract src/ast/mod.rs :: impl Expression :: fn pos
//@   rule R0
//@ end
//@ extract src/ast/mod.rs :: impl Statement :: fn pos
//@   rule R0
//@ end
