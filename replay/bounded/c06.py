"""C06 bounded stand-ins: `let x :: <constraint> = <value>;` for stated finite grammars of constraints and values, built by
the REAL type checker + VM (driver mode `buildfile`, i.e. what `ucg build` does) and compared with an oracle written from the
property statement and docsite/site/content/reference/typechecking.md:

  exemplar     admits a value of the same shape: same primitive type; tuples agree on the types of the fields they share
               and one field set is contained in the other; lists: every element type of one side is admitted by (some
               element type of) the other side (an empty side admits everything);
  range        admits a number of the bounds' type with lo <= v <= hi (missing bound = unbounded);
  alternation  admits a value equal to one of its literal alternatives or inside one of its ranges;
  named        `constraint c = K; ... :: c` behaves exactly like K written inline, also as one alternative (`c | 9` == `K | 9`);
  let-bound    `let e = <exemplar>; ... :: e` is that exemplar.

  reached      a named constraint reached through any expression the grammar accepts after `::` (parentheses, selector, list element,
               function result, select, module, imported file) behaves like the constraint written inline (family named_reach);
  chained      `let x :: C1 = V; let y :: C2 = <use of x>;` builds iff V conforms to C1 and the value the use evaluates to conforms
               to C2 - what C1 says about other values is irrelevant (family chained_lets).
  recursive    a value holding SEVERAL sub-values of one recursive named exemplar constraint conforms iff the exemplar rule, applied
               recursively with the name replaced by its definition, admits it: every node is judged on its own fields and field
               types, in whatever order / place the nodes appear (family recursive_siblings).
  per level    the tuple rule holds for every tuple on its own: on each nesting level independently the value may have fewer, the same
               or more fields than the exemplar (family nested_tuple_levels).

The build must succeed iff the oracle admits the value; a rejected binding must end in a diagnostic (status ERR with a
message, never PANIC / CRASH).  Bounded: exactly the enumerated pairs; never counted as proved.

Deliberately outside the families (the statement / reference is silent or contradictory there): NULL values (the reference
says NULL conforms to everything, the VM refuses NULL for ranges and alternations), ranges with bounds of two different
types, numerically equal int/float pairs are simply "not equal" (2 vs 2.0), tuple literals as alternatives are only compared
with values written in the same field order, and self-referential constraints (only the documented recursive forms are
run, in their own driver call: `constraint a = a | 1; let x :: a = 1;` overflows the stack of the type checker, a C04 defect)."""
import random

import realcode as R

HOW = 'replay driver `buildfile` (FileBuilder::build on a temp file: type checker + VM, strict) == `ucg build`'
I64_MAX = 2 ** 63 - 1

# Genuine defects of the real code on inputs of these families (reported; excluded so that the stand-ins pass on HEAD).
# Exemplar constraints are checked ONLY by the static type checker; the VM checks ranges and alternations only.  A value
# whose static type is unknown or a union therefore escapes an exemplar: the binding builds although the value does not
# conform (property clause "builds if and only if the bound value conforms").  Each entry: id = the value form (see loose_forms), a failing input, what is observed, the clause it breaks.
# The exclusion is exactly: value written in one of these forms AND the constraint is a pure exemplar (inline, named or
# let-bound; no range / alternation, which the VM checks) AND the actual value does not conform AND some static candidate
# of the form would conform (for `identity` / `emptyconcat` / `modparam_emptytuple` the static type is unknown, so any exemplar).
CLAUSE = 'a let binding that carries a constraint builds if and only if the bound value conforms to it'
KNOWN = [
    dict(id='identity', input='let idf = func(a) => a;\nlet x :: "s" = idf(1);',
         observed='builds (the result type of a function returning its unconstrained parameter is unknown; exemplars are checked statically only)', clause=CLAUSE),
    dict(id='heterolist', input='let hl = [1, "s"];\nlet x :: "s" = hl.0;',
         observed='builds (the element type of a mixed list is the union int|str)', clause=CLAUSE),
    dict(id='heteroselect', input='let x :: "s" = select (true, 1) => {true = 1, false = "s"};',
         observed='builds (the type of a select is the union of its branches)', clause=CLAUSE),
    dict(id='emptyconcat', input='let x :: ["s"] = [] + [1];',
         observed='builds (`[] + list` has an unknown element type)', clause=CLAUSE),
    dict(id='modparam_emptytuple', input='let mm = module {p = {}} => (r) { let r = mod.p; };\nlet x :: 0 = mm{};',
         observed='builds (a module parameter whose default is `{}` has an unknown type)', clause=CLAUSE),
    # not an exclusion of the families below (only the documented recursive forms are run, where every arm is a shape); recorded as a finding
    dict(id='selfref_shape_only', input='constraint a = in 1..3 | [a];\nlet x :: a = 4;',
         observed='builds; so do `let x :: a = [2, [4]];` and `constraint a = a | 1; let x :: a = 2;` (a constraint that refers to itself is checked by shape only: '
                  'ranges and literal alternatives are not enforced)',
         clause='a range admits numbers between the inclusive bounds, an alternation admits a value equal to one of its alternatives or inside one of its ranges'),
    # --- found by the families named_reach / chained_lets (same root: exemplars are checked by the static type checker only)
    # exclusion: constraint expressions of unknown / union static type (LOOSE_REACH) are run with ranges and alternations only
    dict(id='loose_constraint_expr', input='let e = 0;\nlet kf = func(a) => a;\nlet x :: kf(e) = "s";',
         observed='builds; so does `let x :: ((import "lib.ucg").n) = "s";` with lib.ucg = `let n = 0;` (the mirror image of `identity`: when the static type of the '
                  'constraint EXPRESSION is unknown an exemplar constrains nothing; `let lib = import "lib.ucg"; let x :: (lib.n) = "s";` is refused)',
         clause='a named constraint behaves exactly like the same constraint written inline'),
    # (wider_exemplar_remembered and empty_list_exemplar_forgets were repaired in ucg: a constrained binding keeps the shape of its VALUE; the
    # chained_lets family runs without exclusions.)
]
KNOWN_FORMS = set(k['id'] for k in KNOWN) - {'selfref_shape_only', 'loose_constraint_expr'}


# ------------------------------------------------------------------ values
def I(n): return ('int', n)
def F(x): return ('float', float(x))
def S(s): return ('str', s)
def B(b): return ('bool', b)
def T(*fs): return ('tuple', list(fs))
def L(*xs): return ('list', list(xs))


def fsrc(x):
    s = repr(float(x))
    assert 'e' not in s and 'n' not in s, s
    return s


def vsrc(v):
    k, p = v
    if k == 'int':
        return str(p) if p >= 0 else '(0 - %d)' % -p
    if k == 'float':
        return fsrc(p) if p >= 0 else '(0.0 - %s)' % fsrc(-p)
    if k == 'str':
        return '"%s"' % p
    if k == 'bool':
        return 'true' if p else 'false'
    if k == 'tuple':
        return '{' + ', '.join('%s = %s' % (n, vsrc(x)) for n, x in p) + '}'
    return '[' + ', '.join(vsrc(x) for x in p) + ']'


# ------------------------------------------------------------------ the oracle
def compat(a, b):
    """same shape (exemplar a, value b); symmetric"""
    if a[0] != b[0]:
        return False
    if a[0] == 'tuple':
        fa, fb = dict(a[1]), dict(b[1])
        if not (set(fa) <= set(fb) or set(fb) <= set(fa)):
            return False
        return all(compat(fa[n], fb[n]) for n in set(fa) & set(fb))
    if a[0] == 'list':
        return (all(any(compat(x, y) for y in b[1]) for x in a[1]) or
                all(any(compat(x, y) for x in a[1]) for y in b[1]))
    return True


def equal(a, b):
    if a[0] != b[0]:
        return False
    if a[0] == 'tuple':
        return [n for n, _ in a[1]] == [n for n, _ in b[1]] and all(equal(x, y) for (_, x), (_, y) in zip(a[1], b[1]))
    if a[0] == 'list':
        return len(a[1]) == len(b[1]) and all(equal(x, y) for x, y in zip(a[1], b[1]))
    return a[1] == b[1]


def in_range(c, v):
    _, kind, lo, hi = c
    return v[0] == kind and (lo is None or lo <= v[1]) and (hi is None or v[1] <= hi)


def arm_admits(a, v):
    k = a[0]
    if k in ('ex', 'letex'):
        return equal(a[1], v)
    if k == 'rng':
        return in_range(a, v)
    if k == 'alt':
        return any(arm_admits(x, v) for x in a[1])
    return arm_admits(a[1], v)          # named: exactly like inline


def admits(c, v):
    k = c[0]
    if k in ('ex', 'letex'):
        return compat(c[1], v)
    if k == 'rng':
        return in_range(c, v)
    if k == 'alt':
        return any(arm_admits(x, v) for x in c[1])
    return admits(c[1], v)              # named


def static_only(c):
    """constraints no part of which the VM checks (pure exemplars)"""
    return c[0] in ('ex', 'letex') or (c[0] == 'named' and static_only(c[1]))


# ------------------------------------------------------------------ constraint source
def csrc(c, pre):
    """constraint text; statements it needs are appended to pre"""
    k = c[0]
    if k == 'ex':
        return vsrc(c[1])
    if k == 'rng':
        num = (lambda n: vsrc(('int', n))) if c[1] == 'int' else (lambda x: vsrc(('float', x)))
        return 'in %s..%s' % ('' if c[2] is None else num(c[2]), '' if c[3] is None else num(c[3]))
    if k == 'alt':
        return ' | '.join(csrc(a, pre) for a in c[1])
    if k == 'named':
        inner = csrc(c[1], pre)
        name = 'c%d' % len(pre)
        pre.append('constraint %s = %s;' % (name, inner))
        return name
    name = 'e%d' % len(pre)              # letex
    pre.append('let %s = %s;' % (name, vsrc(c[1])))
    return name


# ------------------------------------------------------------------ value forms
OTHER = {'int': S('w'), 'float': S('w'), 'str': I(1), 'bool': I(1), 'tuple': I(1), 'list': I(1)}


def exact_forms(v):
    """ways to compute v whose static type is exactly v's shape: name -> (prelude, expression)"""
    s = vsrc(v)
    f = {
        'literal': ([], s),
        'let': (['let vv = %s;' % s], 'vv'),
        'field': (['let tt = {f = %s, g = "other"};' % s], 'tt.f'),
        'nested': (['let tt = {f = {g = %s}};' % s], 'tt.f.g'),
        'paren': ([], '(%s)' % s),
        'constfunc': (['let ff = func() => %s;' % s], 'ff()'),
        'select1': ([], 'select (true, %s) => {true = %s}' % (s, s)),
        'homolist': (['let ll = [%s, %s];' % (s, s)], 'll.0'),
    }
    k, p = v
    if v != T():
        f['module'] = (['let mm = module {p = %s} => (r) { let r = mod.p; };' % s], 'mm{}')
    if k == 'int':
        if -I64_MAX < p:
            f['arith'] = ([], '%s + 1' % vsrc(I(p - 1)))
        if p >= 0:
            f['cast'] = ([], 'int("%d")' % p)
    elif k == 'float':
        if (p - 0.5) + 0.5 == p and abs(p) < 1e6:
            f['arith'] = ([], '%s + 0.5' % vsrc(F(p - 0.5)))
        if p >= 0:
            f['cast'] = ([], 'float("%s")' % fsrc(p))
    elif k == 'str':
        h = len(p) // 2
        f['concat'] = ([], '"%s" + "%s"' % (p[:h], p[h:]))
    elif k == 'bool':
        f['compare'] = ([], '(1 == 1)' if p else '(1 == 2)')
        f['not'] = ([], 'not false' if p else 'not true')
    elif k == 'list':
        if len(p) >= 2 and all(compat(x, y) for x in p for y in p):      # `+` itself refuses lists of different element types
            f['concat'] = ([], '%s + %s' % (vsrc(L(*p[:1])), vsrc(L(*p[1:]))))
    else:
        f['copy'] = (['let bb = %s;' % s], 'bb{}')
    return f


def loose_forms(v):
    """ways to compute v whose static type is unknown (None) or a union (list of candidate values)"""
    s, w = vsrc(v), OTHER[v[0]]
    f = {
        'identity': (['let idf = func(a) => a;'], 'idf(%s)' % s, None),
        'heterolist': (['let hl = [%s, %s];' % (s, vsrc(w))], 'hl.0', [v, w]),
        'heteroselect': ([], 'select (true, %s) => {true = %s, false = %s}' % (s, s, vsrc(w)), [v, w]),
    }
    if v[0] == 'list':
        f['emptyconcat'] = ([], '[] + %s' % s, None)
    if v == T():
        f['modparam_emptytuple'] = (['let mm = module {p = {}} => (r) { let r = mod.p; };'], 'mm{}', None)
    return f


def known_defect(form, c, v, cands):
    return form in KNOWN_FORMS and static_only(c) and not admits(c, v) and (cands is None or any(admits(c, w) for w in cands))


class Batch:
    def __init__(self):
        self.cases, self.meta, self.skipped = [], [], 0

    def add(self, c, v, form='literal'):
        ex = exact_forms(v)
        if form in ex:
            vpre, expr = ex[form]
        else:
            lf = loose_forms(v)
            if form not in lf:
                return
            vpre, expr, cands = lf[form]
            if known_defect(form, c, v, cands):
                self.skipped += 1
                return
        pre = []
        text = csrc(c, pre)
        self.add_program('\n'.join(pre + vpre + ['let x :: %s = %s;' % (text, expr)]), admits(c, v), form)

    def add_program(self, src, ok, form, files=None):
        """a whole program that must build iff `ok`; files = {absolute path: content} it imports"""
        self.cases.append(src)
        self.meta.append((ok, form, files))

    def run(self, name, bound):
        res = R.driver('buildfile', self.cases)
        bound = bound + (' [%d pairs skipped: KNOWN defects, see the KNOWN list]' % self.skipped if self.skipped else '')
        for src, (ok, form, files), (st, out) in zip(self.cases, self.meta, res):
            exp = 'builds' if ok else 'build error with a diagnostic'
            bad = None
            if st not in ('OK', 'ERR'):
                bad = 'the build did not end in a result or a diagnostic: %s %s' % (st, out[:160])
            elif ok and st != 'OK':
                bad = 'a conforming value is rejected: %s' % out[:200].replace('\n', ' ')
            elif not ok and st == 'OK':
                bad = 'a non-conforming value is admitted (build succeeds)'
            elif not ok and not out.strip():
                bad = 'rejected without a diagnostic'
            if bad:
                inp = dict(source=src, expected=exp, observed='%s %s' % (st, out[:300]), how=HOW, value_form=form)
                if files:
                    inp['files'] = files
                    inp['how'] = HOW + '; the imported files (key = path, value = content) must exist'
                return dict(name=name, bound=bound, cases=len(self.cases), status='violation',
                            detail='`%s`%s: %s' % (src.replace('\n', ' '), ''.join(' [%s = `%s`]' % (p, t.strip().replace('\n', ' ')) for p, t in (files or {}).items()), bad),
                            input=inp)
        return dict(name=name, bound=bound, cases=len(self.cases), status='ok')


# ------------------------------------------------------------------ family 1: exemplars
PRIM_EX = [I(1), I(0), S('s'), S(''), F(1.5), F(0.0), B(True), B(False)]
COMP_EX = [
    T(), L(),
    T(('a', I(1)), ('b', S('s'))),
    T(('a', I(1)), ('b', T(('c', S('s')), ('d', B(True))))),
    T(('a', T(('b', T(('c', F(1.5)))))), ('e', L(I(1)))),
    T(('a', L(T(('b', I(1))))), ('c', S('s'))),
    L(I(1)), L(I(1), S('s')), L(F(1.5), B(True), S('s')),
    L(L(I(1)), L(S('s'))), L(T(('a', I(1)))), L(T(('a', I(1))), T(('b', S('s')))),
    L(L(L(B(True)))), L(T(('a', L(I(1))), ('b', S('s'))), I(1)),
]
POOL = [I(0), I(7), F(0.0), F(2.5), S(''), S('text'), B(True), B(False), T(), T(('a', I(1))), T(('z', S('q'))),
        L(), L(I(3)), L(S('q')), L(L()), L(T())]
PRIMS = [I(1), S('s'), F(1.5), B(True)]


def gen_shape(rnd, d):
    r = rnd.random()
    if d == 0 or r < 0.3:
        return rnd.choice(PRIMS)
    if r < 0.68:
        return T(*[(n, gen_shape(rnd, d - 1)) for n in rnd.sample(['a', 'b', 'c', 'd'], rnd.randint(0, 3))])
    return L(*[gen_shape(rnd, d - 1) for _ in range(rnd.randint(0, 3))])


def bump(v):
    """same shape, other value"""
    k, p = v
    if k == 'int': return I(p + 41)
    if k == 'float': return F(p + 2.0)
    if k == 'str': return S(p + 'x')
    if k == 'bool': return B(not p)
    if k == 'tuple': return T(*[(n, bump(x)) for n, x in p])
    return L(*[bump(x) for x in p])


def mutants(v):
    """systematic edits of v: every single-node change at every depth"""
    k, p = v
    out = []
    if k in ('int', 'float', 'str', 'bool'):
        out += [w for w in PRIMS if w[0] != k] + [T(), L(), L(v), T(('a', v))]
        return out
    out += [I(1), S('s')]
    if k == 'tuple':
        out += [T(), L(), T(*reversed(p)), T(*(p + [('z', I(1))]))]
        for i in range(len(p)):
            out.append(T(*(p[:i] + p[i + 1:])))                              # drop a field
            out.append(T(*(p[:i] + p[i + 1:] + [('z', B(True))])))           # drop one, add another
            for m in mutants(p[i][1]):
                out.append(T(*(p[:i] + [(p[i][0], m)] + p[i + 1:])))         # change a field at any depth
    else:
        new = B(True) if all(x[0] != 'bool' for x in p) else T(('q', I(1)))
        out += [L(), T(), L(*(p + p)), L(*(p + [new])), L(new)]
        for i in range(len(p)):
            out.append(L(*(p[:i] + p[i + 1:])))
            for m in mutants(p[i]):
                out.append(L(*(p[:i] + [m] + p[i + 1:])))
    return out


def dedup(vs):
    seen, out = set(), []
    for v in vs:
        s = vsrc(v)
        if s not in seen:
            seen.add(s)
            out.append(v)
    return out


def standin_exemplar_shapes(tier, seed):
    rnd = random.Random(seed)
    thorough = tier == 'thorough'
    exs = PRIM_EX + COMP_EX + [gen_shape(rnd, 3) for _ in range(10 if thorough else 3)]
    b = Batch()
    for e in exs:
        vals = dedup([e, bump(e)] + mutants(e) + POOL + [gen_shape(rnd, 3) for _ in range(4 if thorough else 2)])
        keep, extra = (4, 14) if thorough else (2, 6)
        if len(vals) > keep + extra:
            vals = vals[:keep] + rnd.sample(vals[keep:], extra)
        for v in vals:
            wrappers = [('ex', e), ('named', ('ex', e)), ('letex', e)]
            if not thorough:
                wrappers = [wrappers[0], rnd.choice(wrappers[1:])]
            for c in wrappers:
                b.add(c, v, 'literal')
            ex = sorted(set(exact_forms(v)) - {'literal'})
            lo = sorted(loose_forms(v))
            b.add(rnd.choice(wrappers), v, rnd.choice(ex))
            if thorough or rnd.random() < 0.3:
                b.add(rnd.choice(wrappers), v, rnd.choice(lo))
    return b.run('exemplar_shapes',
                 '%d exemplars (8 primitive, %d fixed tuple/list exemplars nested to depth 3, %d seeded random ones) x {inline, `constraint` name, let-bound} '
                 'x (the exemplar, a same-shape other value, every single-node edit at every depth [drop/add/retype a field or element, reorder, empty], '
                 '16 values of all types, seeded random values), literal and one computed form each' % (len(exs), len(COMP_EX), len(exs) - len(PRIM_EX) - len(COMP_EX)))


# ------------------------------------------------------------------ family 2: ranges
INT_RANGES = [(1, 3), (1, None), (None, 3), (0, 0), (-2, 2), (-2, -1), (5, 7), (3, 1), (None, I64_MAX), (I64_MAX - 1, I64_MAX), (-I64_MAX, None)]
FLOAT_RANGES = [(1.5, 3.5), (1.5, None), (None, 2.5), (-1.5, 1.5), (0.0, 1.0), (0.25, 0.25), (3.5, 1.5)]
NON_NUM = [S('s'), S('2'), B(True), L(I(2)), T(('a', I(2)))]
FAR = 100


def range_values(kind, lo, hi):
    vs = []
    for bnd in (lo, hi):
        if bnd is None:
            continue
        if kind == 'int':
            vs += [I(n) for n in (bnd - 1, bnd, bnd + 1) if -I64_MAX <= n <= I64_MAX]
            if abs(bnd) < 1000:
                vs.append(F(bnd))
        else:
            vs += [F(bnd - 0.5), F(bnd - 0.001), F(bnd), F(bnd + 0.001), F(bnd + 0.5)]
            if bnd == int(bnd):
                vs.append(I(int(bnd)))
            else:
                vs += [I(int(bnd)), I(int(bnd) + 1)]
    if lo is not None and hi is not None and lo < hi:
        vs.append(I((lo + hi) // 2) if kind == 'int' else F((lo + hi) / 2))
    vs += [I(0), I(2), F(2.0), I(FAR - 1), I(FAR), I(FAR + 1), F(float(FAR))]
    return dedup(vs + NON_NUM)


def standin_range_bounds(tier, seed):
    rnd = random.Random(seed)
    thorough = tier == 'thorough'
    b = Batch()
    ranges = [('rng', 'int', lo, hi) for lo, hi in INT_RANGES] + [('rng', 'float', lo, hi) for lo, hi in FLOAT_RANGES]
    for r in ranges:
        far = ('ex', I(FAR)) if r[1] == 'int' else ('ex', F(float(FAR)))
        wrappers = [r, ('named', r), ('alt', [r, far]), ('alt', [far, r]), ('alt', [('named', r), far]), ('named', ('alt', [far, r])),
                    ('alt', [('ex', S('k')), ('named', r)]), ('named', ('named', r))]
        for v in range_values(r[1], r[2], r[3]):
            ex = sorted(set(exact_forms(v)) - {'literal'})
            lf = sorted(loose_forms(v))
            for c in (wrappers if thorough else [r] + rnd.sample(wrappers[1:], 1)):
                b.add(c, v, 'literal')
                if thorough:
                    b.add(c, v, rnd.choice(ex))
            forms = ex + lf if thorough else [rnd.choice(ex), rnd.choice(lf)]
            for f in forms:
                b.add(r if thorough else rnd.choice(wrappers), v, f)
    return b.run('range_bounds',
                 '%d int and %d float ranges (closed, half-open, single-point, empty, negative, at i64::MAX) x %s of 8 spellings (inline, named, named twice, as first / last '
                 'alternative next to a literal, named as an alternative, inside a named alternation) x (lo-1, lo, lo+1, hi-1, hi, hi+1 [floats: +-0.5, +-0.001], midpoint, '
                 'the same numbers in the other numeric type, the neighbouring literal +-1, strings, booleans, lists, tuples), literal and %s'
                 % (len(INT_RANGES), len(FLOAT_RANGES), 'all' if thorough else '2 (inline + 1 seeded)', 'every computed form' if thorough else 'two seeded computed forms'))


# ------------------------------------------------------------------ family 3: alternations
ARMS = [('ex', I(1)), ('ex', I(2)), ('ex', I(9)), ('ex', I(-1)), ('ex', S('a')), ('ex', S('b')), ('ex', S('')), ('ex', F(1.5)), ('ex', B(True)),
        ('rng', 'int', 5, 7), ('rng', 'int', 1, 3), ('rng', 'int', 10, None), ('rng', 'int', None, 0), ('rng', 'float', 1.5, 2.5),
        ('named', ('rng', 'int', 5, 7)), ('named', ('alt', [('ex', I(1)), ('ex', I(2))])), ('named', ('ex', I(3))), ('named', ('ex', S('a'))),
        ('named', ('alt', [('rng', 'int', 20, 30), ('ex', S('z'))])), ('letex', I(4)), ('letex', S('c')),
        ('ex', T(('a', I(1)))), ('ex', L(I(1))), ('named', ('ex', T(('a', I(1)), ('b', S('s')))))]
ALT_VALUES = dedup([I(n) for n in (-2, -1, 0, 1, 2, 3, 4, 5, 6, 7, 8, 9, 10, 11, 19, 20, 30, 31)] +
                   [F(x) for x in (1.0, 1.499, 1.5, 2.0, 2.5, 2.501, 9.0)] + [S(s) for s in ('', 'a', 'b', 'c', 'z', 'ab', '1')] +
                   [B(True), B(False), T(('a', I(1))), T(('a', I(2))), T(('a', I(1)), ('b', S('s'))), T(('a', I(1)), ('b', S('t'))), T(), L(I(1)), L(I(2)), L(), L(I(1), I(1))])


def flat_arms(a):
    if a[0] == 'named':
        return flat_arms(a[1])
    if a[0] == 'alt':
        return [y for x in a[1] for y in flat_arms(x)]
    return [a]


def relevant(arms, rnd, extra):
    """values that decide each arm: its literal, the numbers around it, its range boundaries; plus seeded others"""
    vs = []
    for a in [y for x in arms for y in flat_arms(x)]:
        if a[0] in ('ex', 'letex'):
            v = a[1]
            vs.append(v)
            if v[0] == 'int':
                vs += [I(v[1] - 1), I(v[1] + 1), F(float(v[1]))]
            elif v[0] == 'float':
                vs += [F(v[1] - 0.5), F(v[1] + 0.001), I(int(v[1]))]
            elif v[0] == 'str':
                vs += [S(v[1] + 'x'), S('')]
            elif v[0] == 'bool':
                vs.append(B(not v[1]))
            else:
                vs += [bump(v), T(), L()]
        else:
            for bnd in (a[2], a[3]):
                if bnd is not None:
                    vs += [I(bnd - 1), I(bnd), I(bnd + 1)] if a[1] == 'int' else [F(bnd - 0.001), F(bnd), F(bnd + 0.001)]
    return dedup(vs + rnd.sample(ALT_VALUES, extra))


def respell(arms, rnd):
    """the same alternation written with names: whole, a prefix, a suffix"""
    out = [('named', ('alt', arms))]
    if len(arms) >= 3:
        k = rnd.randint(2, len(arms) - 1)
        out.append(('alt', [('named', ('alt', arms[:k]))] + arms[k:]))
        out.append(('alt', arms[:len(arms) - k] + [('named', ('alt', arms[len(arms) - k:]))]))
    else:
        i = rnd.randrange(len(arms))
        out.append(('alt', [('named', a) if j == i else a for j, a in enumerate(arms)]))
    return out


def standin_alternations(tier, seed):
    rnd = random.Random(seed)
    thorough = tier == 'thorough'
    alts = []
    if thorough:
        alts += [[a, c] for a in ARMS for c in ARMS if a is not c]
    else:
        alts += [rnd.sample(ARMS, 2) for _ in range(15)]
    nmore = 60 if thorough else 10
    for n in (3, 4):
        alts += [rnd.sample(ARMS, n) for _ in range(nmore)]
    b = Batch()
    for arms in alts:
        vals = relevant(arms, rnd, 2)
        if not thorough and len(vals) > 9:
            vals = rnd.sample(vals, 9)
        elif thorough and len(vals) > (8 if len(arms) == 2 else 12):
            vals = rnd.sample(vals, 8 if len(arms) == 2 else 12)
        spell = [('alt', arms)] + respell(arms, rnd)
        for v in vals:
            for c in spell:
                b.add(c, v, 'literal')
            f = sorted((set(exact_forms(v)) | set(loose_forms(v))) - {'literal'})
            b.add(rnd.choice(spell), v, rnd.choice(f))
    return b.run('alternations',
                 '%s alternations of 2 and %d seeded of 3..4 alternatives over %d arms (int / negative / string / float / bool / tuple / list literals, closed and half-open int '
                 'and float ranges, `constraint` names of a range, a literal, an alternation, let-bound literals), each inline, wholly named and with a named '
                 'prefix / suffix / single alternative x (up to %d seeded of: every literal, its neighbours, every range boundary -1/0/+1, values of other types), literal and one computed form'
                 % ('all %d ordered' % (len(ARMS) * (len(ARMS) - 1)) if thorough else '15 seeded', 2 * nmore, len(ARMS), 12 if thorough else 9))


# ------------------------------------------------------------------ family 4: the documented recursive constraints
def tree(rnd, height, bad_depth=None, bad=None):
    """a value of `node = "" | {name = "", attrs = {}, children = [node]}` of the given height.  With bad_depth = d (<= height) it is a
    chain of single children whose node at depth d is `bad` (no siblings: a list with one admissible and one inadmissible element is
    admitted by the 'one side' reading of the list rule)."""
    if bad_depth == 0:
        return bad
    if height == 0:
        return S('text')
    if bad_depth is not None:
        kids = [tree(rnd, height - 1, bad_depth - 1, bad)]
    else:
        kids = [tree(rnd, rnd.randint(0, height - 1)) for _ in range(rnd.randint(0, 2))]
        kids.insert(rnd.randint(0, len(kids)), tree(rnd, height - 1))
    return T(('name', S('n%d' % height)), ('attrs', T()), ('children', L(*kids)))


def standin_recursive_documented(tier, seed):
    """typechecking.md "Recursive Constraints": the shape is validated at all nesting depths; a wrong type at any depth is an error;
    a self-reference without a base case is rejected.  Own driver call (a crash here must not disturb the other families)."""
    rnd = random.Random(seed)
    decl = 'constraint node = "" | {name = "", attrs = {}, children = [node]};\n'
    cases, exp = [], []
    # the real checker needs ~15 ms at depth 2, ~0.3 s at depth 3, ~4 s at depth 4, ~80 s at depth 5: depth is kept small
    for d in range(0, 4 if tier == 'thorough' else 3):
        for _ in range(2):
            cases.append(decl + 'let x :: node = %s;' % vsrc(tree(rnd, d))); exp.append(True)
            cases.append(decl + 'let x :: [node] = [%s, "t"];' % vsrc(tree(rnd, d))); exp.append(True)
        for bad in (I(42), B(True), F(1.5)):
            for at in range(0, d + 1):
                cases.append(decl + 'let x :: node = %s;' % vsrc(tree(rnd, d, at, bad))); exp.append(False)
    cases += ['constraint lst = [lst];\nlet x :: lst = [];', 'constraint lst = [lst];\nlet x :: lst = [[], [[], []]];']
    exp += [True, True]
    cases += ['constraint lst = [lst];\nlet x :: lst = [[[1]]];', 'constraint bad = {child = bad};', 'constraint bad = bad;']
    exp += [False, False, False]
    res = R.driver('buildfile', cases)
    bound = ('the documented recursive constraints: `node = "" | {name, attrs, children = [node]}` (also as `[node]`) x seeded trees of depth 0..%d, '
             'valid and with one leaf of a wrong type (int, bool, float/list) at every depth; `[lst]`; the two documented unconstructible forms') % (3 if tier == 'thorough' else 2)
    for src, ok, (st, out) in zip(cases, exp, res):
        if (st != 'OK') if ok else (st != 'ERR' or not out.strip()):
            return dict(name='recursive_documented', bound=bound, cases=len(cases), status='violation',
                        detail='`%s`: expected %s, observed %s %s' % (src.replace('\n', ' ')[:300], 'a successful build' if ok else 'a build error with a diagnostic', st, out[:160].replace('\n', ' ')),
                        input=dict(source=src, expected='builds' if ok else 'build error with a diagnostic', observed='%s %s' % (st, out[:300]), how=HOW))
    return dict(name='recursive_documented', bound=bound, cases=len(cases), status='ok')


# ------------------------------------------------------------------ family 5: a named constraint reached through an expression
# "A named constraint behaves exactly like the same constraint written inline" - whatever expression names it in constraint
# position.  The grammar of HEAD accepts after `::` a name, a parenthesised expression (so every selector / import needs
# parentheses: `:: t.f` and `:: (in 1..3)` are parse errors and not in the family), a call, a module instantiation and a
# select; a range can only be written in a `constraint` statement or inline, so the constraint is always defined by a statement
# and then handed around as a value.
LOOSE_REACH = {'identity', 'func_of_field', 'select_two', 'heterolist', 'import_inline'}


def reach(form, defs, n, libpath):
    """How constraint `n` (defined by the statements `defs`) is reached: -> (statements before the let, constraint expression,
    content of the imported file or None).  Forms in LOOSE_REACH give the constraint expression an unknown / union static type."""
    body = ' '.join(defs)
    imp = 'let lib = import "%s";' % libpath
    top = lambda stmts, expr: (defs + stmts, expr, None)
    lib = lambda stmts, expr, more=(): (stmts, expr, '\n'.join(defs + list(more)) + '\n')
    t = {
        'name': lambda: top([], n),
        'paren': lambda: top([], '(%s)' % n),
        'paren2': lambda: top([], '((%s))' % n),
        'let_alias': lambda: top(['let al = %s;' % n], 'al'),
        'constraint_alias': lambda: top(['constraint al = %s;' % n], 'al'),
        'alias_chain': lambda: top(['let al = %s;' % n, 'constraint am = al;', 'let an = (am);'], 'an'),
        'field': lambda: top(['let kt = {f = %s, g = "other"};' % n], '(kt.f)'),
        'quoted_field': lambda: top(['let kt = {f = %s};' % n], '(kt."f")'),
        'nested_field': lambda: top(['let kt = {f = {g = %s}};' % n], '(kt.f.g)'),
        'copied_field': lambda: top(['let k0 = {f = %s};' % n, 'let kt = k0{h = 1};'], '(kt.f)'),
        'list_elem0': lambda: top(['let kl = [%s, %s];' % (n, n)], '(kl.0)'),
        'list_elem1': lambda: top(['let kl = [%s, %s];' % (n, n)], '(kl.1)'),
        'tuple_in_list': lambda: top(['let kl = [{f = %s}];' % n], '(kl.0.f)'),
        'constfunc': lambda: top(['let kf = func() => %s;' % n], 'kf()'),
        'constfunc_paren': lambda: top(['let kf = func() => %s;' % n], '(kf())'),
        'func_returning_field': lambda: top(['let kt = {f = %s};' % n, 'let kf = func() => kt.f;'], 'kf()'),
        'select': lambda: top([], 'select (true, %s) => {true = %s}' % (n, n)),
        'select_paren': lambda: top([], '(select ("a", %s) => {a = %s})' % (n, n)),
        'select_default': lambda: top([], 'select ("zz", %s) => {a = %s}' % (n, n)),
        'module_param': lambda: top(['let km = module {p = %s} => (r) { let r = mod.p; };' % n], 'km{}'),
        'module_out': lambda: ([('let km = module {} => (r) { %s let r = %s; };' % (body, n))], 'km{}', None),
        'module_out_paren': lambda: ([('let km = module {} => (r) { %s let r = %s; };' % (body, n))], '(km{})', None),
        'module_field': lambda: ([('let km = module {} => { %s let r = %s; };' % (body, n))], '(km{}.r)', None),
        'module_instance_field': lambda: ([('let km = module {} => { %s let r = %s; };' % (body, n)), 'let ki = km{};'], '(ki.r)', None),
        'import_field': lambda: lib([imp], '(lib.%s)' % n),
        'import_alias': lambda: lib([imp, 'let al = lib.%s;' % n], 'al'),
        'import_nested': lambda: lib([imp], '(lib.kt.f)', ['let kt = {f = %s};' % n]),
        'import_in_tuple': lambda: lib([imp, 'let kt = {f = lib.%s};' % n], '(kt.f)'),
        'import_func': lambda: lib([imp, 'let kf = func() => lib.%s;' % n], 'kf()'),
        # unknown / union static type of the constraint expression: only the VM can check
        'identity': lambda: top(['let kf = func(a) => a;'], 'kf(%s)' % n),
        'func_of_field': lambda: top(['let kf = func(t) => t.f;'], 'kf({f = %s})' % n),
        'select_two': lambda: top([], 'select (true, %s) => {true = %s, false = "w"}' % (n, n)),
        'heterolist': lambda: top(['let kl = [%s, "w"];' % n], '(kl.0)'),
        'import_inline': lambda: lib([], '((import "%s").%s)' % (libpath, n)),
    }
    return t[form]()


REACH_FORMS = ['name', 'paren', 'paren2', 'let_alias', 'constraint_alias', 'alias_chain', 'field', 'quoted_field', 'nested_field', 'copied_field',
               'list_elem0', 'list_elem1', 'tuple_in_list', 'constfunc', 'constfunc_paren', 'func_returning_field', 'select', 'select_paren', 'select_default',
               'module_param', 'module_out', 'module_out_paren', 'module_field', 'module_instance_field',
               'import_field', 'import_alias', 'import_nested', 'import_in_tuple', 'import_func',
               'identity', 'func_of_field', 'select_two', 'heterolist', 'import_inline']
REACH_RANGES = [('rng', 'int', 1, 3), ('rng', 'int', 1, None), ('rng', 'int', None, 3), ('rng', 'int', -2, 2), ('rng', 'int', 0, 0), ('rng', 'int', 1, 65535),
                ('rng', 'float', 1.5, 3.5), ('rng', 'float', None, 2.5), ('rng', 'float', 0.0, 1.0)]
REACH_ALTS = [('alt', [('ex', I(1)), ('ex', S('a'))]), ('alt', [('ex', S('a')), ('ex', S('b'))]), ('alt', [('ex', I(200)), ('ex', I(404)), ('ex', I(500))]),
              ('alt', [('rng', 'int', 1, 3), ('ex', I(8080)), ('ex', S('none'))]), ('alt', [('rng', 'int', 1, 10), ('rng', 'int', 20, 30)]),
              ('alt', [('ex', F(1.5)), ('ex', B(True))]), ('alt', [('ex', T(('a', I(1)))), ('ex', L(I(1)))]),
              ('alt', [('named', ('rng', 'int', 5, 7)), ('ex', I(9))]), ('alt', [('rng', 'float', 1.5, 2.5), ('named', ('alt', [('ex', S('x')), ('ex', S('y'))]))])]
REACH_EXEMPLARS = [I(0), S(''), F(0.0), B(False), T(('a', I(0)), ('b', S(''))), L(I(0)), T(('a', T(('b', L(S(''))))), ('c', B(True))), L(T(('a', I(0))))]
SPELL_ARM = S('zz9')


def reach_values(K, rnd, n):
    """the values that decide K (boundaries, literals and their neighbours, other types)"""
    if K[0] == 'rng':
        vs = range_values(K[1], K[2], K[3])
        edge = [v for v in vs if v[0] == K[1] and any(b is not None and abs(v[1] - b) <= 1 for b in (K[2], K[3]))]
    elif K[0] == 'alt':
        vs = relevant(K[1], rnd, 2)
        kinds = set(a[1] if a[0] == 'rng' else a[1][0] for a in flat_arms(K))
        edge = [v for v in vs if not admits(K, v) and v[0] in kinds] + [v for v in vs if admits(K, v)][:2]
    else:
        e = K[1]
        vs = dedup([e, bump(e)] + mutants(e) + POOL)
        edge = [e, bump(e)] + mutants(e)[:3]
    if n is None or len(vs) <= n:
        return vs
    edge = dedup(edge)
    keep = edge if len(edge) <= n - 1 else rnd.sample(edge, n - 1)
    rest = [v for v in vs if v not in keep]
    return keep + rnd.sample(rest, min(len(rest), n - len(keep)))


def cli_relative_imports(rnd):
    """the same through the real CLI with the library next to the program (relative import paths): number of cases, or a violation"""
    import os, shutil, tempfile
    d = tempfile.mkdtemp(prefix='verif_c06cli_')
    lib = 'constraint port = in 1..10;\nconstraint lvl = "a" | "b";\nlet ex = {a = 0, b = ""};\nlet holder = {p = port};\nlet give = func() => lvl;\n'
    try:
        os.makedirs(os.path.join(d, 'sub'))
        for rel in ('lib.ucg', os.path.join('sub', 'lib.ucg')):
            open(os.path.join(d, rel), 'w').write(lib)
        progs = []
        for rel in ('lib.ucg', 'sub/lib.ucg'):
            imp = 'let lib = import "%s";\n' % rel
            for expr, K, vals in [('(lib.port)', ('rng', 'int', 1, 10), [I(0), I(1), I(10), I(11), I(50), S('a')]),
                                  ('(lib.lvl)', alt_of(S('a'), S('b')), [S('a'), S('b'), S('c'), I(1)]),
                                  ('(lib.holder.p)', ('rng', 'int', 1, 10), [I(10), I(11)]),
                                  ('(lib.ex)', ('ex', T(('a', I(0)), ('b', S('')))), [T(('a', I(1))), T(('a', S('s'))), I(1)]),
                                  ('(lib.lvl) | 7', ('alt', [('named', alt_of(S('a'), S('b'))), ('ex', I(7))]), [S('b'), I(7), I(8)])]:
                if rel == 'lib.ucg' or expr == '(lib.port)':
                    progs.append((imp + 'let x :: %s = %s;\n' % (expr, vsrc(rnd.choice([v for v in vals if not admits(K, v)]))), False))
                if rel != 'lib.ucg' and expr == '(lib.lvl)':
                    progs.append((imp + 'let x :: %s = %s;\n' % (expr, vsrc(rnd.choice([v for v in vals if admits(K, v)]))), True))
            if rel == 'lib.ucg':
                progs.append((imp + 'let al = lib.port;\nlet x :: al = 11;\n', False))
                progs.append((imp + 'let kf = func() => lib.port;\nlet x :: kf() = 10;\n', True))
        for i, (src, ok) in enumerate(progs):
            open(os.path.join(d, 'p%d.ucg' % i), 'w').write(src)
            rc, out, err = R.run_ucg(['build', 'p%d.ucg' % i], d)
            if (rc == 0) != ok or (not ok and not (out + err).strip()) or rc not in (0, 1):
                return dict(detail='`%s` [lib.ucg = `%s`]: `ucg build` exit status %d, expected %s' % (src.strip().replace('\n', ' '), lib.strip().replace('\n', ' '), rc, 'success' if ok else 'a build error'),
                            input=dict(source=src, files={'lib.ucg and sub/lib.ucg': lib}, expected='builds (exit 0)' if ok else 'build error (exit status != 0) with a diagnostic',
                                       observed='exit %d %s' % (rc, (out + err)[:300]), how='real CLI: `ucg build pN.ucg` in a directory holding the program, lib.ucg and sub/lib.ucg'))
        return len(progs)
    finally:
        shutil.rmtree(d, ignore_errors=True)


def standin_named_reach(tier, seed):
    import os, shutil, tempfile
    rnd = random.Random(seed)
    thorough = tier == 'thorough'
    libdir = tempfile.mkdtemp(prefix='verif_c06_')
    files = {}
    b = Batch()

    def one(K, kind, form, v, spell, vform='literal'):
        """kind: 'constraint' (`constraint n = K;`) or 'let' (`let n = <exemplar>;`); spell: None, 'first', 'last' (the reached
        constraint is one alternative next to the literal "zz9")"""
        pre = []
        inner = csrc(K, pre)
        defs = pre + ['%s n = %s;' % (kind, inner)]
        path = os.path.join(libdir, 'l%d.ucg' % len(files))
        stmts, expr, libtext = reach(form, defs, 'n', path)
        used = None
        if libtext is not None:
            if libtext in files:
                path = files[libtext]
                stmts, expr, libtext = reach(form, defs, 'n', path)
            else:
                files[libtext] = path
                open(path, 'w').write(libtext)
            used = {path: libtext}
        oracle = K
        if spell:
            arms = [('named', K), ('ex', SPELL_ARM)]
            oracle = ('alt', arms if spell == 'first' else arms[::-1])
            expr = '%s | %s' % (expr, vsrc(SPELL_ARM)) if spell == 'first' else '%s | %s' % (vsrc(SPELL_ARM), expr)
        vpre, vexpr = exact_forms(v)[vform]
        b.add_program('\n'.join(stmts + vpre + ['let x :: %s = %s;' % (expr, vexpr)]), admits(oracle, v), 'constraint reached by %s%s, value %s' % (form, ' as an alternative' if spell else '', vform), used)

    try:
        for form in REACH_FORMS:
            checked = REACH_RANGES + REACH_ALTS
            ks = [(K, 'constraint') for K in (checked if thorough else [rnd.choice(REACH_RANGES[:5]), rnd.choice(REACH_RANGES[5:]), rnd.choice(REACH_ALTS[:4]), rnd.choice(REACH_ALTS[4:])])]
            if form not in LOOSE_REACH:         # a pure exemplar is checked statically only: keep clear of the KNOWN class of unknown static types
                exs = REACH_EXEMPLARS if thorough else rnd.sample(REACH_EXEMPLARS, 2)
                ks += [(('ex', e), rnd.choice(['constraint', 'let']) if not thorough else k) for e in exs for k in (['constraint', 'let'] if thorough else [None])]
            for K, kind in ks:
                vals = reach_values(K, rnd, (12 if K[0] != 'ex' else 8) if thorough else 5)
                for v in vals:
                    one(K, kind, form, v, None)
                if K[0] != 'ex':
                    for v in rnd.sample(vals, min(4 if thorough else 2, len(vals))) + [SPELL_ARM]:
                        one(K, kind, form, v, rnd.choice(['first', 'last']))
                if thorough:
                    for v in rnd.sample(vals, min(3, len(vals))):
                        one(K, kind, form, v, None, rnd.choice(sorted(set(exact_forms(v)) - {'literal', 'module'})))
        # bounds of an inline range spelled by names / expressions instead of literals (the bound is what the expression evaluates to)
        for (lo, hi) in [(1, 3), (-2, 2), (0, 0)] + ([(1, 65535), (5, 7)] if thorough else []):
            for los, his, pre in [('lo', 'hi', ['let lo = %s;' % vsrc(I(lo)), 'let hi = %s;' % vsrc(I(hi))]), ('(%s + 1)' % vsrc(I(lo - 1)), '(%s - 1)' % vsrc(I(hi + 1)), []),
                                  ('(bt.lo)', '(bt.hi)', ['let bt = {lo = %s, hi = %s};' % (vsrc(I(lo)), vsrc(I(hi)))])]:
                for v in range_values('int', lo, hi):
                    b.add_program('\n'.join(pre + ['let x :: in %s..%s = %s;' % (los, his, vsrc(v))]), in_range(('rng', 'int', lo, hi), v), 'range bounds spelled as expressions')
        ncli = 9
        r = b.run('named_reach',
                  '%d ways to reach a named constraint in constraint position (bare / parenthesised name, let / constraint alias, tuple field [plain, quoted, nested, copied, in a list], '
                  'list element, function result, select, module parameter / output / field, imported file [field, alias, nested, via tuple, via function], and 5 of unknown static '
                  'type [identity function, function of a field, two-branch select, mixed list, selector on an inline import], run with ranges / alternations only) x %s of (%d ranges, '
                  '%d alternations [each also as first / last alternative next to a literal], %d exemplars by `constraint` and by `let`) x %s; int range bounds spelled by names, arithmetic, '
                  'tuple fields; %d programs importing `lib.ucg` / `sub/lib.ucg` by relative path built by the real `ucg build` (exit status)'
                  % (len(REACH_FORMS), 'all' if thorough else 'seeded 4 + 2', len(REACH_RANGES), len(REACH_ALTS), len(REACH_EXEMPLARS),
                     'up to 12 deciding values (lo-1, lo, lo+1, hi-1, hi, hi+1, every literal and its neighbours first, then other types), literal and 3 computed' if thorough
                     else '5 seeded deciding values', ncli))
        if r['status'] != 'ok':
            return r
        cli = cli_relative_imports(rnd)
        if not isinstance(cli, int):
            return dict(name='named_reach', bound=r['bound'], cases=r['cases'], status='violation', detail=cli['detail'], input=cli['input'])
        assert cli == ncli
        r['cases'] += cli
        return r
    finally:
        shutil.rmtree(libdir, ignore_errors=True)


# ------------------------------------------------------------------ family 6: a constrained binding used as the value of a second constrained let
# `let x :: C1 = V; let y :: C2 = <use of x>;` - the bound value of the second let is what the use of x evaluates to (V itself, a
# list / tuple around it, one of its fields, ...), so the program builds iff V conforms to C1 AND that value conforms to C2:
# what C1 says about OTHER values (the alternatives not taken, exemplar fields / element types V does not have) is irrelevant.
def alt_of(*vs): return ('alt', [('ex', v) for v in vs])


CHAIN_FIRST = [
    # alternations over more than one type (inline / named), each alternative as the value
    (alt_of(I(1), S('a')), [I(1), S('a')]),
    (('alt', [('rng', 'int', 1, 3), ('ex', S('none'))]), [I(2), S('none')]),
    (('named', ('alt', [('rng', 'int', 1, 3), ('ex', S('none'))])), [I(3), S('none')]),
    (('named', alt_of(S('a'), F(1.5), B(True))), [S('a'), F(1.5), B(True)]),
    (alt_of(T(('a', I(1))), S('s')), [T(('a', I(1))), S('s')]),
    (alt_of(L(I(1)), I(1)), [L(I(1)), I(1)]),
    (alt_of(T(('a', I(1))), T(('a', S('s')))), [T(('a', I(1))), T(('a', S('s')))]),
    (alt_of(L(I(1)), L(S('s'))), [L(I(1)), L(S('s'))]),
    (('alt', [('named', ('rng', 'float', 0.0, 1.0)), ('ex', S('off')), ('named', ('ex', B(False)))]), [F(0.5), S('off'), B(False)]),
    (('alt', [('letex', I(4)), ('letex', S('c'))]), [I(4), S('c')]),
    # tuple exemplars with fewer / more / other fields than the value
    (('ex', T(('a', I(0)))), [T(('a', I(1)), ('b', I(2))), T(('a', I(1)), ('b', S('s'))), T(('a', I(1))), T()]),
    (('ex', T(('a', I(0)), ('b', S('')))), [T(('a', I(1))), T(('a', I(1)), ('b', S('t'))), T(('a', I(1)), ('b', S('t')), ('c', B(True))), T(('b', S('t')))]),
    (('ex', T()), [T(('a', I(1))), T(('a', S('s')), ('b', L(I(1))))]),
    (('named', ('ex', T(('a', T(('b', I(0))))))), [T(('a', T(('b', I(1)), ('c', S('s'))))), T(('a', T(('b', I(1)))), ('d', F(1.5)))]),
    (('letex', T(('a', I(0)), ('l', L(S(''))))), [T(('a', I(1)), ('l', L(S('p'), S('q'))), ('k', B(True))), T(('l', L()))]),
    (('ex', T(('l', L(S(''))))), [T(('l', L())), T(('l', L()), ('k', I(1)))]),
    # list exemplars with fewer / more element types than the value
    (('ex', L()), [L(I(1)), L(S('s'), S('t')), L(L(I(1)))]),
    (('ex', L(I(0))), [L(), L(I(1), I(2))]),
    (('ex', L(I(0), S(''))), [L(I(1)), L(S('s')), L()]),
    (('named', ('ex', L(T(('a', I(0)))))), [L(T(('a', I(1)), ('b', I(2)))), L(T(('a', I(1))), T(('a', I(2))))]),
    (('letex', L(L(I(0)))), [L(L(I(1)), L(I(2), I(3))), L(L())]),
    # plain exemplars, ranges (the binding has the type of the value anyway)
    (('ex', I(0)), [I(7)]), (('named', ('ex', S(''))), [S('text')]), (('letex', F(0.0)), [F(2.5)]), (('ex', B(True)), [B(False)]),
    (('rng', 'int', 1, 3), [I(2)]), (('named', ('rng', 'float', 0.0, 1.0)), [F(0.5)]), (('rng', 'int', 1, None), [I(8080)]),
    # the first let does not admit the value: the build fails whatever follows
    (alt_of(I(1), S('a')), [I(2)]), (('ex', T(('a', I(0)))), [T(('a', S('s')))]), (('rng', 'int', 1, 3), [I(4)]),
]


def use_forms(v):
    """uses of the binding x (holding v) with an exactly known static type: name -> (statements, expression, the value it evaluates to)"""
    f = {
        'direct': ([], 'x', v),
        'paren': ([], '(x)', v),
        'alias': (['let z = x;'], 'z', v),
        'alias2': (['let z = x;', 'let w = (z);'], 'w', v),
        'in_list': ([], '[x]', L(v)),
        'in_list2': ([], '[x, x]', L(v, v)),
        'in_tuple': ([], '{f = x}', T(('f', v))),
        'in_nested': ([], '{f = [x], g = 1}', T(('f', L(v)), ('g', I(1)))),
        'field': (['let tt = {f = x, g = "other"};'], 'tt.f', v),
        'nested_field': (['let tt = {f = {g = x}};'], 'tt.f.g', v),
        'list_elem': (['let ll = [x, x];'], 'll.0', v),
        'constfunc': (['let ff = func() => x;'], 'ff()', v),
        'func_list': (['let ff = func() => [x];'], 'ff()', L(v)),
        'select1': ([], 'select (true, x) => {true = x}', v),
    }
    if v != T():
        f['module'] = (['let mm = module {p = x} => (r) { let r = mod.p; };'], 'mm{}', v)
    if v[0] == 'tuple':
        f['copy'] = ([], 'x{}', v)
        if 'zz' not in dict(v[1]):
            f['copy_add'] = ([], 'x{zz = true}', T(*(v[1] + [('zz', B(True))])))
        for n, w in v[1]:
            f['select_' + n] = ([], 'x.%s' % n, w)
            if w[0] == 'tuple':
                for m, u in w[1]:
                    f['select_%s_%s' % (n, m)] = ([], 'x.%s.%s' % (n, m), u)
    if v[0] == 'list' and all(compat(a, c) for a in v[1] for c in v[1]):
        f['concat'] = ([], 'x + x', L(*(v[1] + v[1])))
        if v[1]:
            f['elem0'] = ([], 'x.0', v[1][0])
            f['elem_last'] = ([], 'x.%d' % (len(v[1]) - 1), v[1][-1])
    if v[0] == 'int' and abs(v[1]) < 10 ** 6:
        f['arith'] = ([], 'x + 1', I(v[1] + 1))
    if v[0] == 'str':
        f['concat'] = ([], 'x + "!"', S(v[1] + '!'))
    if v[0] == 'bool':
        f['not'] = ([], 'not x', B(not v[1]))
    return f


def second_constraints(w):
    """constraints that decide w: its own shape, every single-node edit of it, every primitive, and ranges / alternations around it"""
    cs = [('ex', w), ('ex', bump(w))] + [('ex', m) for m in mutants(w)] + [('ex', p) for p in PRIMS]
    k, p = w
    if k == 'int':
        cs += [('rng', 'int', p - 1, p + 1), ('rng', 'int', p + 1, None), ('rng', 'int', None, p - 1), ('rng', 'int', p, p), ('rng', 'float', float(p - 1), float(p + 1)),
               alt_of(w, S('q')), alt_of(S('q'), I(p + 1)), ('alt', [('rng', 'int', p - 2, p - 1), ('ex', S(str(p)))])]
    elif k == 'float':
        cs += [('rng', 'float', p - 0.5, p + 0.5), ('rng', 'float', p + 0.001, None), ('rng', 'float', None, p), ('rng', 'int', int(p) - 1, int(p) + 2), alt_of(w, I(1)), alt_of(F(p + 1.0), I(1))]
    else:
        cs += [alt_of(w, I(5)), alt_of(I(5), bump(w)), alt_of(I(5), w), ('rng', 'int', 0, 9)]
    seen, out = set(), []
    for c in cs:
        key = csrc(c, [])
        if key not in seen:
            seen.add(key)
            out.append(c)
    return out


def shape_of(c):
    """the exemplar a pure-exemplar constraint stands for, else None"""
    if c[0] in ('ex', 'letex'):
        return c[1]
    return shape_of(c[1]) if c[0] == 'named' else None


def widened(e, v, in_tuple=False):
    """v plus what the exemplar e says beyond it: the fields e has and v lacks and, in such a tuple, the elements of e where v is the
    empty list (at every depth)"""
    if e[0] != v[0] or e[0] not in ('tuple', 'list'):
        return v
    if e[0] == 'tuple':
        fe = dict(e[1])
        lacks = any(n not in dict(v[1]) for n, _ in e[1])
        return T(*([(n, widened(fe[n], x, lacks) if n in fe else x) for n, x in v[1]] + [(n, x) for n, x in e[1] if n not in dict(v[1])]))
    if not v[1]:
        return e if in_tuple else v
    return L(*[widened(e[1][0], x, in_tuple) if len(e[1]) == 1 else x for x in v[1]])


def emptied(e, v):
    """v with every list emptied where the exemplar e has the empty list (at every depth)"""
    if e[0] != v[0] or e[0] not in ('tuple', 'list'):
        return v
    if e[0] == 'tuple':
        fe = dict(e[1])
        return T(*[(n, emptied(fe[n], x) if n in fe else x) for n, x in v[1]])
    if not e[1]:
        return L()
    return L(*[emptied(e[1][0], x) if len(e[1]) == 1 else x for x in v[1]])


def standin_chained_lets(tier, seed):
    rnd = random.Random(seed)
    thorough = tier == 'thorough'
    b = Batch()
    for c1, vals in CHAIN_FIRST:
        for v in vals:
            ok1 = admits(c1, v)
            uses = use_forms(v)
            names = sorted(uses)
            if not thorough:
                names = ['direct'] + rnd.sample([n for n in names if n != 'direct'], 4)
            for un in names:
                ustm, uexpr, w = uses[un]
                c2s = second_constraints(w)
                if not thorough and len(c2s) > 7:
                    c2s = c2s[:1] + rnd.sample(c2s[1:], 6)
                elif thorough and len(c2s) > 10:
                    c2s = c2s[:2] + rnd.sample(c2s[2:], 8)
                e1 = shape_of(c1)
                # what the same use gives for the value as the KNOWN defects see it (None: the use has no static type at all, e.g. an element of `[]`)
                w_wide = use_forms(widened(e1, v)).get(un, (0, 0, w))[2] if e1 is not None else w
                w_empty = use_forms(emptied(e1, v)).get(un, (0, 0, None))[2] if e1 is not None else w
                for c2 in c2s:
                    ok = ok1 and admits(c2, w)
                    for c2w in ([c2, ('named', c2)] if thorough and rnd.random() < 0.3 else [rnd.choice([c2, c2, ('named', c2)])]):
                        pre = []
                        t1 = csrc(c1, pre)
                        first = pre + ['let x :: %s = %s;' % (t1, vsrc(v))]
                        pre2 = []
                        t2 = csrc(c2w, pre2)
                        pre2 = [p.replace('constraint c', 'constraint d').replace('let e', 'let g') for p in pre2]
                        if t2[:1] in 'ce' and t2[1:].isdigit():
                            t2 = {'c': 'd', 'e': 'g'}[t2[0]] + t2[1:]
                        b.add_program('\n'.join(first + pre2 + ustm + ['let y :: %s = %s;' % (t2, uexpr)]), ok, 'chained lets, x used by %s' % un)
    return b.run('chained_lets',
                 '%d first constraints (mixed-type alternations inline / named / of names, tuple exemplars with fewer / more / other fields than the value, list exemplars with fewer / more '
                 'element types, plain exemplars, ranges, 3 that refuse the value) x their %d values x %s uses of the binding (direct, alias, inside a list / tuple, through a field, '
                 'list element, function, select, module, copy, selector of each field, element, arithmetic) x %s second constraints (the shape of the used value, every single-node edit of '
                 'it, every primitive, ranges / alternations around it; inline and named)'
                 % (len(CHAIN_FIRST), sum(len(v) for _, v in CHAIN_FIRST), 'all' if thorough else '5 seeded', 'up to 10 seeded' if thorough else '7 seeded'))


# ------------------------------------------------------------------ family 7: several values of a recursive named constraint inside ONE let
# "A named constraint behaves exactly like the same constraint written inline" + "builds iff the bound value conforms": when the value of one
# constrained let contains SEVERAL sub-values that must conform to the same recursive constraint (siblings in tuple fields, in one list, in
# nested lists, cousins at depth 1..3, one let-bound sub-value used twice, two different recursive constraints side by side), every one of
# them is checked on its own against its own constraint - the verdict for one node says nothing about a node with other fields or other
# field types, whatever the order in which they appear.  Oracle = the exemplar rule of the statement applied recursively with the name
# replaced by its definition (`rec_admits`); shape (exemplar) constraints only, see KNOWN selfref_shape_only.
REF, REF2 = ('ref', 0), ('ref', 1)
SV = ('sv', None)                     # placeholder inside a value: the let-bound sub-value `sv`


def rsrc(e, names):
    """source of an exemplar that may mention the recursive constraints `names`"""
    if e[0] == 'ref':
        return names[e[1]]
    if e[0] == 'tuple':
        return '{' + ', '.join('%s = %s' % (n, rsrc(x, names)) for n, x in e[1]) + '}'
    if e[0] == 'list':
        return '[' + ', '.join(rsrc(x, names) for x in e[1]) + ']'
    return vsrc(e)


def sv_src(v):
    if v == SV:
        return 'sv'
    if v[0] == 'tuple':
        return '{' + ', '.join('%s = %s' % (n, sv_src(x)) for n, x in v[1]) + '}'
    if v[0] == 'list':
        return '[' + ', '.join(sv_src(x) for x in v[1]) + ']'
    return vsrc(v)


def sv_subst(v, shared):
    if v == SV:
        return shared
    if v[0] == 'tuple':
        return T(*[(n, sv_subst(x, shared)) for n, x in v[1]])
    if v[0] == 'list':
        return L(*[sv_subst(x, shared) for x in v[1]])
    return v


def rec_admits(e, v, armsets, reading='some'):
    """exemplar e (a ref = the named constraint = one of its arms, as documented: `"" | {...}` is "a string or such a tuple") admits value v.
    Lists: every element type of one side is admitted by the other side.  For a ref with several arms "the other side admits the element
    type" can be read as 'some' arm is matched by an element or as 'every' arm is; callers keep only cases where both readings agree."""
    if e[0] == 'ref':
        return any(rec_admits(a, v, armsets, reading) for a in armsets[e[1]])
    if e[0] != v[0]:
        return False
    if e[0] == 'tuple':
        fe, fv = dict(e[1]), dict(v[1])
        if not (set(fe) <= set(fv) or set(fv) <= set(fe)):
            return False
        return all(rec_admits(fe[n], fv[n], armsets, reading) for n in set(fe) & set(fv))
    if e[0] == 'list':
        def side_e(x):
            if x[0] == 'ref' and reading == 'every':
                return all(any(rec_admits(a, y, armsets, reading) for y in v[1]) for a in armsets[x[1]])
            return any(rec_admits(x, y, armsets, reading) for y in v[1])
        return all(side_e(x) for x in e[1]) or all(any(rec_admits(x, y, armsets, reading) for x in e[1]) for y in v[1])
    return True


class RecSpec:
    """constraint <name> = <arms joined by |>; the last arm is the tuple {plain fields..., recursive fields...}; `twin` = a second recursive
    constraint <name>2 that differs in the type of the first plain field"""
    def __init__(self, sid, name, arms, twin=True):
        self.id, self.name, self.arms = sid, name, arms
        me = arms[-1][1][-1][1]
        self.me = me[1][0] if me[0] == 'list' else me
        body = arms[-1][1]
        isrec = lambda x: x == self.me or x == L(self.me)
        self.plain = [(n, x) for n, x in body if not isrec(x)]
        self.recs = [(n, x) for n, x in body if isrec(x)]
        self.base = S('end') if len(arms) > 1 else None
        self.max_children = len(self.recs) if self.recs[0][1] == self.me else 9
        if twin:
            n0, x0 = self.plain[0]
            to2 = lambda x: REF2 if x == REF else L(REF2) if x == L(REF) else x
            self.twin = RecSpec(sid + '2', name + '2', arms[:-1] + [T(*[(n, OTHER[x0[0]] if n == n0 else to2(x)) for n, x in body])], False)
            self.names = [name, name + '2']
            self.armsets = [arms, self.twin.arms]
            self.decls = ['constraint %s = %s;' % (nm, ' | '.join(rsrc(a, self.names) for a in ar)) for nm, ar in zip(self.names, self.armsets)]

    def rec_fields(self, ch):
        out = []
        for i, (n, x) in enumerate(self.recs):
            mine = ch[i::len(self.recs)]
            out.append((n, L(*mine) if x[0] == 'list' else (mine[0] if mine else self.base)))
        return out

    def node(self, variant, ch=()):
        """a value meant for the constraint: `variant` says which fields it has / which are of a wrong type; ch = its child nodes"""
        ch = list(ch)
        plain = [(n, bump(x)) for n, x in self.plain]
        wrong = lambda k: [(n, OTHER[x[0]]) if j == k % len(plain) else (n, bump(x)) for j, (n, x) in enumerate(self.plain)]
        rec = self.rec_fields(ch)
        zz = [('zz', B(True))]
        table = {
            'full': lambda: T(*(plain + rec)),
            'min': lambda: T(*rec),
            'more': lambda: T(*(plain + rec + zz)),
            'plain_only': lambda: T(*plain),
            'empty': lambda: T(),
            'reordered': lambda: T(*(rec + plain[::-1])),
            'retype': lambda: T(*(wrong(0) + rec)),
            'retype_last': lambda: T(*(wrong(-1) + rec)),
            'min_retype': lambda: T(*(rec + wrong(0)[:1])),
            'more_retype': lambda: T(*(wrong(0) + rec + zz)),
            'neither': lambda: T(*(rec + zz)),
            'rec_not_list': lambda: T(*(plain + [(n, I(1)) for n, _ in self.recs])),
            'rec_wrong_elem': lambda: T(*(plain + [(n, L(I(1)) if x[0] == 'list' else B(True)) for n, x in self.recs])),
            'scalar': lambda: I(42),
            'a_list': lambda: L(),
            'text': lambda: S('text'),
        }
        return table[variant]()


REC_SPECS = [
    RecSpec('kids', 'node', [T(('name', S('')), ('kids', L(REF)))]),
    RecSpec('bintree', 'tr', [T(('v', I(0)), ('l', L(REF)), ('r', L(REF)))]),
    RecSpec('xml', 'xn', [S(''), T(('name', S('')), ('attrs', T()), ('children', L(REF)))]),          # the documented one
    RecSpec('chain', 'ch', [S(''), T(('val', I(0)), ('next', REF))]),                                 # documented position: one arm of an alternation
]
REC_VARIANTS = ['full', 'min', 'more', 'retype', 'min_retype', 'neither', 'text',                        # [:5] = the quick core, [:7] the thorough one
                'plain_only', 'empty', 'reordered', 'retype_last', 'more_retype', 'rec_not_list', 'rec_wrong_elem', 'scalar', 'a_list']
REC_CORE = 7


def rec_structures(sp, A, B_):
    """where two nodes A, B (functions: children -> value) sit inside the value of ONE let: name -> (constraint exemplar, value[, the
    let-bound sub-value `sv` the value mentions])"""
    W = lambda *ch: sp.node('full', ch)
    Wm = lambda *ch: sp.node('min', ch)
    W2 = lambda *ch: sp.twin.node('full', ch)
    a, b = A(), B_()
    pair = T(('l', REF), ('r', REF))
    pair2 = T(('l', REF), ('r', REF2))
    st = {
        'fields': (pair, T(('l', a), ('r', b))),
        'fields_depth1': (pair, T(('l', W(a)), ('r', W(b)))),
        'fields_depth1_min': (pair, T(('l', Wm(a)), ('r', Wm(b)))),
        'fields_depth2': (pair, T(('l', W(W(a))), ('r', W(Wm(b))))),
        'fields_depth1_2': (pair, T(('l', W(a)), ('r', Wm(W(b))))),
        'fields_depth2_1': (pair, T(('l', Wm(W(a))), ('r', W(b)))),
        'fields_depth3': (pair, T(('l', W(Wm(W(a)))), ('r', W(W(Wm(b)))))),
        'fields_with_children': (pair, T(('l', A([sp.node('min')])), ('r', B_([sp.node('full')])))),
        'three_fields': (T(('l', REF), ('m', REF), ('r', REF)), T(('l', W(a)), ('m', W(b)), ('r', W(a)))),
        'list_fields': (T(('p', L(REF)), ('q', L(REF))), T(('p', L(a)), ('q', L(b)))),
        'list_fields_depth1': (T(('p', L(REF)), ('q', L(REF))), T(('q', L(W(b))), ('p', L(Wm(a))))),
        'one_list': (L(REF), L(a, b)),
        'one_list_depth1': (L(REF), L(W(a), W(b))),
        'nested_lists': (L(L(REF)), L(L(a), L(b))),
        'lists_in_tuple_in_list': (L(T(('g', L(REF)))), L(T(('g', L(a))), T(('g', L(b))))),
        'root_depth1': (REF, W(a)),
        'root_depth3': (REF, W(Wm(W(b)))),
        # one let-bound sub-value in two places; two recursive constraints (differing in one field type) side by side
        'shared_twice': (pair, T(('l', W(SV)), ('r', Wm(b))), a),
        'shared_and_other': (T(('l', REF), ('m', REF), ('r', REF)), T(('l', SV), ('m', W(b)), ('r', W(SV))), a),
        'two_names': (pair2, T(('l', a), ('r', b))),
        'two_names_depth1': (pair2, T(('l', W(a)), ('r', W2(b)))),
        'two_names_swapped': (T(('r', REF2), ('l', REF)), T(('r', W2(a)), ('l', W(b)))),
        'two_names_shared': (pair2, T(('l', SV), ('r', SV)), a),
        'two_names_shared_depth1': (T(('l', REF), ('m', REF2), ('r', REF)), T(('l', W(SV)), ('m', W2(SV)), ('r', W(b))), a),
        'two_names_lists': (T(('p', L(REF)), ('q', L(REF2))), T(('p', L(Wm(a))), ('q', L(Wm(b))))),
    }
    if sp.max_children >= 2:
        st.update({
            'siblings': (REF, W(a, b)),
            'siblings_min': (REF, Wm(a, b)),
            'siblings_depth2': (REF, W(W(a, b))),
            'cousins': (REF, W(W(a), W(b))),
            'cousins_depth3': (REF, W(W(W(a)), Wm(Wm(b)))),
            'fields_of_siblings': (pair, T(('l', W(a, b)), ('r', Wm(b, a)))),
            'three_siblings': (pair, T(('l', W(a, b, a)), ('r', W(b, b, a)))),
            'shared_siblings': (REF, W(W(SV, SV), W(b, SV)), a),
        })
    return st


REC_DECISIVE = ['fields_depth1', 'fields_depth1_2', 'list_fields', 'cousins', 'one_list', 'two_names_shared_depth1', 'two_names_depth1']


def standin_recursive_siblings(tier, seed):
    rnd = random.Random(seed)
    thorough = tier == 'thorough'
    b = Batch()
    ambiguous = [0]
    dummy = lambda ch=(): I(1)
    names_of = dict((sp.id, sorted(rec_structures(sp, dummy, dummy))) for sp in REC_SPECS)

    def one(sp, sname, va, vb):
        st = rec_structures(sp, lambda ch=(): sp.node(va, ch), lambda ch=(): sp.node(vb, ch))[sname]
        c, v, shared = st if len(st) == 3 else st + (None,)
        actual = sv_subst(v, shared)
        ok = rec_admits(c, actual, sp.armsets, 'some')
        if ok != rec_admits(c, actual, sp.armsets, 'every'):
            ambiguous[0] += 1
            return
        uses2 = 'two_names' in sname
        pre, ctext, vtext = sp.decls[:2 if uses2 else 1], rsrc(c, sp.names), sv_src(v)
        if shared is not None:
            pre = pre + ['let sv = %s;' % vsrc(shared)]
        spell = rnd.randrange(4)
        if spell == 1 and c[0] != 'ref':
            pre = pre + ['constraint outer = %s;' % ctext]
            ctext = 'outer'
        elif spell == 2:
            pre = pre + ['let vv = %s;' % vtext]
            vtext = 'vv'
        b.add_program('\n'.join(pre + ['let x :: %s = %s;' % (ctext, vtext)]), ok, 'recursive `%s`, placement %s, nodes %s and %s' % (sp.id, sname, va, vb))

    core = REC_VARIANTS[:REC_CORE]
    if thorough:
        for sp in REC_SPECS:
            for sname in names_of[sp.id]:
                full = sp.id in ('kids', 'xml') and sname in REC_DECISIVE
                for va in (REC_VARIANTS if full else core):
                    for vb in (REC_VARIANTS if full else core):
                        one(sp, sname, va, vb)
    else:
        for sname in REC_DECISIVE:
            for va in core[:5]:
                for vb in core[:5]:
                    one(REC_SPECS[0], sname, va, vb)
    for _ in range(1500 if thorough else 90):
        sp = rnd.choice(REC_SPECS)
        va, vb = (rnd.choice(core), rnd.choice(core)) if rnd.random() < 0.4 else (rnd.choice(REC_VARIANTS), rnd.choice(REC_VARIANTS))
        one(sp, rnd.choice(names_of[sp.id]), va, vb)
    return b.run('recursive_siblings',
                 '%d recursive named exemplar constraints (`{name, kids = [node]}`, a binary tree with two recursive list fields, the documented `"" | {name, attrs, children = [xn]}`, a linked '
                 'list `"" | {val, next = ch}`; each with a twin that differs in one field type) x %d placements of TWO nodes inside the value of one constrained let (two / three tuple fields of '
                 'an outer exemplar, at depth 0..3 under conforming parents with all / few fields, list fields, one list, nested lists, siblings and cousins under one root, with children of '
                 'their own, one let-bound node used in two places, the two twin constraints side by side) x %s ordered pairs of %d node variants (all fields, only the recursive fields, an '
                 'extra field, reordered, only plain fields, empty; a plain field of a wrong type with all / few / extra fields, neither field set contained, the recursive field not a list / '
                 'with a wrong element, a scalar, a list, a string); constraint inline or behind a second name, value literal or let-bound; expected: the statement\'s exemplar rule applied '
                 'recursively with the name replaced by its definition [%d placements left out: the list rule is ambiguous for an alternation]'
                 % (len(REC_SPECS), max(len(v) for v in names_of.values()),
                    'all of the first 7 variants everywhere, all 16 x 16 in 7 placements for 2 constraints, 1500 seeded' if thorough else 'all of the first 5 variants for `kids` in 7 placements + 90 seeded',
                    len(REC_VARIANTS), ambiguous[0]))


# ------------------------------------------------------------------ family 8: nested tuple exemplars, field sets varied independently at every level
# "tuples agreeing on the types of the fields they share with one field set contained in the other" holds per tuple: at every nesting
# level on its own the value may have fewer, the same or more fields than the exemplar (so containment may go in opposite directions on
# different levels), and a shared field of another type or two incomparable field sets at ANY level refuse the value.  Oracle: `compat`.
LEVEL_E = [(), ('p',), ('q',), ('p', 'q')]
LEVEL_V = [(p, q, z) for p in (None, 'ok', 'bad') for q in (None, 'ok', 'bad') for z in (False, True)]
QUICK_E = [(), ('p', 'q')]
QUICK_V = [(None, None, False), ('ok', None, False), ('ok', 'ok', False), ('ok', 'ok', True), ('ok', None, True), ('bad', None, False), ('bad', 'ok', True)]
LINKS = ['tuple', 'list', 'list_good_sibling', 'list_bad_sibling', 'list_of_lists', 'value_drops', 'exemplar_lacks']


def nest_levels(levels, links, t_first, zval=('bool', True)):
    """levels: [(E fields, (p, q, z) of the value)] outermost first; links[i] joins level i and i + 1 -> (exemplar, value)"""
    (ef, (vp, vq, vz)), rest = levels[0], levels[1:]
    e = [(n, {'p': I(1), 'q': S('s')}[n]) for n in ef]
    v = ([('p', I(7) if vp == 'ok' else S('w'))] if vp else []) + ([('q', S('t') if vq == 'ok' else I(3))] if vq else []) + ([('z', zval)] if vz else [])
    if rest:
        ne, nv = nest_levels(rest, links[1:], t_first, zval)
        ln = links[0]
        if ln == 'tuple':
            te, tv = ne, nv
        elif ln == 'list':
            te, tv = L(ne), L(nv)
        elif ln == 'list_good_sibling':
            te, tv = L(ne), L(nv, bump(ne))
        elif ln == 'list_bad_sibling':
            te, tv = L(ne), L(T(('p', B(True)), ('q', B(True)), ('z', I(1)), ('t', I(1))), nv)
        elif ln == 'list_of_lists':
            te, tv = L(L(ne)), L(L(nv), L())
        else:
            te, tv = ne, nv
        if ln != 'exemplar_lacks':
            e = [('t', te)] + e if t_first else e + [('t', te)]
        if ln != 'value_drops':
            v = [('t', tv)] + v if t_first else v + [('t', tv)]
    return T(*e), T(*v)


def standin_nested_tuple_levels(tier, seed):
    rnd = random.Random(seed)
    thorough = tier == 'thorough'
    b = Batch()
    wrappers = lambda e: [('ex', e), ('named', ('ex', e)), ('letex', e)]

    def one(levels, links):
        e, v = nest_levels(levels, links, rnd.random() < 0.5, rnd.choice([B(True), B(True), T(), L(), T(('k', S('v'))), I(1)]))
        b.add(rnd.choice(wrappers(e)) if rnd.random() < 0.4 else ('ex', e), v, 'literal' if rnd.random() < 0.8 else rnd.choice(['let', 'field', 'paren', 'constfunc', 'copy']))

    lv_q = [(e, v) for e in QUICK_E for v in QUICK_V]
    lv_all = [(e, v) for e in LEVEL_E for v in LEVEL_V]
    # per level: the value has fewer / the same / more fields, a shared field of another type, incomparable field sets
    rel5 = [(('p', 'q'), v) for v in [(None, None, False), ('ok', 'ok', False), ('ok', 'ok', True), ('bad', None, False), ('ok', None, True)]]
    if thorough:
        for l0 in lv_all:
            for l1 in lv_all:
                one([l0, l1], ['tuple'])
        for l0 in lv_q:
            for l1 in lv_q:
                for ln in LINKS[1:]:
                    one([l0, l1], [ln])
                for l2 in lv_q:
                    one([l0, l1, l2], ['tuple', 'tuple'])
        nrand = 3000
    else:
        for l0 in lv_q:
            for l1 in lv_q:
                one([l0, l1], ['tuple'])
        for l0 in rel5[:3]:
            for l1 in lv_q:
                for ln in LINKS[1:4]:
                    one([l0, l1], [ln])
        nrand = 80
    for l0 in rel5:                       # both tiers: containment in every combination of directions over three levels
        for l1 in rel5:
            for l2 in rel5:
                one([l0, l1, l2], ['tuple', 'tuple'])
    for _ in range(nrand):
        d = rnd.choice([2, 3, 3])
        pool = lv_q if rnd.random() < 0.5 else lv_all
        one([rnd.choice(pool) for _ in range(d)], [rnd.choice(LINKS[:2] if rnd.random() < 0.5 else LINKS) for _ in range(d - 1)])
    return b.run('nested_tuple_levels',
                 'tuple exemplars nested 2..3 deep whose levels are varied INDEPENDENTLY: per level the exemplar has the fields {} / {p} / {q} / {p, q} (+ the nested field t) and the value has '
                 'each of p, q absent / of the same type / of another type and an extra field z (bool, int, tuple, list) or not (18 x 4 per level; empty tuples included), the levels joined by a '
                 'tuple field, a list, a list with a conforming / a non-conforming sibling, a list of lists, or t missing on one side: %s; all 5^3 three-level chains whose levels each have fewer / '
                 'the same / more fields than the exemplar, a shared field of another type, or incomparable field sets; exemplar inline / named / let-bound, value literal or computed'
                 % ('all 72 x 72 two-level pairs joined by a tuple, all 14 x 14 pairs of a reduced alphabet for the 6 other joins, all 14^3 three-level chains of it, 3000 seeded chains of depth 2..3'
                    if thorough else 'all 14 x 14 two-level pairs of a reduced alphabet (exemplar {} / {p, q}; value {}, {p}, {p, q}, {p, q, z}, {p, z}, {p wrong}, {p wrong, q, z}) joined by a tuple, '
                    '3 x 14 pairs for each of the 3 list joins, 80 seeded chains of depth 2..3 over the full alphabet and all joins'))


STANDINS = [standin_exemplar_shapes, standin_range_bounds, standin_alternations, standin_recursive_documented, standin_named_reach, standin_chained_lets,
            standin_recursive_siblings, standin_nested_tuple_levels]
