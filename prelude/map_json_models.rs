// ---- prelude/map_json_models.rs: the part of the pinned serde_json (1.0.x, see Cargo.lock) that
// src/convert/json.rs builds values with (inside verus!) ----
// needs: prelude/map_json_data.rs
pub mod serde_json {
    use vstd::prelude::*;
    use super::*;

    // ---------- Number ----------
    // serde_json/src/number.rs: `struct Number { n: N }`, `enum N { PosInt(u64), NegInt(i64), Float(f64) }`
    // ("NegInt: always less than zero", "Float: always finite").  Seen from an i64/f64 producer that is:
    pub enum NumV { Int(i64), Float(f64) }

    #[verifier::external_body]
    pub struct Number { _p: u8 }

    impl Number {
        pub uninterp spec fn view(&self) -> NumV;

        // number.rs `pub fn from_f64(f: f64) -> Option<Number>`:
        //   `if f.is_finite() { Some(Number { n: N::Float(f) }) } else { None }`
        // ("Converts a finite f64 to a Number. Infinite or NaN values are not JSON numbers.")
        #[verifier::external_body]
        pub fn from_f64(f: f64) -> (r: Option<Number>)
            ensures
                f64_is_finite(f) ==> r is Some && r->Some_0@ == NumV::Float(f),
                !f64_is_finite(f) ==> r is None,
        { unimplemented!() }
    }

    // number.rs `impl_from_signed!(i8, i16, i32, i64, isize)`:
    //   `fn from(i: i64) -> Self { Number { n: if i < 0 { N::NegInt(i as i64) } else { N::PosInt(i as u64) } } }`
    // i.e. the integer itself, exactly.
    impl From<i64> for Number {
        #[verifier::external_body]
        fn from(i: i64) -> (r: Number)
            ensures r@ == NumV::Int(i)
        { unimplemented!() }
    }

    // ---------- Map ----------
    // serde_json/src/map.rs: `pub struct Map<K, V> { map: MapImpl<K, V> }` with
    // `#[cfg(not(feature = "preserve_order"))] type MapImpl<K, V> = BTreeMap<K, V>;`  ucg does not enable
    // `preserve_order` (Cargo.lock: serde_json depends on itoa, memchr, serde, serde_core, zmij - no indexmap),
    // so a Map is a BTreeMap<String, Value>: a finite map from key text to value, iterated in key order.
    // The view is that finite map.  (The struct is transparent only so that values inside a Map count as
    // structurally smaller than the Map - needed to define the recursive view of `Value`.)
    pub struct Map<K, V> { pub g: Ghost<vstd::map::Map<Seq<char>, V>>, pub k: Ghost<Option<K>> }

    impl<K, V> Map<K, V> {
        pub open spec fn view(&self) -> vstd::map::Map<Seq<char>, V> { self.g@ }
    }

    // map.rs `pub enum Entry<'a> { Vacant(VacantEntry<'a>), Occupied(OccupiedEntry<'a>) }`: a position in the
    // borrowed map for one key.
    pub struct Entry<'a> { pub map: &'a mut Map<String, Value>, pub key: Ghost<Seq<char>> }

    impl Map<String, Value> {
        // map.rs `pub fn new() -> Self { Map { map: MapImpl::new() } }`
        #[verifier::external_body]
        pub fn new() -> (r: Self)
            ensures r@ == vstd::map::Map::<Seq<char>, Value>::empty()
        { unimplemented!() }

        // map.rs `pub fn entry<S: Into<String>>(&mut self, key: S) -> Entry`: `self.map.entry(key.into())`;
        // the map is not changed, the entry remembers the key.  (R7: S is `&str` at json.rs's call sites.)
        #[verifier::external_body]
        pub fn entry<'a>(&'a mut self, key: &str) -> (e: Entry<'a>)
            ensures *e.map == *old(self), e.key@ == key@, *final(e.map) == *final(self)
        { unimplemented!() }
    }

    impl<'a> Entry<'a> {
        // map.rs `pub fn or_insert(self, default: Value) -> &'a mut Value`:
        //   `match self { Entry::Vacant(entry) => entry.insert(default), Entry::Occupied(entry) => entry.into_mut() }`
        // ("Ensures a value is in the entry by inserting the default if empty"): FIRST INSERT WINS - a key
        // that is already present keeps its value and `default` is dropped.
        // The returned `&mut Value` is not used by json.rs and is not modelled.
        #[verifier::external_body]
        pub fn or_insert(self, default: Value)
            ensures final(self.map)@ == or_insert_result(old(self.map)@, self.key@, default)
        { unimplemented!() }
    }

    // the map after `entry(key).or_insert(default)`
    pub open spec fn or_insert_result(m: vstd::map::Map<Seq<char>, Value>, key: Seq<char>, default: Value) -> vstd::map::Map<Seq<char>, Value> {
        if m.dom().contains(key) { m } else { m.insert(key, default) }
    }

    // ---------- Value: the dependency's public enum, verbatim ----------
    //@ extract dep:serde_json/src/value/mod.rs :: enum Value
    //@   rule R0
    //@ end
}

// ---------- what a decoder sees in a serde_json::Value ----------
// ASSUMPTION (DESIGN §5 C03): `serde_json::to_writer_pretty` prints this view faithfully and independent
// decoders agree on it.
pub open spec fn jview(j: serde_json::Value) -> D
    decreases j, 0int
{
    match j {
        serde_json::Value::Null => D::Null,
        serde_json::Value::Bool(b) => D::Bool(b),
        serde_json::Value::Number(n) => match n@ {
            serde_json::NumV::Int(i) => D::Int(i),
            serde_json::NumV::Float(f) => D::Float(f),
        },
        serde_json::Value::String(s) => D::Str(s@),
        serde_json::Value::Array(a) => D::List(jlist(a@)),
        serde_json::Value::Object(m) => D::Obj(jobj(m@)),
    }
}

// an array: element-wise, same order
pub open spec fn jlist(a: Seq<serde_json::Value>) -> Seq<D>
    decreases a, 1int
{
    Seq::new(a.len(), |i: int| if 0 <= i < a.len() { jview(a[i]) } else { D::Null })
}

// an object: same keys, value-wise
pub open spec fn jobj(m: vstd::map::Map<Seq<char>, serde_json::Value>) -> Map<Seq<char>, D>
    decreases m, 1int
{
    Map::new(m.dom(), |k: Seq<char>| if m.dom().contains(k) { jview(m[k]) } else { D::Null })
}

// ---------- numbers of equal numeric value ----------
// The oracle tree keeps `Int` and `Float` apart (prelude/map_json_data.rs) and stays as it is.  What C03 asks of a
// number is "of equal numeric value": JSON has ONE number type, a decoder that reads the token `42.0` holds the number
// 42.  So an integer of the value may arrive as an integer node OR as a float node that denotes exactly that integer -
// never as a float that denotes a neighbour.

// The mathematical integer a double denotes: Some(n) if f is finite and its value is the integer n, None otherwise
// (fractional values, infinities, NaN).  Uninterpreted; all that is assumed about it is the axiom below.
pub uninterp spec fn f64_int_value(f: f64) -> Option<int>;

// std `i as f64` on an i64 (round to nearest, ties to even).  Verus gives the exec cast no meaning, so the call site
// goes through this helper (R6); the function itself is uninterpreted.
pub uninterp spec fn i64_to_f64(i: i64) -> f64;
#[verifier::external_body]
pub fn verif_i64_as_f64(i: i64) -> (r: f64)
    ensures r == i64_to_f64(i)
{ i as f64 }

// std `f as i64` (saturating, NaN -> 0).  Only the mutant `threshold_by_cast_round_trip` uses it; NOTHING is assumed
// about it - in particular not that a round trip `(i as f64) as i64 == i` would mean "exact" (it holds for i64::MAX,
// whose double is 2^63).
pub uninterp spec fn f64_to_i64(f: f64) -> i64;
#[verifier::external_body]
pub fn verif_f64_as_i64(f: f64) -> (r: i64)
    ensures r == f64_to_i64(f)
{ f as i64 }

// TRUSTED AXIOM (the only one about numbers), an IEEE-754 binary64 fact: a double has a 53-bit significand, so every
// integer of magnitude <= 2^53 IS a double; `i as f64` rounds to the nearest double, which for such an integer is the
// integer itself: the result is finite and denotes exactly i.
// Nothing is said about |i| > 2^53 (there `i as f64` may be a neighbour: 9007199254740993 as f64 == 9007199254740992.0).
pub mod map_json_axioms {
    use vstd::prelude::*;
    use super::*;
    #[verifier::external_body]
    pub broadcast proof fn axiom_i64_to_f64_exact(i: i64)
        requires
            -0x20_0000_0000_0000 <= i <= 0x20_0000_0000_0000,        // -(2^53) <= i <= 2^53
        ensures
            f64_is_finite(#[trigger] i64_to_f64(i)),
            f64_int_value(i64_to_f64(i)) == Some(i as int),
    { }
}
// (brought in by `broadcast use map_json_axioms::axiom_i64_to_f64_exact;` inside the one function that needs it: Verus
// allows one module-level `broadcast use` and prelude/map_json_data.rs has it)

// `i64::unsigned_abs` (core): "Computes the absolute value of self without any wrapping or panicking": |i| as a u64
// (2^63 for i64::MIN).
pub assume_specification [i64::unsigned_abs] (i: i64) -> (r: u64)
    ensures r as int == (if i < 0 { -(i as int) } else { i as int });

// the shift constants a threshold on |i| may be written with (Verus needs bit-vector reasoning to evaluate `<<`)
pub proof fn lemma_one_shl()
    ensures
        1u64 << 52 == 0x10_0000_0000_0000u64,
        1u64 << 53 == 0x20_0000_0000_0000u64,
        1u64 << 54 == 0x40_0000_0000_0000u64,
        1u64 << 63 == 0x8000_0000_0000_0000u64,
{
    assert(1u64 << 52 == 0x10_0000_0000_0000u64) by (bit_vector);
    assert(1u64 << 53 == 0x20_0000_0000_0000u64) by (bit_vector);
    assert(1u64 << 54 == 0x40_0000_0000_0000u64) by (bit_vector);
    assert(1u64 << 63 == 0x8000_0000_0000_0000u64) by (bit_vector);
}

// want: the oracle's tree; got: what a decoder sees.  Same nesting, list length and order, key set, identical strings,
// same booleans / nulls; at a number leaf: equal numeric value.
pub open spec fn d_num_agree(want: D, got: D) -> bool
    decreases want
{
    match want {
        D::Null => got is Null,
        D::Bool(b) => got == D::Bool(b),
        // the integer i: as the integer i, or as a double that denotes exactly i
        D::Int(i) => got == D::Int(i) || (got is Float && f64_int_value(got->Float_0) == Some(i as int)),
        // a float: that very float
        D::Float(f) => got == D::Float(f),
        D::Str(s) => got is Str && got->Str_0 =~= s,
        D::List(l) => got is List && got->List_0.len() == l.len()
            && forall|k: int| 0 <= k < l.len() ==> d_num_agree(l[k], #[trigger] got->List_0[k]),
        D::Obj(m) => got is Obj && got->Obj_0.dom() =~= m.dom()
            && forall|k: Seq<char>| m.dom().contains(k) ==> d_num_agree(m[k], #[trigger] got->Obj_0[k]),
        D::Other => false,
    }
}

// the same, for the members of a list / of an object (what the loops of convert_list / convert_tuple / convert_env keep)
pub open spec fn list_num_agree(want: Seq<D>, got: Seq<D>) -> bool {
    got.len() == want.len() && forall|k: int| 0 <= k < want.len() ==> d_num_agree(want[k], #[trigger] got[k])
}

pub open spec fn obj_num_agree(want: Map<Seq<char>, D>, got: Map<Seq<char>, D>) -> bool {
    got.dom() =~= want.dom() && forall|k: Seq<char>| want.dom().contains(k) ==> d_num_agree(want[k], #[trigger] got[k])
}

pub proof fn lemma_list_num_agree(want: Seq<D>, got: Seq<D>)
    ensures d_num_agree(D::List(want), D::List(got)) <==> list_num_agree(want, got)
{ }

pub proof fn lemma_obj_num_agree(want: Map<Seq<char>, D>, got: Map<Seq<char>, D>)
    ensures d_num_agree(D::Obj(want), D::Obj(got)) <==> obj_num_agree(want, got)
{ }

// a tree without number leaves that a double stands in for agrees with itself; in particular a string does
pub proof fn lemma_str_num_agree(s: Seq<char>)
    ensures d_num_agree(D::Str(s), D::Str(s))
{ }

// one step of the object loops (`mp.entry(k).or_insert(x)`): oracle and map take the same entry, first insert wins on
// both sides
pub proof fn lemma_or_insert_agree(want: Map<Seq<char>, D>, m: Map<Seq<char>, serde_json::Value>, k: Seq<char>, wv: D, x: serde_json::Value)
    requires
        obj_num_agree(want, jobj(m)),
        d_num_agree(wv, jview(x)),
    ensures
        obj_num_agree(if want.dom().contains(k) { want } else { want.insert(k, wv) }, jobj(serde_json::or_insert_result(m, k, x))),
{
    if !want.dom().contains(k) {
        let w2 = want.insert(k, wv);
        let g2 = jobj(m.insert(k, x));
        assert(g2.dom() =~= w2.dom());
        assert forall|q: Seq<char>| w2.dom().contains(q) implies d_num_agree(w2[q], #[trigger] g2[q]) by {
            if q != k {
                assert(want.dom().contains(q));
                assert(d_num_agree(want[q], jobj(m)[q]));
            }
        }
    }
}

// the shape of every contract below: Ok(j) exactly when the oracle has a tree, and then what a decoder sees in j
// agrees with that tree (numbers: equal numeric value); Err exactly when the oracle says "must be an error"
pub open spec fn json_agrees(want: Option<D>, r: std::io::Result<serde_json::Value>) -> bool {
    match r {
        Ok(j) => want is Some && d_num_agree(want->Some_0, jview(j)),
        Err(_) => want is None,
    }
}
