"""Claims registered in MANIFEST.json.  A property is listed under CLAIMS only when its core unit
verifies on the current tree with canaries rejected (DESIGN §7 fall-back rule)."""

HOOK_COMMITS = []

NOTES = ('Technique family: contract-based deductive verification of the real code (Verus on functions '
         'extracted mechanically from /repo on every run; see DESIGN.md). Exit 0 = every obligation discharged, '
         '1 = an obligation that is generated from the current source fails (VIOLATION), 2 = undecided '
         '(lost anchor, unsupported construct, resource limit) - never reported as a violation.')

CLAIMS = {
    'C02': dict(
        text=('For all operand/operator lists of any length, the tree built by the real parse_op/parse_precedence '
              'equals the unique grouping defined by the published precedence table (levels generated from the '
              'documentation on every run): higher level binds tighter, equal levels group left to right; operands '
              '(incl. parenthesised ones) are opaque leaves, so grouping depends on operators only. Proved by Verus '
              'with loop invariants on the verbatim function bodies; no bound on chain length.'),
        design_ref='DESIGN.md §5 C02',
        note=('Trusted: Verus/Z3; the mechanical extraction (rules R0,R1,R3,R4,R10 listed in evidence); '
              'Expression::pos as a deterministic function; derived Clone is structural; parse_operand_list yields an '
              'alternating Expr (Op Expr)* list and the token recognisers map each operator token to its variant '
              '(combinator macros: assumed, checked bounded in the thorough tier).'),
        technique='Verus contracts + loop invariants on extracted parse_op, precedence_level, operator recognisers',
    ),
}

NOT_APPLICABLE = {
    'C01': 'unit not completed yet (VM instruction kernel planned, DESIGN §5 C01)',
    'C03': 'unit not completed yet (Val->format value mappers planned, DESIGN §5 C03)',
    'C04': 'unit not completed yet (panic-freedom of extracted functions planned, DESIGN §5 C04)',
    'C05': 'unit not completed yet (literal escaping round trip planned, DESIGN §5 C05)',
    'C06': 'unit not completed yet (run-time constraint check planned, DESIGN §5 C06)',
    'C07': 'relational completeness between the whole type checker and the whole evaluator; no per-function contract within reach of Verus/Kani states "accepts what runs" (DESIGN §5 C07)',
    'C08': 'unit not completed yet (shell escaping and env/flags/exec converters planned, DESIGN §5 C08)',
    'C09': 'quantifies over file-system trees, working directories and import graphs; mechanisms are a generic &mut-AST walker, std::path and RefCell caches re-entered through recursive VM::run - not expressible as function contracts the installed verifiers can check (DESIGN §5 C09)',
    'C10': 'unit not completed yet (symbol-table layer planned, DESIGN §5 C10)',
    'C11': 'unit not completed yet (position stepping and literal decoding planned, DESIGN §5 C11)',
    'C12': 'well-formedness, escaping and namespaces are produced by the xml-rs dependency; the property is about those bytes and an independent parser (DESIGN §5 C12)',
    'C13': 'unit not completed yet (assert collector and verdict planned, DESIGN §5 C13)',
    'C14': 'unit not completed yet (out hook against a ghost file system planned, DESIGN §5 C14)',
    'C15': 'unit not completed yet (format value->Val mappers planned, DESIGN §5 C15)',
    'C16': 'hyperproperty over runs of a process (sets/orders of files) through cross-file memoisation; needs the whole compiler specified as a function of the file system (DESIGN §5 C16)',
    'C17': 'diagnostic positions are plumbed through ~120 translator push sites and parser-combinator error contexts; needs end positions the AST does not carry and relates two runs (DESIGN §5 C17)',
    'C18': 'unit not completed yet (env lookup / selector miss planned, DESIGN §5 C18)',
    'C19': 'the helpers are UCG programs (std/*.ucg), not Rust; neither verifier reads UCG (DESIGN §5 C19)',
    'C20': 'history property of a JSON-RPC loop over lsp-server/serde and the whole lenient compiler pipeline (DESIGN §5 C20)',
}
