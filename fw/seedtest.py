#!/usr/bin/env python3
"""fw/seedtest.py <seed dir> [--keep]  - confirm a seeded breaking change and run the registered checks against it.

Applies <seed dir>/patch.diff to /repo, builds, runs the demonstration (must FAIL), runs quick and thorough checks of
the seed's property, prints what each reports, and ALWAYS reverts /repo afterwards (git checkout -- .)."""
import json, os, subprocess, sys, time

REPO = os.environ.get('SEED_REPO', '/scratch/seedrun')   # a scratch worktree of /repo (agents may be reading /repo)
VERIF = os.path.dirname(os.path.dirname(os.path.abspath(__file__)))


def sh(cmd, cwd=None, timeout=3600, env=None):
    p = subprocess.run(cmd, shell=True, cwd=cwd, capture_output=True, text=True, timeout=timeout, env=env)
    return p.returncode, p.stdout + p.stderr


def main():
    d = os.path.abspath(sys.argv[1])
    meta = json.load(open(os.path.join(d, 'meta.json')))
    pid = meta['property']
    checks = [a for a in sys.argv[2:] if not a.startswith('--')] or [pid]
    if REPO != '/repo':
        if not os.path.exists(REPO):
            sh('git -C /repo worktree add --detach %s HEAD' % REPO)
        sh('git checkout -q --detach $(git -C /repo rev-parse HEAD) && git checkout -- . && git clean -fdq src', REPO)
    rc, out = sh('git status --porcelain', REPO)
    if out.strip():
        print('REPO not clean, aborting'); return 2
    res = dict(seed=d, property=pid)
    try:
        rc, out = sh('git apply --3way %s || git apply %s' % (os.path.join(d, 'patch.diff'), os.path.join(d, 'patch.diff')), REPO)
        rc2, st = sh('git status --porcelain', REPO)
        if not st.strip():
            print('patch did not apply:', out[-500:]); return 2
        sh('git reset -q', REPO)
        env = dict(os.environ, VERIF_REPO=REPO)
        rc, out = sh('python3 -c "import sys; sys.path.insert(0, \'%s/replay\'); import realcode; print(realcode.ucg_binary())"' % VERIF, VERIF, env=env)
        ucg = out.strip().split('\n')[-1]
        res['build'] = ucg
        demo = os.path.join(d, 'demo.sh')
        if os.path.exists(demo):
            rc, out = sh('sh %s %s' % (demo, ucg), d, timeout=600)
            res['demo_with_change_rc'] = rc
        if '--confirm' in sys.argv:
            rc, out = sh('CARGO_TARGET_DIR=%s_target cargo test --workspace --no-fail-fast --offline 2>&1 | grep -E "^test result" | head -1' % REPO, REPO, timeout=3600)
            res['test_suite_with_change'] = out.strip()
        for c in checks:
            for tier in ('quick', 'thorough'):
                t0 = time.time()
                rc, out = sh('./check %s %s' % (c, tier), VERIF, timeout=3600, env=dict(os.environ, VERIF_REPO=REPO))
                lines = [l for l in out.split('\n') if l.startswith(('VIOLATION', 'UNDECIDED', 'OK ', 'KNOWN'))]
                res['%s_%s' % (c, tier)] = dict(rc=rc, lines=[l[:400] for l in lines], wall=round(time.time() - t0, 1))
    finally:
        sh('git checkout -- . && git clean -fdq src', REPO)
    if '--confirm' in sys.argv and os.path.exists(os.path.join(d, 'demo.sh')):
        env = dict(os.environ, VERIF_REPO=REPO)
        rc, out = sh('python3 -c "import sys; sys.path.insert(0, \'%s/replay\'); import realcode; print(realcode.ucg_binary())"' % VERIF, VERIF, env=env)
        rc, out = sh('sh %s %s' % (os.path.join(d, 'demo.sh'), out.strip().split('\n')[-1]), d, timeout=600)
        res['demo_without_change_rc'] = rc
    print(json.dumps(res, indent=1))
    json.dump(res, open(os.path.join(d, 'check_result.json'), 'w'), indent=1)
    return 0


if __name__ == '__main__':
    sys.exit(main())
