//@ unit lsp_pos
//@ serves C20 C04
//@ must_verify token_index_at token_ref_at token_at token_prefix_at cursor_in_string collect_dot_path ucg_pos_to_range encode_semantic_tokens verif_position verif_find verif_rfind verif_chars_take lemma_chars_le_bytes lemma_path_pointwise lemma_range_of_covering_token
//@ include prelude/head.rs
use std::rc::Rc;
use std::collections::{BTreeMap, HashMap};
use vstd::utf8::*;
use vstd::std_specs::cmp::{PartialEqSpec, PartialEqSpecImpl};

// `use crate::ast::TokenType;` inside the extracted functions names the item extracted below.
mod ast { pub use crate::TokenType; }

// lsp_types (version pinned by Cargo.lock): `Position` and `Range` are plain structs of u32 -- the REAL
// definitions are extracted (attributes/derives dropped, R0), in a module of their own because ucg has a
// `Position` too (src/lsp/analysis.rs imports them as `lsp_types::{Position as LspPosition, Range}`).
mod lsp_types {
use vstd::prelude::*;
verus! {
//@ extract dep:lsp-types/src/lib.rs :: struct Position
//@   rule R0
//@ end
//@ extract dep:lsp-types/src/lib.rs :: struct Range
//@   rule R0
//@ end
}
}
use lsp_types::{Position as LspPosition, Range};

verus! {
//@ include prelude/core.rs
//@ include prelude/lsp_pos_models.rs

// ---------- the token stream (real definitions) ----------
// The source path in a Position is only stored (R5).
//@ opaque PathBuf Statement Diagnostic Shape CommentMap
//@ extract src/ast/mod.rs :: struct Position
//@   rule R0
//@ end
//@ extract src/ast/mod.rs :: enum TokenType
//@   rule R0
//@ end
//@ extract src/ast/mod.rs :: struct Token
//@   rule R0
//@ end
//@ extract src/lsp/analysis.rs :: struct AnalysisResult
//@   rule R0
//@ end

// R0: `#[derive(PartialEq)]` on TokenType (a field-less enum) is assumed structural.
impl PartialEqSpecImpl for TokenType {
    open spec fn obeys_eq_spec() -> bool { true }
    open spec fn eq_spec(&self, other: &TokenType) -> bool { *self == *other }
}
impl PartialEq for TokenType {
    #[verifier::external_body]
    fn eq(&self, other: &TokenType) -> bool { unimplemented!() }
}

// ---------- oracle: what "the token under the cursor" means ----------
// ucg positions are 1-based (line, column), columns and token lengths count BYTES of the source line;
// LSP positions are 0-based (line, character).  All arithmetic below is on mathematical integers.
pub open spec fn blen(t: Token) -> int { encode_utf8(t.fragment@).len() as int }

// A token list the tokenizer can produce: positions far from the top of usize (a document is at most
// isize::MAX bytes, line <= 1 + #newlines, column <= 1 + offset, offset + length <= document length; the
// position invariants themselves are C11's `stepper` unit).  Needed only so that `column + len (+ 2)` in the
// REAL code cannot overflow; nothing is assumed about order, overlap or content.
pub open spec fn wf_tok(t: Token) -> bool {
    t.pos.line < usize::MAX && t.pos.column + blen(t) + 2 <= usize::MAX
}
pub open spec fn wf_doc(doc: AnalysisResult) -> bool {
    forall|k: int| 0 <= k < doc.tokens@.len() ==> wf_tok(#[trigger] doc.tokens@[k])
}

// The cursor (line, character) is on token t: same line, and the 0-based character index lies in the
// HALF-OPEN byte span [column-1, column-1+len) -- the last character of a token is on it
// (`test_token_at_end_of_token`), the position just after it is not.
pub open spec fn covers(t: Token, line: u32, character: u32) -> bool {
    t.pos.line == line + 1 && t.pos.column - 1 <= character < t.pos.column - 1 + blen(t)
}
// i is the FIRST token of ts covering the cursor
pub open spec fn first_cover(ts: Seq<Token>, i: int, line: u32, character: u32) -> bool {
    0 <= i < ts.len() && covers(ts[i], line, character)
    && forall|k: int| 0 <= k < i ==> !covers(#[trigger] ts[k], line, character)
}
pub open spec fn no_cover(ts: Seq<Token>, line: u32, character: u32) -> bool {
    forall|k: int| 0 <= k < ts.len() ==> !covers(#[trigger] ts[k], line, character)
}

// Totality is part of every contract below without being written: Verus proves absence of arithmetic
// overflow/underflow, of out-of-bounds indexing and of non-termination for ALL `line`, `character` in u32.
//@ extract src/lsp/mod.rs :: fn token_index_at
//@   subst "doc.tokens.iter().position(|tok| {" => "verif_position(doc.tokens.as_slice(), |tok: &Token| -> (b: bool) requires wf_tok(*tok) ensures b == covers(*tok, line, character) {"
//@   ret r
//@   sig <<<
    requires wf_doc(*doc)
    ensures
        r matches Some(i) ==> first_cover(doc.tokens@, i as int, line, character),
        r is None ==> no_cover(doc.tokens@, line, character),
//@   >>>
//@   mutant line_not_converted "let target_line = (line as usize).saturating_add(1);" => "let target_line = line as usize;" expect token_index_at
//@   mutant col_off_by_one "let target_col = (character as usize).saturating_add(1);" => "let target_col = (character as usize).saturating_add(2);" expect token_index_at
//@   mutant token_end_inclusive "target_col < tok.pos.column + tok.fragment.len() })" => "target_col <= tok.pos.column + tok.fragment.len() })" expect token_index_at
//@   mutant overflowing_conversion "let target_line = (line as usize).saturating_add(1);" => "let target_line = (line + 1) as usize;" expect token_index_at
//@ end

//@ extract src/lsp/mod.rs :: fn token_ref_at
//@   subst "|idx| &doc.tokens[idx]" => "|idx: usize| -> (t: &Token) requires idx < doc.tokens@.len() ensures *t == doc.tokens@[idx as int] { &doc.tokens[idx] }"
//@   ret r
//@   sig <<<
    requires wf_doc(*doc)
    ensures
        r matches Some(t) ==> exists|i: int| first_cover(doc.tokens@, i, line, character) && *t == doc.tokens@[i],
        r is None ==> no_cover(doc.tokens@, line, character),
//@   >>>
//@ end

//@ extract src/lsp/mod.rs :: fn token_at
//@   subst "|tok| tok.fragment.clone()" => "|tok: &Token| -> (f: Rc<str>) ensures f == tok.fragment { tok.fragment.clone() }"
//@   ret r
//@   sig <<<
    requires wf_doc(*doc)
    ensures
        r matches Some(f) ==> exists|i: int| first_cover(doc.tokens@, i, line, character) && f == doc.tokens@[i].fragment,
        r is None ==> no_cover(doc.tokens@, line, character),
//@   >>>
//@ end

// ---------- completion prefix ----------
// t starts on the cursor's line at or before the cursor
pub open spec fn starts_before(t: Token, line: u32, character: u32) -> bool {
    t.pos.line == line + 1 && t.pos.column - 1 <= character
}
// j is the LAST token of ts that starts at or before the cursor on its line
pub open spec fn last_start(ts: Seq<Token>, j: int, line: u32, character: u32) -> bool {
    0 <= j < ts.len() && starts_before(ts[j], line, character)
    && forall|k: int| j < k < ts.len() ==> !starts_before(#[trigger] ts[k], line, character)
}
pub open spec fn no_start(ts: Seq<Token>, line: u32, character: u32) -> bool {
    forall|k: int| 0 <= k < ts.len() ==> !starts_before(#[trigger] ts[k], line, character)
}
// the first n characters of t's text, n = the distance from the token's start to the cursor
// (character - (column-1)), capped at the whole text; nothing when the cursor is left of the token.
pub open spec fn prefix_of(t: Token, character: u32) -> Seq<char> {
    let d = character + 1 - t.pos.column;
    let n = if d < 0 { 0 } else if d <= t.fragment@.len() { d } else { t.fragment@.len() as int };
    t.fragment@.take(n)
}

//@ extract src/lsp/mod.rs :: fn token_prefix_at
//@   subst "doc.tokens .iter().rfind(|tok|" => "verif_rfind(doc.tokens.as_slice(), |tok: &&Token| -> (b: bool) requires wf_tok(**tok) ensures b == starts_before(**tok, line, character) {"
//@   subst ") .map(|tok| {" => "}) .map(|tok: &Token| -> (s: String) requires wf_tok(*tok) ensures s@ == prefix_of(*tok, character) {"
//@   subst "tok.fragment.chars().take(" => "verif_chars_take(&tok.fragment, "
//@   subst ".collect::<String>()" => ""
//@   ret r
//@   sig <<<
    requires wf_doc(*doc)
    ensures
        (exists|j: int| #![trigger doc.tokens@[j]] last_start(doc.tokens@, j, line, character) && r@ == prefix_of(doc.tokens@[j], character))
        || (no_start(doc.tokens@, line, character) && r@ == Seq::<char>::empty()),
//@   >>>
//@   mutant prefix_one_short "target_col.saturating_sub(tok.pos.column)" => "(target_col - 1).saturating_sub(tok.pos.column)" expect token_prefix_at
//@   mutant prefix_one_long "target_col.saturating_sub(tok.pos.column)" => "target_col.saturating_sub(tok.pos.column) + 1" expect token_prefix_at
//@   mutant prefix_first_token "verif_rfind(" => "verif_find(" expect token_prefix_at
//@ end

// ---------- cursor inside a string literal ----------
// A QUOTED token's position is its opening quote and its fragment is the text between the quotes, so the
// code takes the source span to be [column-1, column-1 + len + 2): both quote characters count as "inside".
// (The fragment is the UNESCAPED text: for a literal containing escapes the real span is longer -- a
// precision limit of the real code, not a totality question; not part of this contract.)
pub open spec fn in_string(t: Token, line: u32, character: u32) -> bool {
    t.typ is QUOTED && t.pos.line == line + 1 && t.pos.column - 1 <= character < t.pos.column - 1 + blen(t) + 2
}
pub open spec fn first_string(ts: Seq<Token>, i: int, line: u32, character: u32) -> bool {
    0 <= i < ts.len() && in_string(ts[i], line, character)
    && forall|k: int| 0 <= k < i ==> !in_string(#[trigger] ts[k], line, character)
}
pub open spec fn no_string(ts: Seq<Token>, line: u32, character: u32) -> bool {
    forall|k: int| 0 <= k < ts.len() ==> !in_string(#[trigger] ts[k], line, character)
}

// std: `impl Display for Rc<T>` forwards to T's, and `str`'s Display writes the text: `Rc<str>::to_string()`
// is the text (vstd specifies `to_string` for `str` only).
#[verifier::external_body]
pub fn verif_rcstr_to_string(s: &Rc<str>) -> (r: String)
    ensures r@ == s@
{ s.to_string() }

//@ extract src/lsp/mod.rs :: fn cursor_in_string
//@   subst "doc.tokens .iter() .find(|tok| {" => "verif_find(doc.tokens.as_slice(), |tok: &&Token| -> (b: bool) requires wf_tok(**tok) ensures b == in_string(**tok, line, character) {"
//@   subst ".map(|tok| tok.fragment.to_string())" => ".map(|tok: &Token| -> (s: String) ensures s@ == tok.fragment@ { verif_rcstr_to_string(&tok.fragment) })"
//@   ret r
//@   sig <<<
    requires wf_doc(*doc)
    ensures
        r matches Some(s) ==> exists|i: int| #![trigger doc.tokens@[i]] first_string(doc.tokens@, i, line, character) && s@ == doc.tokens@[i].fragment@,
        r is None ==> no_string(doc.tokens@, line, character),
//@   >>>
//@   mutant string_any_token "tok.typ == TokenType::QUOTED &&" => "" expect cursor_in_string
//@   mutant string_quotes_not_counted "tok.fragment.len() + 2" => "tok.fragment.len()" expect cursor_in_string
//@ end

// ---------- dotted path ending at the cursor ----------
pub open spec fn is_dot(t: Token) -> bool { t.typ is PUNCT && t.fragment@ == "."@ }
// token k is immediately preceded by `BAREWORD .`
pub open spec fn link(ts: Seq<Token>, k: int) -> bool {
    2 <= k < ts.len() && is_dot(ts[k - 1]) && ts[k - 2].typ is BAREWORD
}
// the fragments of tokens i, i-2, .., j (cursor token first), for j = i - 2n
pub open spec fn rev_path(ts: Seq<Token>, i: int, j: int) -> Seq<Rc<str>>
    decreases (if i > j { i - j } else { 0 })
{
    if j >= i { seq![ts[i].fragment] } else { rev_path(ts, i, j + 2).push(ts[j].fragment) }
}
// every step from j up to i is a link: tokens j, j+2, .., i are BAREWORDs (given i is) joined by `.` tokens
pub open spec fn linked(ts: Seq<Token>, i: int, j: int) -> bool
    decreases (if i > j { i - j } else { 0 })
{
    j >= i || (link(ts, j + 2) && linked(ts, i, j + 2))
}

// What the two recursive definitions say pointwise (read-out lemma; nothing depends on it): for j = i - 2n,
// the reversed path has n+1 components, component m is the fragment of token j + 2m (root first, cursor token
// last), and every token j+2, j+4, .., i is preceded by `BAREWORD .`.
pub proof fn lemma_path_pointwise(ts: Seq<Token>, i: int, n: nat)
    ensures
        rev_path(ts, i, i - 2 * n).len() == n + 1,
        forall|m: int| 0 <= m <= n ==> (#[trigger] rev_path(ts, i, i - 2 * n).reverse()[m]) == ts[i - 2 * n + 2 * m].fragment,
        linked(ts, i, i - 2 * n) ==> forall|m: int| 1 <= m <= n ==> #[trigger] link(ts, i - 2 * n + 2 * m),
    decreases n
{
    if n > 0 {
        lemma_path_pointwise(ts, i, (n - 1) as nat);
        let p = rev_path(ts, i, i - 2 * n);
        let q = rev_path(ts, i, i - 2 * (n - 1));
        assert(i - 2 * n + 2 == i - 2 * (n - 1));
        assert(p == q.push(ts[i - 2 * n].fragment));
        assert forall|m: int| 0 <= m <= n implies (#[trigger] p.reverse()[m]) == ts[i - 2 * n + 2 * m].fragment by {
            if m > 0 {
                assert(p.reverse()[m] == p[n - m]);
                assert(p[n - m] == q[n - m]);
                assert(q[n - m] == q.reverse()[m - 1]);
                assert(i - 2 * (n - 1) + 2 * (m - 1) == i - 2 * n + 2 * m);
            }
        }
        if linked(ts, i, i - 2 * n) {
            assert forall|m: int| 1 <= m <= n implies #[trigger] link(ts, i - 2 * n + 2 * m) by {
                if m > 1 {
                    assert(i - 2 * (n - 1) + 2 * (m - 1) == i - 2 * n + 2 * m);
                }
            }
        }
    } else {
        assert(rev_path(ts, i, i - 2 * 0) == seq![ts[i].fragment]);
    }
}

// std: `<[T]>::reverse` reverses the order of the elements in place.
pub assume_specification<T> [<[T]>::reverse] (s: &mut [T])
    ensures final(s)@ == old(s)@.reverse();

//@ extract src/lsp/mod.rs :: type DotPath
//@ end

//@ extract src/lsp/mod.rs :: fn collect_dot_path
//@   ret r
//@   sig <<<
    requires wf_doc(*doc)
    ensures
        // Some((path, root)): the cursor is on BAREWORD token i; with j = i - 2*(len-1) the root token:
        // path = fragments of tokens j, j+2, .., i (root first), every step is `BAREWORD . BAREWORD`, the chain is
        // maximal (token j is not itself preceded by `BAREWORD .`), root = (line, column) of token j, and -- callers
        // index `path[0]`, `path[1..]`, `fields[0]` -- the path has at least two components.
        r matches Some((path, root)) ==> path@.len() >= 2 && exists|i: int| #![trigger first_cover(doc.tokens@, i, line, character)]
            first_cover(doc.tokens@, i, line, character) && doc.tokens@[i].typ is BAREWORD
            && 0 <= i - 2 * (path@.len() - 1)
            && path@ == rev_path(doc.tokens@, i, i - 2 * (path@.len() - 1)).reverse()
            && linked(doc.tokens@, i, i - 2 * (path@.len() - 1))
            && !link(doc.tokens@, i - 2 * (path@.len() - 1))
            && root == (doc.tokens@[i - 2 * (path@.len() - 1)].pos.line, doc.tokens@[i - 2 * (path@.len() - 1)].pos.column),
        // None: no token under the cursor, or it is not a BAREWORD preceded by `BAREWORD .`
        r is None ==> no_cover(doc.tokens@, line, character) || exists|i: int| #![trigger first_cover(doc.tokens@, i, line, character)]
            first_cover(doc.tokens@, i, line, character) && !(doc.tokens@[i].typ is BAREWORD && link(doc.tokens@, i)),
//@   >>>
//@   loop 1 <<<
        invariant
            idx < doc.tokens@.len(), i <= idx, path@.len() >= 1,
            idx - i == 2 * (path@.len() - 1),
            path@ == rev_path(doc.tokens@, idx as int, i as int),
            linked(doc.tokens@, idx as int, i as int),
        ensures
            !link(doc.tokens@, i as int),
        decreases i
//@   >>>
//@   mutant dot_any_punct "dot.typ != TokenType::PUNCT || dot.fragment.as_ref() != \".\"" => "dot.typ != TokenType::PUNCT" expect collect_dot_path
//@   mutant path_not_reversed "path.reverse();" => "" expect collect_dot_path
//@   mutant single_component_path "if path.len() < 2" => "if path.len() < 1" expect collect_dot_path
//@   mutant step_one_token "i -= 2;" => "i -= 1;" expect collect_dot_path
//@ end

// ---------- ucg position -> LSP range ----------
// LSP coordinates are u32: a ucg position is representable when its 0-based line and column fit.  (Beyond
// that -- a line or column past 4 GiB -- the real code truncates with `as u32`; excluded here, see report.)
pub open spec fn fits_lsp(pos: Position) -> bool { pos.line <= u32::MAX as int + 1 && pos.column <= u32::MAX as int }
pub open spec fn pred(x: usize) -> int { if x == 0 { 0 } else { x - 1 } }

//@ extract src/lsp/analysis.rs :: fn ucg_pos_to_range
//@   ret r
//@   sig <<<
    requires fits_lsp(*pos)
    ensures
        // 1-based -> 0-based, ucg line/column 0 (never produced by the tokenizer) maps to 0 instead of underflowing
        r.start.line == pred(pos.line), r.start.character == pred(pos.column),
        // a one-character range on that line: start <= end
        r.end.line == r.start.line, r.end.character == r.start.character + 1,
//@   >>>
//@   mutant range_swapped "start: LspPosition { line, character: col, }, end: LspPosition { line, character: col + 1, }," => "start: LspPosition { line, character: col + 1, }, end: LspPosition { line, character: col, },"  expect ucg_pos_to_range
//@   mutant line_plain_subtraction "pos.line.saturating_sub(1) as u32" => "(pos.line - 1) as u32" expect ucg_pos_to_range
//@   mutant line_not_converted_back "pos.line.saturating_sub(1) as u32" => "pos.line as u32" expect ucg_pos_to_range
//@ end

// Corollary used by hover / go-to-definition (`ucg_pos_to_range(&tok.pos)` of the token under the cursor): the
// reported range is on the requested line and starts at the token's first character, at or left of the cursor.
pub proof fn lemma_range_of_covering_token(t: Token, line: u32, character: u32)
    requires covers(t, line, character)
    ensures character < u32::MAX ==> fits_lsp(t.pos), pred(t.pos.line) == line, pred(t.pos.column) <= character,
{ }

// lsp_types::SemanticToken: five u32 fields, the real definition (R0).
//@ extract dep:lsp-types/src/semantic_tokens.rs :: struct SemanticToken
//@   rule R0
//@ end

// ---------- semantic tokens: the LSP relative (delta) encoding ----------
pub open spec fn lsp_line(t: Token) -> int { pred(t.pos.line) }
pub open spec fn lsp_col(t: Token) -> int { pred(t.pos.column) }
// 0-based line, column and byte length are representable in LSP's u32 (documents below 4 GiB per dimension)
pub open spec fn tok_fits_lsp(t: Token) -> bool {
    lsp_line(t) <= u32::MAX && lsp_col(t) <= u32::MAX && blen(t) <= u32::MAX
}
// the tokens are in document order (what the tokenizer emits): positions never go backwards
pub open spec fn doc_order(ts: Seq<Token>) -> bool {
    forall|a: int, b: int| 0 <= a < b < ts.len() ==>
        lsp_line(#[trigger] ts[a]) < lsp_line(#[trigger] ts[b])
        || (lsp_line(ts[a]) == lsp_line(ts[b]) && lsp_col(ts[a]) <= lsp_col(ts[b]))
}
// d is the relative encoding of the tokens with indices em[0] < em[1] < .. : decoding d as LSP prescribes
// (line += delta_line; character = delta_line == 0 ? character + delta_start : delta_start) yields exactly
// the 0-based position of token em[k] for entry k, and `length` is its byte length.
pub open spec fn encodes(ts: Seq<Token>, em: Seq<int>, d: Seq<SemanticToken>) -> bool {
    em.len() == d.len()
    && (forall|k: int| 0 <= k < em.len() ==> 0 <= #[trigger] em[k] < ts.len())
    && (forall|k: int| 0 < k < em.len() ==> em[k - 1] < #[trigger] em[k])
    && (forall|k: int| 0 <= k < d.len() ==> entry_ok(ts, em, #[trigger] d[k], k))
}
pub open spec fn entry_ok(ts: Seq<Token>, em: Seq<int>, e: SemanticToken, k: int) -> bool {
    let pl = if k == 0 { 0 } else { lsp_line(ts[em[k - 1]]) };
    let pc = if k == 0 { 0 } else { lsp_col(ts[em[k - 1]]) };
    e.delta_line == lsp_line(ts[em[k]]) - pl
    && e.delta_start == (if e.delta_line == 0 { lsp_col(ts[em[k]]) - pc } else { lsp_col(ts[em[k]]) })
    && e.length == blen(ts[em[k]])
}

// std `<[T]>::contains`: only classifies tokens here (type / modifier numbers); left unspecified.
pub assume_specification<T: std::cmp::PartialEq> [<[T]>::contains] (s: &[T], x: &T) -> bool;

// the set of definition sites only decides the `declaration` modifier bit; not part of this contract
#[verifier::external_body]
pub fn verif_definition_positions(doc: &AnalysisResult) -> std::collections::HashSet<(usize, usize)> { unimplemented!() }

//@ extract src/lsp/mod.rs :: fn encode_semantic_tokens
// Verus: a `const` inside a function must be exec-only and name its lifetimes (elided = 'static in a const)
//@   subst all "const" => "exec const"
//@   subst all "&[&str]" => "&'static [&'static str]"
// closure with a tuple pattern building a HashSet: replaced by an opaque set (see above)
//@   subst "doc .symbol_table .values() .map(|(_, pos)| (pos.line, pos.column)) .collect()" => "verif_definition_positions(doc)"
//@   subst "for tok in &doc.tokens {" => "for tok in doc.tokens.iter() {"
//@   ret r
//@   sig <<<
    requires
        doc_order(doc.tokens@),
        forall|k: int| 0 <= k < doc.tokens@.len() ==> tok_fits_lsp(#[trigger] doc.tokens@[k]),
    ensures
        exists|em: Seq<int>| encodes(doc.tokens@, em, r@),
//@   >>>
//@   body_start <<<
    let ghost mut em: Seq<int> = Seq::empty();
//@   >>>
//@   loop 1 indexed <<<
        invariant
            i__1 <= it__1@.len(), it__1@ == doc.tokens@,
            doc_order(doc.tokens@),
            forall|k: int| 0 <= k < doc.tokens@.len() ==> tok_fits_lsp(#[trigger] doc.tokens@[k]),
            encodes(doc.tokens@, em, data@),
            em.len() > 0 ==> em.last() < i__1,
            prev_line == (if em.len() == 0 { 0 } else { lsp_line(doc.tokens@[em.last()]) }),
            prev_col == (if em.len() == 0 { 0 } else { lsp_col(doc.tokens@[em.last()]) }),
        decreases it__1@.len() - i__1
//@   >>>
//@   loop_body_end 1 <<<
        proof { em = em.push(i__1 - 1); }
//@   >>>
//@   mutant delta_line_reversed "line - prev_line" => "prev_line - line" expect encode_semantic_tokens
//@   mutant delta_start_always_absolute "if delta_line == 0 { col - prev_col } else { col }" => "col" expect encode_semantic_tokens
//@   mutant delta_start_always_relative "if delta_line == 0 { col - prev_col } else { col }" => "col.wrapping_sub(prev_col)" expect encode_semantic_tokens
//@   mutant prev_line_not_updated "prev_line = line;" => "" expect encode_semantic_tokens
//@   mutant column_not_converted "tok.pos.column.saturating_sub(1) as u32" => "tok.pos.column as u32" expect encode_semantic_tokens
//@ end

} // verus!

fn main() {}
