//@ unit tokenizer_loop
//@ serves C11 C04
//@ must_verify tokenize lemma_kept_push lemma_comments_push lemma_groups_in_map lemma_line_mono lemma_line_lf lemma_comment_has_lf lemma_cmt_end_is_stop lemma_offs_mono
//@ include prelude/head.rs
use vstd::utf8::*;
use std::rc::Rc;
use std::ops::Index;
use vstd::std_specs::cmp::{PartialEqSpec, PartialEqSpecImpl};

// C11, third part: `tokenize` (src/tokenizer/mod.rs), with `token` as a contracted callee (its contract is proved in
// units/tokenizer_alt.unit.rs: every token has its exact text, extent, TRUE position, and makes progress).
//   * the tokens `token` produces tile the input from the cursor to the end, each starting where the previous one ended;
//   * WS and COMMENT tokens are dropped from the stream, all others are kept, in order;
//   * exactly one END token, last, at the final position;
//   * every loop iteration makes progress (termination);
//   * with a comment map every COMMENT token lands in exactly one group, in order; without one the map is untouched.
// The `abortable_parser::Error` of the extracted text is the Error of this one-file crate.
mod abortable_parser { pub use crate::Error; }

verus! {
//@ include prelude/core.rs
//@ include prelude/stepper_iter.rs
//@ include prelude/tokenizer_spec.rs

//@ clone_spec Token
// R0: `#[derive(PartialEq)]` on TokenType (a field-less enum) is assumed structural.
impl PartialEqSpecImpl for TokenType {
    open spec fn obeys_eq_spec() -> bool { true }
    open spec fn eq_spec(&self, other: &TokenType) -> bool { *self == *other }
}
impl PartialEq for TokenType {
    #[verifier::external_body]
    fn eq(&self, other: &TokenType) -> bool { unimplemented!() }
}

// BuildError is only constructed from a parser error and returned (R5).
//@ opaque BuildError
impl BuildError {
    #[verifier::external_body]
    pub fn from<T>(e: T) -> Self { unimplemented!() }
}

// TRUSTED model of `CommentMap = BTreeMap<usize, Vec<Token>>`: a finite map; `insert` sets the key (std: "If the map
// did have this key present, the value is updated").
#[verifier::external_body]
pub struct CommentMap { _p: u8 }
impl View for CommentMap {
    type V = Map<usize, Seq<Token>>;
    uninterp spec fn view(&self) -> Map<usize, Seq<Token>>;
}
impl CommentMap {
    #[verifier::external_body]
    pub fn insert(&mut self, key: usize, value: Vec<Token>) -> (r: Option<Vec<Token>>)
        ensures final(self)@ == old(self)@.insert(key, value@)
    { unimplemented!() }
}

// `token`: contract proved in units/tokenizer_alt.unit.rs (first extraction of `token` there, same text).
//@ extract src/tokenizer/mod.rs :: fn token
//@   opaque_body
//@   ret r
//@   sig <<<
    requires wf_osi(input)
    ensures
        !(r is Abort),
        r matches Result::Complete(rest, tok) ==> token_shape(input, rest, tok),
//@   >>>
//@ end

// ---------- the oracle ----------
pub open spec fn is_layout(t: Token) -> bool { t.typ is WS || t.typ is COMMENT }
// the tokens the parser gets: everything but whitespace and comments, in order
pub open spec fn kept(toks: Seq<Token>) -> Seq<Token>
    decreases toks.len()
{
    if toks.len() == 0 { Seq::<Token>::empty() }
    else if is_layout(toks.last()) { kept(toks.drop_last()) }
    else { kept(toks.drop_last()).push(toks.last()) }
}
pub open spec fn comments(toks: Seq<Token>) -> Seq<Token>
    decreases toks.len()
{
    if toks.len() == 0 { Seq::<Token>::empty() }
    else if toks.last().typ is COMMENT { comments(toks.drop_last()).push(toks.last()) }
    else { comments(toks.drop_last()) }
}
pub proof fn lemma_kept_push(toks: Seq<Token>, t: Token)
    ensures kept(toks.push(t)) == (if is_layout(t) { kept(toks) } else { kept(toks).push(t) }),
{
    assert(toks.push(t).drop_last() =~= toks);
}
pub proof fn lemma_comments_push(toks: Seq<Token>, t: Token)
    ensures comments(toks.push(t)) == (if t.typ is COMMENT { comments(toks).push(t) } else { comments(toks) }),
{
    assert(toks.push(t).drop_last() =~= toks);
}
// the position the token that starts at byte offset a of i0's text must report
pub open spec fn pos_at(p: Position, i0: OffsetStrIter, a: int) -> bool {
    &&& p.file == i0.source_file
    &&& p.offset == a
    &&& p.line == true_line(bytes_of(i0), a) + i0.line_offset
    &&& p.column == true_column(bytes_of(i0), a) + i0.col_offset
}
// token t covers bytes a..b of the text: a real, non-empty token with exactly that text and the true position of a
pub open spec fn tok_at(i0: OffsetStrIter, t: Token, a: int, b: int) -> bool {
    &&& 0 <= a < b <= bytes_of(i0).len()
    &&& token_text(bytes_of(i0), a, b, t)
    &&& pos_at(t.pos, i0, a)
    &&& !(t.typ is END)
    &&& (on_boundary(bytes_of(i0), a) ==> on_boundary(bytes_of(i0), b))
}
// toks tile the text from the cursor of i0 on: token k covers offs[k]..offs[k+1]
pub open spec fn tiling(i0: OffsetStrIter, toks: Seq<Token>, offs: Seq<int>) -> bool {
    &&& offs.len() == toks.len() + 1 && offs[0] == off_of(i0)
    &&& forall|k: int| 0 <= k < toks.len() ==> tok_at(i0, #[trigger] toks[k], offs[k], offs[k + 1])
}
// comment groups: concatenated they are the COMMENT tokens in order; each goes into the map under the line of its last
// comment, in order
pub open spec fn flat(gs: Seq<Seq<Token>>) -> Seq<Token>
    decreases gs.len()
{
    if gs.len() == 0 { Seq::<Token>::empty() } else { flat(gs.drop_last()) + gs.last() }
}
pub open spec fn insert_groups(m: Map<usize, Seq<Token>>, gs: Seq<Seq<Token>>) -> Map<usize, Seq<Token>>
    decreases gs.len()
{
    if gs.len() == 0 { m } else { insert_groups(m, gs.drop_last()).insert(gs.last().last().pos.line, gs.last()) }
}
pub open spec fn group_key(g: Seq<Token>) -> int { g.last().pos.line as int }
// groups are stored under strictly increasing line numbers: no insert overwrites an earlier one
pub open spec fn keys_increase(gs: Seq<Seq<Token>>) -> bool {
    forall|a: int, b: int| 0 <= a < b < gs.len() ==> group_key(#[trigger] gs[a]) < group_key(#[trigger] gs[b])
}
// ... so that every group is in the map, whole, under its key
pub proof fn lemma_groups_in_map(m: Map<usize, Seq<Token>>, gs: Seq<Seq<Token>>, g: int)
    requires keys_increase(gs), 0 <= g < gs.len()
    ensures
        insert_groups(m, gs).contains_key(gs[g].last().pos.line),
        insert_groups(m, gs)[gs[g].last().pos.line] == gs[g],
    decreases gs.len()
{
    if g < gs.len() - 1 {
        lemma_groups_in_map(m, gs.drop_last(), g);
        assert(gs.drop_last()[g] == gs[g]);
        assert(group_key(gs[g]) < group_key(gs[gs.len() - 1]));
    }
}
pub open spec fn tokenize_ok(input: OffsetStrIter, has_map: bool, m0: Map<usize, Seq<Token>>, m1: Map<usize, Seq<Token>>,
                             out: Seq<Token>, toks: Seq<Token>, offs: Seq<int>, groups: Seq<Seq<Token>>) -> bool {
    let n = bytes_of(input).len() as int;
    &&& tiling(input, toks, offs) && offs.last() == n
    // the stream: the non-layout tokens in order, then exactly one END token at the end position
    &&& out.len() == kept(toks).len() + 1 && out.drop_last() == kept(toks)
    &&& out.last().typ is END && out.last().fragment@.len() == 0 && pos_at(out.last().pos, input, n)
    // comments
    &&& if has_map {
            flat(groups) == comments(toks) && (forall|g: int| 0 <= g < groups.len() ==> (#[trigger] groups[g]).len() > 0)
            && m1 == insert_groups(m0, groups) && keys_increase(groups)
        } else {
            m1 == m0
        }
}

pub open spec fn tokenized(input: OffsetStrIter, has_map: bool, m0: Map<usize, Seq<Token>>, m1: Map<usize, Seq<Token>>, out: Seq<Token>) -> bool {
    exists|toks: Seq<Token>, offs: Seq<int>, groups: Seq<Seq<Token>>| #[trigger] tokenize_ok(input, has_map, m0, m1, out, toks, offs, groups)
}

// line numbers only grow along the text, and grow across a line feed
pub proof fn lemma_line_mono(bs: Seq<u8>, a: int, b: int)
    requires 0 <= a <= b <= bs.len()
    ensures true_line(bs, a) <= true_line(bs, b)
    decreases b - a
{
    if a < b {
        lemma_line_mono(bs, a, b - 1);
        assert(bs.take(b).drop_last() =~= bs.take(b - 1));
    }
}
pub proof fn lemma_line_lf(bs: Seq<u8>, a: int, j: int, b: int)
    requires 0 <= a <= j < b <= bs.len(), bs[j] == 0x0A
    ensures true_line(bs, a) < true_line(bs, b)
{
    lemma_line_mono(bs, a, j);
    assert(bs.take(j + 1).drop_last() =~= bs.take(j));
    assert(bs.take(j + 1).last() == bs[j]);
    lemma_line_mono(bs, j + 1, b);
}
// a comment that is not the end of the text contains its line feed
pub proof fn lemma_comment_has_lf(bs: Seq<u8>, o: int, e: int, t: Token)
    requires token_text(bs, o, e, t), t.typ is COMMENT, 0 <= o < e < bs.len()
    ensures true_line(bs, o) < true_line(bs, e)
{
    lemma_cmt_end_bounds(bs, o + 2);
    let c = cmt_end(bs, o + 2);
    lemma_cmt_end_is_stop(bs, o + 2);
    if is_crlf(bs, c) { lemma_line_lf(bs, o, c + 1, e); } else { lemma_line_lf(bs, o, c, e); }
}
pub proof fn lemma_cmt_end_is_stop(bs: Seq<u8>, s: int)
    requires 0 <= s <= bs.len()
    ensures cmt_end(bs, s) < bs.len() ==> cmt_ends_at(bs, cmt_end(bs, s))
    decreases bs.len() - s
{
    if s < bs.len() && !cmt_ends_at(bs, s) { lemma_cmt_end_is_stop(bs, s + 1); }
}
pub proof fn lemma_offs_mono(i0: OffsetStrIter, toks: Seq<Token>, offs: Seq<int>, a: int, b: int)
    requires wf_osi(i0), tiling(i0, toks, offs), 0 <= a <= b < offs.len()
    ensures 0 <= offs[a] <= offs[b] <= bytes_of(i0).len()
    decreases b - a
{
    if a < b {
        lemma_offs_mono(i0, toks, offs, a, b - 1);
        assert(tok_at(i0, toks[b - 1], offs[b - 1], offs[b]));
    } else if a > 0 {
        assert(tok_at(i0, toks[a - 1], offs[a - 1], offs[a]));
    }
}

// what the loop keeps about the comment groups: `groups` are in the map, `cur` is the open group, `last` its last comment
// (token number ck); every key in the map is a line before offset hi, and hi is not after the open group
pub open spec fn group_inv(has_map: bool, m0: Map<usize, Seq<Token>>, m: Map<usize, Seq<Token>>, i0: OffsetStrIter, toks: Seq<Token>,
                           offs: Seq<int>, groups: Seq<Seq<Token>>, cur: Seq<Token>, last: Option<Token>, hi: int, ck: int) -> bool {
    if has_map {
        &&& flat(groups) + cur == comments(toks)
        &&& forall|g: int| 0 <= g < groups.len() ==> (#[trigger] groups[g]).len() > 0
        &&& m == insert_groups(m0, groups)
        &&& last matches Some(t) ==> cur.len() > 0 && t == cur.last() && 0 <= ck < toks.len() && toks[ck] == t && t.typ is COMMENT && hi <= offs[ck]
        &&& last is None ==> cur.len() == 0
        &&& keys_increase(groups)
        &&& 0 <= hi <= offs.last()
        &&& forall|g: int| 0 <= g < groups.len() ==> group_key(#[trigger] groups[g]) < true_line(bytes_of(i0), hi) + i0.line_offset
    } else {
        m == m0 && groups.len() == 0
    }
}

// R11-like: `mut comment_map: Option<&mut CommentMap>` (Verus has no `&mut` inside an Option) is the pair
// `has_map: bool, map: &mut CommentMap`; `Some(_)` / `Some(ref mut map)` / `None` in the patterns become `true` / `true` /
// `false`.  When has_map is false the map must come back unchanged.
//@ extract src/tokenizer/mod.rs :: fn tokenize
//@   rule R0
//@   subst "mut comment_map: Option<&mut CommentMap>," => "has_map: bool, map: &mut CommentMap,"
//@   subst "match (&mut comment_map, &tok.typ) {" => "match (has_map, &tok.typ) {"
//@   subst "(&mut Some(_), &TokenType::COMMENT) => {" => "(true, TokenType::COMMENT) => {"
//@   subst "(&mut Some(ref mut map), _) => {" => "(true, _) => {"
//@   subst "(None, TokenType::WS) | (None, TokenType::COMMENT) => continue," => "(false, TokenType::WS) | (false, TokenType::COMMENT) => continue,"
//@   subst "(None, _) => {" => "(false, _) => {"
//@   subst "if let Some(ref mut map) = comment_map {" => "if has_map {"
//@   ret r
//@   sig <<<
    requires wf_osi(input)
    ensures
        r matches Ok(out) ==> tokenized(input, has_map, old(map)@, final(map)@, out@),
//@   >>>
//@   before "loop {" <<<
    let ghost mut toks = Seq::<Token>::empty();
    let ghost mut offs = seq![off_of(input)];
    let ghost mut groups = Seq::<Seq<Token>>::empty();
    let ghost m0 = map@;
    let ghost mut hi = off_of(input);
    let ghost mut ck = 0int;
//@   >>>
//@   loop 1 <<<
        invariant
            wf_osi(input), wf_osi(i), same_frame(i, input),
            tiling(input, toks, offs), offs.last() == off_of(i),
            out@ == kept(toks),
            group_inv(has_map, m0, map@, input, toks, offs, groups, comment_group@, comment_was_last, hi, ck),
        ensures
            wf_osi(input), wf_osi(i), same_frame(i, input),
            tiling(input, toks, offs), offs.last() == off_of(i), off_of(i) >= bytes_of(input).len(),
            out@ == kept(toks),
            group_inv(has_map, m0, map@, input, toks, offs, groups, comment_group@, comment_was_last, hi, ck),
        decreases bytes_of(input).len() - off_of(i)
//@   >>>
//@   after "i = rest;" <<<
                proof {
                    let o = offs.last(); let e = off_of(i);
                    lemma_kept_push(toks, tok); lemma_comments_push(toks, tok);
                    let toks1 = toks.push(tok); let offs1 = offs.push(e);
                    assert(tok_at(input, tok, o, e));
                    assert forall|k: int| 0 <= k < toks1.len() implies tok_at(input, #[trigger] toks1[k], offs1[k], offs1[k + 1]) by {
                        if k < toks.len() { assert(toks1[k] == toks[k]); }
                    }
                    toks = toks1; offs = offs1;
                }
//@   >>>
//@   after "comment_was_last = Some(tok.clone());" <<<
                        proof { ck = toks.len() - 1; }
//@   >>>
//@   before "map.insert(tok.pos.line, comment_group);" <<<
                            let ghost g = comment_group@;
//@   >>>
//@   after "map.insert(tok.pos.line, comment_group);" <<<
                            proof {
                                // the group's key is the line of its last comment (token ck); that comment is followed by
                                // another token, so it contains its line feed: every later line number is larger
                                let bs = bytes_of(input);
                                assert(tok_at(input, toks[ck], offs[ck], offs[ck + 1]));
                                lemma_offs_mono(input, toks, offs, 0, ck);
                                lemma_offs_mono(input, toks, offs, ck + 1, toks.len() - 1);
                                assert(tok_at(input, toks[toks.len() - 1], offs[toks.len() - 1], offs[toks.len() as int]));
                                lemma_comment_has_lf(bs, offs[ck], offs[ck + 1], toks[ck]);
                                lemma_line_mono(bs, hi, offs[ck]);
                                let groups1 = groups.push(g);
                                assert(groups1.drop_last() =~= groups);
                                assert forall|a: int, b: int| 0 <= a < b < groups1.len() implies group_key(#[trigger] groups1[a]) < group_key(#[trigger] groups1[b]) by {
                                    if b < groups.len() { assert(groups1[a] == groups[a] && groups1[b] == groups[b]); } else { assert(groups1[a] == groups[a]); }
                                }
                                lemma_line_mono(bs, hi, offs[ck + 1]);
                                assert forall|x: int| 0 <= x < groups1.len() implies group_key(#[trigger] groups1[x]) < true_line(bs, offs[ck + 1]) + input.line_offset by {
                                    if x < groups.len() { assert(groups1[x] == groups[x]); }
                                }
                                hi = offs[ck + 1];
                                groups = groups1;
                                assert(flat(groups) + Seq::<Token>::empty() =~= flat(groups));
                            }
//@   >>>
//@   before "map.insert(line, comment_group);" <<<
            let ghost g = comment_group@;
//@   >>>
//@   after "map.insert(line, comment_group);" <<<
            proof {
                let bs = bytes_of(input);
                assert(tok_at(input, toks[ck], offs[ck], offs[ck + 1]));
                lemma_line_mono(bs, hi, offs[ck]);
                let groups1 = groups.push(g);
                assert(groups1.drop_last() =~= groups);
                assert forall|a: int, b: int| 0 <= a < b < groups1.len() implies group_key(#[trigger] groups1[a]) < group_key(#[trigger] groups1[b]) by {
                    if b < groups.len() { assert(groups1[a] == groups[a] && groups1[b] == groups[b]); } else { assert(groups1[a] == groups[a]); }
                }
                groups = groups1;
            }
//@   >>>
// (the first three are written against the text after the substitutions above)
//@   mutant comment_kept_without_map "| (false, TokenType::COMMENT)" => "" expect tokenize
//@   mutant ws_kept_with_map "if tok.typ != TokenType::WS { out.push(tok); }" => "{ out.push(tok); }" expect tokenize
//@   mutant map_touched_without_request "if has_map { if let Some(tok) = comment_group.last()" => "if true { if let Some(tok) = comment_group.last()" expect tokenize
//@   mutant end_token_is_ws "typ: TokenType::END," => "typ: TokenType::WS," expect tokenize
//@   mutant end_pos_at_start "pos: Position::from(&i)," => "pos: Position::from(&input)," expect tokenize
//@   mutant comment_not_grouped "comment_group.push(tok.clone());" => "" expect tokenize
//@   mutant group_keyed_by_first "if let Some(tok) = comment_group.last() {" => "if let Some(tok) = comment_group.first() {" expect tokenize
//@   mutant stops_at_first_comment "comment_was_last = Some(tok.clone()); continue;" => "comment_was_last = Some(tok.clone()); break;" expect tokenize
//@   before "Ok(out)" <<<
    proof {
        assert(out@.drop_last() =~= kept(toks));
        reveal_strlit("");
        assert(tokenize_ok(input, has_map, m0, map@, out@, toks, offs, groups));
    }
//@   >>>
//@ end

} // verus!

fn main() {}
