// ---- prelude/err_pos_core.rs: prelude/core.rs for unit err_pos ----
// A COPY of the parts of prelude/core.rs the unit needs, with ONE difference: the R1 stub `verif_msg()` yields the
// `Rc<str>` that `format!(..).into()` yields at every call site of the REAL `Error::new(msg: Rc<str>, pos)` (core.rs
// yields a String because the other VM units model `Error::new` instead of extracting it).
pub assume_specification<T: ?Sized, A: std::alloc::Allocator> [<std::boxed::Box<T, A> as std::convert::AsRef<T>>::as_ref] (b: &std::boxed::Box<T, A>) -> (r: &T)
    ensures r == &**b;

pub assume_specification<T: ?Sized, A: std::alloc::Allocator> [<std::rc::Rc<T, A> as std::convert::AsRef<T>>::as_ref] (b: &std::rc::Rc<T, A>) -> (r: &T)
    ensures r == &**b;

// R1: message text is dropped; a message is an opaque Rc<str>.
#[verifier::external_body]
pub fn verif_msg() -> Rc<str> { unimplemented!() }

#[verifier::external_body]
pub fn verif_print() { }

#[verifier::external_body]
pub proof fn axiom_vec_len_bound<T>(v: &Vec<T>)
    ensures v@.len() <= usize::MAX
{ }

// std: "Vec never allocates more than isize::MAX bytes" - for non-zero-sized T the length fits an isize.
#[verifier::external_body]
pub proof fn axiom_vec_len_isize<T>(v: &Vec<T>)
    ensures v@.len() <= isize::MAX
{ }

// R13 helpers: the sequence a `for` loop walks, as an indexable value.
pub fn verif_as_slice<T>(v: &Vec<T>) -> (r: &[T])
    ensures r@ == v@
{ v.as_slice() }
// `s.chars()` yields the chars of s in order (std); the model materialises them.
#[verifier::external_body]
pub fn verif_chars_vec(s: &str) -> (r: Vec<char>)
    ensures r@ == s@
{ s.chars().collect() }
