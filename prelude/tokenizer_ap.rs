// ---- prelude/tokenizer_ap.rs: abortable_parser pieces over ucg's OffsetStrIter, std models (inside verus!) ----
// Needs prelude/stepper_iter.rs (StrIter / OffsetStrIter with the `positioned` invariant) and the vocabulary of
// units/tokenizer.unit.rs (bytes_of, off_of, moved, ...).

// Error<C> is only constructed and moved by the extracted code (R5): opaque.  Message text dropped.
#[verifier::external_body]
#[verifier::accept_recursive_types(C)]
pub struct Error<C> { _c: core::marker::PhantomData<C> }

impl<C> Error<C> {
    #[verifier::external_body]
    pub fn new<D>(msg: D, ctx: Box<C>) -> Self { unimplemented!() }
}

//@ extract dep:abortable_parser/src/lib.rs :: enum Result
//@   rule R0
//@   subst "I: InputIter" => "I"
//@ end

// ---------- std models ----------
// `&str -> Rc<str>` (`"".into()`, `frag.into()`): std `impl From<&str> for Rc<str>`, content preserved.
pub assume_specification<'a, 'b> [<Rc<str> as From<&'a str>>::from] (s: &'b str) -> (r: Rc<str>)
    ensures r@ == s@;
// `String -> Rc<str>`: std `impl From<String> for Rc<str>`, content preserved.
pub assume_specification [<Rc<str> as From<String>>::from] (s: String) -> (r: Rc<str>)
    ensures r@ == s@;

// std::string::FromUtf8Error is only matched with `Err(_)`.
#[verifier::external_type_specification]
#[verifier::external_body]
pub struct ExFromUtf8Error(std::string::FromUtf8Error);
// String::from_utf8 (std: "Returns Err if the slice is not UTF-8", otherwise the String holding exactly these bytes).
pub assume_specification [String::from_utf8] (v: Vec<u8>) -> (r: core::result::Result<String, std::string::FromUtf8Error>)
    ensures
        valid_utf8(v@) ==> (r matches Ok(s) && s@ == decode_utf8(v@)),
        !valid_utf8(v@) ==> r is Err;

// byte classes (std docs of the char::is_ascii_* predicates: 'A'..='Z' | 'a'..='z', '0'..='9', and their union)
pub open spec fn alpha_byte(b: u8) -> bool { (0x41 <= b && b <= 0x5A) || (0x61 <= b && b <= 0x7A) }
pub open spec fn digit_byte(b: u8) -> bool { 0x30 <= b && b <= 0x39 }
pub assume_specification [char::is_ascii_alphabetic] (c: &char) -> (r: bool)
    ensures r == (('a' <= *c && *c <= 'z') || ('A' <= *c && *c <= 'Z'));
pub assume_specification [char::is_ascii_digit] (c: &char) -> (r: bool)
    ensures r == ('0' <= *c && *c <= '9');
pub assume_specification [char::is_ascii_alphanumeric] (c: &char) -> (r: bool)
    ensures r == (('a' <= *c && *c <= 'z') || ('A' <= *c && *c <= 'Z') || ('0' <= *c && *c <= '9'));
// char::is_whitespace is specified by vstd (std_specs/char.rs `is_white_space`: the Unicode White_Space set).
// What `ascii_ws` accepts: the byte, read as a Latin-1 code point, is White_Space.
pub open spec fn ws_dep(b: u8) -> bool { vstd::std_specs::char::is_white_space(b as char) }

// one-byte recogniser: succeeds iff there is a next byte and it is in the class; then it is consumed
pub open spec fn one_byte<'a>(i: OffsetStrIter<'a>, r: Result<OffsetStrIter<'a>, u8>, ok: bool) -> bool {
    let bs = bytes_of(i); let o = off_of(i);
    if o < bs.len() && ok {
        r matches Result::Complete(rest, b) && moved(i, rest, o + 1) && b == bs[o]
    } else {
        r is Fail
    }
}
pub open spec fn cur_byte(i: OffsetStrIter) -> u8 { bytes_of(i)[off_of(i)] }

//@ extract dep:abortable_parser/src/combinators.rs :: fn ascii_ws
//@   subst "ascii_ws<'a, I: InputIter<Item = &'a u8>>(mut i: I) -> Result<I, u8>" => "ascii_ws<'a>(mut i: OffsetStrIter<'a>) -> Result<OffsetStrIter<'a>, u8>"
//@   rule R4
// seeded change A: only space, tab, CR, LF count as whitespace (form feed / vertical tab no longer do)
//@   mutant ws_four_only "(*b as char).is_whitespace()" => "(*b == b' ' || *b == b'\\t' || *b == b'\\r' || *b == b'\\n')" expect ascii_ws
//@   mutant ws_no_vt "(*b as char).is_whitespace()" => "(*b == b' ' || (*b >= 9 && *b <= 13 && *b != 11))" expect ascii_ws
//@   ret r
//@   sig <<<
    requires wf_osi(i__in)
    ensures one_byte(i__in, r, ws_dep(cur_byte(i__in)))
//@   >>>
//@ end
//@ extract dep:abortable_parser/src/combinators.rs :: fn ascii_alpha
//@   subst "ascii_alpha<'a, I: InputIter<Item = &'a u8>>(mut i: I) -> Result<I, u8>" => "ascii_alpha<'a>(mut i: OffsetStrIter<'a>) -> Result<OffsetStrIter<'a>, u8>"
//@   rule R0 R4
//@   ret r
//@   sig <<<
    requires wf_osi(i__in)
    ensures one_byte(i__in, r, alpha_byte(cur_byte(i__in)))
//@   >>>
//@ end
//@ extract dep:abortable_parser/src/combinators.rs :: fn ascii_digit
//@   subst "ascii_digit<'a, I: InputIter<Item = &'a u8>>(mut i: I) -> Result<I, u8>" => "ascii_digit<'a>(mut i: OffsetStrIter<'a>) -> Result<OffsetStrIter<'a>, u8>"
//@   rule R0 R4
//@   ret r
//@   sig <<<
    requires wf_osi(i__in)
    ensures one_byte(i__in, r, digit_byte(cur_byte(i__in)))
//@   >>>
//@ end

//@ extract dep:abortable_parser/src/combinators.rs :: fn eoi
//@   subst "eoi<I: InputIter>(i: I) -> Result<I, ()>" => "eoi<'a>(i: OffsetStrIter<'a>) -> Result<OffsetStrIter<'a>, ()>"
//@   ret r
//@   sig <<<
    requires wf_osi(i)
    ensures
        off_of(i) >= bytes_of(i).len() ==> (r matches Result::Complete(rest, _u) && rest == i),
        off_of(i) < bytes_of(i).len() ==> r is Fail,
//@   >>>
//@ end

// `$crate::combinators::optional` etc. of optional!/not!/trap!/complete!: the functions live in a module of that name
pub mod combinators {
    use super::*;
//@ extract dep:abortable_parser/src/combinators.rs :: fn optional
//@   rule R0
//@   subst "where I: InputIter," => ""
//@   ret r
//@   sig <<<
    ensures
        result matches Result::Complete(i, o) ==> r == Result::<I, Option<O>>::Complete(i, Some(o)),
        result is Fail ==> r == Result::<I, Option<O>>::Complete(iter, None),
        result is Incomplete ==> r is Incomplete,
        result is Abort ==> r is Abort,
//@   >>>
//@ end
// `i.clone()` is all `not` needs of its iterator
//@ extract dep:abortable_parser/src/combinators.rs :: fn not
//@   rule R0
//@   subst "where I: InputIter," => "where I: Clone,"
//@   ret r
//@   sig <<<
    ensures
        result is Complete ==> r is Fail,
        result is Fail ==> r == Result::<I, ()>::Complete(i, ()),
        result is Incomplete ==> r is Incomplete,
        result is Abort ==> r is Abort,
//@   >>>
//@ end
//@ extract dep:abortable_parser/src/combinators.rs :: fn trap
//@   rule R0
//@   subst "where I: InputIter," => ""
//@   ret r
//@   sig <<<
    ensures
        result matches Result::Complete(i, o) ==> r == Result::<I, O>::Complete(i, o),
        result is Incomplete ==> r is Incomplete,
        result is Fail || result is Abort ==> r is Fail,
//@   >>>
//@ end
//@ extract dep:abortable_parser/src/combinators.rs :: fn complete
//@   rule R0
//@   subst "where I: InputIter, S: Into<String>," => "where S: Into<String>,"
//@   ret r
//@   sig <<<
    ensures
        result matches Result::Complete(i, o) ==> r == Result::<I, O>::Complete(i, o),
        result is Incomplete || result is Fail ==> r is Fail,
        result is Abort ==> r is Abort,
//@   >>>
//@ end
}

// ---------- spans: the text between two byte offsets ----------
//@ extract dep:abortable_parser/src/lib.rs :: enum SpanRange
//@   rule R0
//@ end

pub open spec fn span_ok(bs: Seq<u8>, a: int, b: int) -> bool {
    0 <= a <= b <= bs.len() && is_char_boundary(bs, a) && is_char_boundary(bs, b)
}

// TRUSTED (opaque_body): StrIter::span is `self.source.index(r)` for each of the four range forms, i.e.
// `<str as Index<Range<usize>>>::index` for the only form the tokenizer uses (Verus cannot take the generic
// `impl<I: SliceIndex<str>> Index<I> for str`).  std: "Returns a slice of the given string from the byte range
// [begin, end). Panics if begin or end does not point to the starting byte offset of a character (as defined by
// is_char_boundary), if begin > end, or if end > len".  vstd::utf8::is_char_boundary is vstd's model of
// str::is_char_boundary.  The `requires` is the no-panic condition.
//@ extract dep:abortable_parser/src/iter.rs :: impl * Span<&'a str> for StrIter<'a> :: fn span
//@   impl_header impl<'a> StrIter<'a>
//@   opaque_body
//@   ret r
//@   sig <<<
        requires idx matches SpanRange::Range(rg) && span_ok(src_bytes(*self), rg.start as int, rg.end as int)
        ensures idx matches SpanRange::Range(rg) && encode_utf8(r@) == src_bytes(*self).subrange(rg.start as int, rg.end as int)
//@   >>>
//@ end
//@ extract src/iter.rs :: impl * Span<&'a str> for OffsetStrIter<'a> :: fn span
//@   impl_header impl<'a> OffsetStrIter<'a>
//@   ret r
//@   sig <<<
        requires idx matches SpanRange::Range(rg) && span_ok(bytes_of(*self), rg.start as int, rg.end as int)
        ensures idx matches SpanRange::Range(rg) && encode_utf8(r@) == bytes_of(*self).subrange(rg.start as int, rg.end as int)
//@   >>>
//@ end
