//! Replay driver: runs candidate inputs against the REAL ucglib built from /repo's current tree.
//! usage: driver shape|eval|tokens   (cases on stdin, separated by a line containing only `%%%%`)
//! output: one line per case, `<status>\t<payload with \n escaped>`
use std::cell::RefCell;
use std::io::{self, Read};
use std::panic;

use ucglib::ast::{Expression, Statement, Value};
use ucglib::build::opcode::Environment;
use ucglib::build::FileBuilder;
use ucglib::iter::OffsetStrIter;
use ucglib::parse::parse;

fn shape(e: &Expression) -> String {
    match e {
        Expression::Binary(def) => format!("({} {:?} {})", shape(&def.left), def.kind, shape(&def.right)),
        Expression::Grouped(inner, _) => format!("[{}]", shape(inner)),
        Expression::Simple(v) => match v {
            Value::Symbol(s) => format!("{}", s.val),
            Value::Int(i) => format!("{}", i.val),
            Value::Str(s) => format!("{:?}", s.val),
            Value::Boolean(b) => format!("{}", b.val),
            _ => "val".to_string(),
        },
        Expression::Not(def) => format!("not({})", shape(&def.expr)),
        _ => "expr".to_string(),
    }
}

fn esc(s: &str) -> String {
    s.replace('\\', "\\\\").replace('\n', "\\n").replace('\t', "\\t")
}

thread_local! {
    // The stdlib is translated once; the environment is rebuilt after a panic (a RefCell may be left borrowed).
    static ENV: RefCell<Option<std::rc::Rc<RefCell<Environment<io::Sink, io::Sink>>>>> = RefCell::new(None);
}

fn shared_env() -> std::rc::Rc<RefCell<Environment<io::Sink, io::Sink>>> {
    ENV.with(|e| {
        let mut e = e.borrow_mut();
        if e.is_none() {
            *e = Some(std::rc::Rc::new(RefCell::new(Environment::new(io::sink(), io::sink()))));
        }
        e.as_ref().unwrap().clone()
    })
}

fn reset_env() {
    ENV.with(|e| *e.borrow_mut() = None);
}

fn run_case(mode: &str, src: &str) -> String {
    match mode {
        "shape" => match parse(OffsetStrIter::new(src), None) {
            Ok(stmts) => {
                let mut out = Vec::new();
                for s in stmts.iter() {
                    match s {
                        Statement::Expression(e) => out.push(shape(e)),
                        Statement::Let(def) => out.push(format!("let {}", shape(&def.value))),
                        _ => out.push("stmt".to_string()),
                    }
                }
                format!("OK\t{}", esc(&out.join(" ; ")))
            }
            Err(e) => format!("ERR\t{}", esc(&format!("{}", e))),
        },
        "eval" => {
            let env = shared_env();
            let import_paths = vec![];
            let mut builder = FileBuilder::new(".", &import_paths, &env);
            match builder.eval_string(src) {
                Ok(v) => format!("OK\t{}", esc(&format!("{}", v))),
                Err(e) => format!("ERR\t{}", esc(&format!("{}", e))),
            }
        }
        "buildfile" => {
            // the full file pipeline: type checker first, then the VM (FileBuilder::build).
            // One shared environment (stdlib translated once); a unique file name per case because the
            // environment caches ops / values / shapes by path.
            static COUNTER: std::sync::atomic::AtomicUsize = std::sync::atomic::AtomicUsize::new(0);
            let n = COUNTER.fetch_add(1, std::sync::atomic::Ordering::SeqCst);
            let dir = std::env::temp_dir().join(format!("verif_driver_{}", std::process::id()));
            let _ = std::fs::create_dir_all(&dir);
            let path = dir.join(format!("case_{}.ucg", n));
            std::fs::write(&path, src).unwrap();
            let env = shared_env();
            let import_paths = vec![];
            let mut builder = FileBuilder::new(&dir, &import_paths, &env);
            builder.set_strict(true);
            let r = match builder.build(&path) {
                Ok(_) => "OK\t".to_string(),
                Err(e) => format!("ERR\t{}", esc(&format!("{}", e))),
            };
            let _ = std::fs::remove_file(&path);
            r
        }
        "ast" => match parse(OffsetStrIter::new(src), None) {
            Ok(stmts) => format!("OK\t{}", esc(&format!("{:?}", stmts))),
            Err(e) => format!("ERR\t{}", esc(&format!("{}", e))),
        },
        "tokens" => match ucglib::tokenizer::tokenize(OffsetStrIter::new(src), None) {
            Ok(toks) => {
                let parts: Vec<String> = toks
                    .iter()
                    .map(|t| format!("{:?}\x1e{}\x1e{}\x1e{}\x1e{}", t.typ, esc(&t.fragment), t.pos.line, t.pos.column, t.pos.offset))
                    .collect();
                format!("OK\t{}", parts.join("\x1f"))
            }
            Err(e) => format!("ERR\t{}", esc(&format!("{}", e))),
        },
        _ => "BADMODE\t".to_string(),
    }
}

fn main() {
    let mode = std::env::args().nth(1).unwrap_or_default();
    let mut input = String::new();
    io::stdin().read_to_string(&mut input).unwrap();
    panic::set_hook(Box::new(|_| {}));
    for case in input.split("\n%%%%\n") {
        let m = mode.clone();
        let c = case.to_string();
        let r = panic::catch_unwind(move || run_case(&m, &c));
        match r {
            Ok(line) => println!("{}", line),
            Err(p) => {
                reset_env();
                let msg = if let Some(s) = p.downcast_ref::<String>() { s.clone() } else if let Some(s) = p.downcast_ref::<&str>() { s.to_string() } else { "panic".to_string() };
                println!("PANIC\t{}", esc(&msg));
            }
        }
    }
}
