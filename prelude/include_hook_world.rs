// ---- prelude/include_hook_world.rs: the outside world of the `include` hook (rule R12) and the neighbours of
// the hook (R5/R8). Everything in this file is a TRUSTED MODEL of std / of code outside the unit. ----
// needs: `use std::rc::Rc;`, `use vstd::std_specs::convert::*;`, `use vstd::utf8::*;` before verus!, prelude/core.rs, prelude/vm_types.rs

// ---------- the world (R12): the files that can be read ----------
// fs: path text -> content, for every file that can be opened and read to its end. A path that is not in `fs`
// cannot be read (missing file, directory, no permission, I/O error ...): opening it reports an error.
// The hook only reads: the world is passed by shared reference.
pub struct World {
    pub fs: Ghost<Map<Seq<char>, Seq<u8>>>,
}

// UTF-8 is vstd's own specification (vstd::utf8): `valid_utf8(b)`, `decode_utf8(b)`, `encode_utf8(t)`.
#[verifier::external_body]
pub struct IoError { _p: u8 }
// `impl From<std::io::Error> for Error` (opcode/error.rs): used by `?` on I/O results.
impl From<IoError> for Error {
    #[verifier::external_body]
    fn from(e: IoError) -> (r: Error) { unimplemented!() }
}

// an open file is a handle on a path of the world
pub struct File { pub path: Ghost<Seq<char>> }

impl File {
    // std::fs::File::open (read-only)
    #[verifier::external_body]
    pub fn open(path: &str, world: &World) -> (r: Result<File, IoError>)
        ensures
            world.fs@.contains_key(path@) ==> (r matches Ok(f) && f.path@ == path@),
            !world.fs@.contains_key(path@) ==> r is Err,
    { unimplemented!() }

    // std::io::Read::read_to_string: appends the whole content to `buf` if it is valid UTF-8, else an error
    // (ErrorKind::InvalidData).
    #[verifier::external_body]
    pub fn read_to_string(&mut self, buf: &mut String, world: &World) -> (r: Result<usize, IoError>)
        requires world.fs@.contains_key(old(self).path@)
        ensures
            final(self).path@ == old(self).path@,
            valid_utf8(world.fs@[old(self).path@]) ==> r is Ok && final(buf)@ == old(buf)@ + decode_utf8(world.fs@[old(self).path@]),
            !valid_utf8(world.fs@[old(self).path@]) ==> r is Err,
    { unimplemented!() }

    // std::io::Read::read_to_end: appends the whole content to `buf`.
    #[verifier::external_body]
    pub fn read_to_end(&mut self, buf: &mut Vec<u8>, world: &World) -> (r: Result<usize, IoError>)
        requires world.fs@.contains_key(old(self).path@)
        ensures
            final(self).path@ == old(self).path@,
            r is Ok, final(buf)@ == old(buf)@ + world.fs@[old(self).path@],
    { unimplemented!() }
}

// the text of a readable UTF-8 file, None for everything else
pub open spec fn file_text(world: World, path: Seq<char>) -> Option<Seq<char>> {
    if world.fs@.contains_key(path) && valid_utf8(world.fs@[path]) { Some(decode_utf8(world.fs@[path])) } else { None }
}
// the bytes of a readable file
pub open spec fn file_bytes(world: World, path: Seq<char>) -> Option<Seq<u8>> {
    if world.fs@.contains_key(path) { Some(world.fs@[path]) } else { None }
}

// `String -> Rc<str>` (`contents.into()`): std `impl From<String> for Rc<str>`, content preserved.
pub assume_specification [<Rc<str> as From<String>>::from] (s: String) -> (r: Rc<str>)
    ensures r@ == s@;

// ---------- containers / neighbours the hook never looks into (fields of Environment): opaque ----------
#[verifier::external_body]
#[verifier::accept_recursive_types(K)]
#[verifier::accept_recursive_types(V)]
pub struct BTreeMap<K, V> { _k: core::marker::PhantomData<(K, V)> }
#[verifier::external_body]
#[verifier::accept_recursive_types(T)]
pub struct BTreeSet<T> { _t: core::marker::PhantomData<T> }
#[verifier::external_body]
#[verifier::accept_recursive_types(T)]
pub struct RefCell<T> { _t: core::marker::PhantomData<T> }
//@ opaque PathBuf Shape ConverterRegistry AssertCollector Stdout Stderr
pub mod cache {
    use super::*;
    #[verifier::external_body]
    pub struct Ops { _p: u8 }
}

// `Box<dyn Error>` of the importers: only formatted into the message (R1) - opaque.
#[verifier::external_body]
pub struct VBoxDynError { _p: u8 }

// HashMap<String, Box<dyn Importer>>: a finite map from include-type names to importers.
#[verifier::external_body]
#[verifier::accept_recursive_types(K)]
#[verifier::accept_recursive_types(V)]
pub struct HashMap<K, V> { _k: core::marker::PhantomData<(K, V)> }
impl View for HashMap<String, Box<VDynImporter>> {
    type V = Map<Seq<char>, VDynImporter>;
    uninterp spec fn view(&self) -> Map<Seq<char>, VDynImporter>;
}
impl HashMap<String, Box<VDynImporter>> {
    #[verifier::external_body]
    pub fn new() -> (r: Self)
        ensures r@ == Map::<Seq<char>, VDynImporter>::empty()
    { unimplemented!() }
    #[verifier::external_body]
    pub fn insert(&mut self, k: String, v: Box<VDynImporter>) -> (r: Option<Box<VDynImporter>>)
        ensures final(self)@ == old(self)@.insert(k@, *v)
    { unimplemented!() }
    #[verifier::external_body]
    pub fn get(&self, k: &str) -> (r: Option<&Box<VDynImporter>>)
        ensures match r {
            Some(b) => self@.contains_key(k@) && **b == self@[k@],
            None => !self@.contains_key(k@),
        }
    { unimplemented!() }
}
