//@ unit err_pos_translate
//@ serves C17
//@ must_verify OpsMap::push bin_add_arm bin_sub_arm bin_div_arm bin_mul_arm bin_mod_arm bin_equal_arm bin_gt_arm bin_lt_arm bin_gteq_arm bin_lteq_arm not_arm cast_arm fail_arm translate_value call_arm translate_copy
// C17 (narrow kernel, third part, optional) - translate.rs: the op that can fail at run time is PAIRED with the position
// of the AST node it came from.  A few arms of `AST::translate_expr` + `translate_copy` + `translate_value`, verbatim
// (extract blocks copied from unit translate_ops, which proves WHICH ops are emitted; here: with which positions).
// The VM (units err_pos / err_pos_run) hands each handler the position stored with its op, so:
//   binary operator `l OP r`  -> the operator op carries def.pos (comparison / `==` type mismatches are reported there);
//   `not e`, casts            -> def.pos / cast_def.pos (the VM reports at the operand, which carries ITS op's position);
//   `fail msg`                -> Add and Bang carry def.pos (op_bang reports at the string Add pushed at def.pos);
//   `f(args)`                 -> the count carries call_def.pos, FCall the position of the callee expression
//                                (arity / not-a-function errors; the callee's DeRef, translated just before, carries the
//                                same position: the VIA call site);
//   `base{..}`                -> PushSelf, InitTuple, Cp, PopSelf carry the copy's position, Sym / Field the field name's;
//   a name / literal          -> its one op carries the name's / literal's own position (unknown-name errors).
// NOT covered: the selector DOT arm, select, format, module, func, import / include, range, the functional operators,
// statements (`let`, `assert`, `out`); that the PARSER gives a node a position inside its statement.
//@ include prelude/head.rs
use std::rc::Rc;

verus! {
//@ include prelude/core.rs
//@ include prelude/err_pos_translate_base.rs

// ops and positions stay paired; everything emitted before is untouched; the LAST op emitted is `op`, paired with `p`
pub open spec fn last_op_at(a: OpsMap, b: OpsMap, op: Op, p: Position) -> bool {
    &&& appended(a, b)
    &&& (a.pos@.len() == a.ops@.len() ==> b.pos@.len() == b.ops@.len())
    &&& b.ops@.last() == op && b.pos@.len() > 0 && b.pos@.last() == p
}
//@ extract src/build/opcode/translate.rs :: impl AST :: fn translate_expr :: arm "BinaryExprType::Add =>"
//@   wrap <<<
fn bin_add_arm(def: BinaryOpDef, ops: &mut OpsMap, root: &VPath)
$BODY
//@   >>>
//@   subst all "Self::translate_expr" => "translate_expr"
//@   sig <<<
        ensures last_op_at(*old(ops), *final(ops), Op::Add, def.pos)
//@   >>>
//@ end
//@ extract src/build/opcode/translate.rs :: impl AST :: fn translate_expr :: arm "BinaryExprType::Sub =>"
//@   wrap <<<
fn bin_sub_arm(def: BinaryOpDef, ops: &mut OpsMap, root: &VPath)
$BODY
//@   >>>
//@   subst all "Self::translate_expr" => "translate_expr"
//@   sig <<<
        ensures last_op_at(*old(ops), *final(ops), Op::Sub, def.pos)
//@   >>>
//@ end
//@ extract src/build/opcode/translate.rs :: impl AST :: fn translate_expr :: arm "BinaryExprType::Div =>"
//@   wrap <<<
fn bin_div_arm(def: BinaryOpDef, ops: &mut OpsMap, root: &VPath)
$BODY
//@   >>>
//@   subst all "Self::translate_expr" => "translate_expr"
//@   sig <<<
        ensures last_op_at(*old(ops), *final(ops), Op::Div, def.pos)
//@   >>>
//@   mutant div_op_at_last_operand_op_position "ops.push(Op::Div, def.pos);" => "ops.push(Op::Div, ops.pos[ops.pos.len() - 1].clone());" expect bin_div_arm
//@ end
//@ extract src/build/opcode/translate.rs :: impl AST :: fn translate_expr :: arm "BinaryExprType::Mul =>"
//@   wrap <<<
fn bin_mul_arm(def: BinaryOpDef, ops: &mut OpsMap, root: &VPath)
$BODY
//@   >>>
//@   subst all "Self::translate_expr" => "translate_expr"
//@   sig <<<
        ensures last_op_at(*old(ops), *final(ops), Op::Mul, def.pos)
//@   >>>
//@ end
//@ extract src/build/opcode/translate.rs :: impl AST :: fn translate_expr :: arm "BinaryExprType::Mod =>"
//@   wrap <<<
fn bin_mod_arm(def: BinaryOpDef, ops: &mut OpsMap, root: &VPath)
$BODY
//@   >>>
//@   subst all "Self::translate_expr" => "translate_expr"
//@   sig <<<
        ensures last_op_at(*old(ops), *final(ops), Op::Mod, def.pos)
//@   >>>
//@ end
//@ extract src/build/opcode/translate.rs :: impl AST :: fn translate_expr :: arm "BinaryExprType::Equal =>"
//@   wrap <<<
fn bin_equal_arm(def: BinaryOpDef, ops: &mut OpsMap, root: &VPath)
$BODY
//@   >>>
//@   subst all "Self::translate_expr" => "translate_expr"
//@   sig <<<
        ensures last_op_at(*old(ops), *final(ops), Op::Equal, def.pos)
//@   >>>
//@ end
//@ extract src/build/opcode/translate.rs :: impl AST :: fn translate_expr :: arm "BinaryExprType::GT =>"
//@   wrap <<<
fn bin_gt_arm(def: BinaryOpDef, ops: &mut OpsMap, root: &VPath)
$BODY
//@   >>>
//@   subst all "Self::translate_expr" => "translate_expr"
//@   sig <<<
        ensures last_op_at(*old(ops), *final(ops), Op::Gt, def.pos)
//@   >>>
//@   mutant gt_op_at_default_position "ops.push(Op::Gt, def.pos);" => "ops.push(Op::Gt, Position::new(0, 0, 0));" expect bin_gt_arm
//@ end
//@ extract src/build/opcode/translate.rs :: impl AST :: fn translate_expr :: arm "BinaryExprType::LT =>"
//@   wrap <<<
fn bin_lt_arm(def: BinaryOpDef, ops: &mut OpsMap, root: &VPath)
$BODY
//@   >>>
//@   subst all "Self::translate_expr" => "translate_expr"
//@   sig <<<
        ensures last_op_at(*old(ops), *final(ops), Op::Lt, def.pos)
//@   >>>
//@ end
//@ extract src/build/opcode/translate.rs :: impl AST :: fn translate_expr :: arm "BinaryExprType::GTEqual =>"
//@   wrap <<<
fn bin_gteq_arm(def: BinaryOpDef, ops: &mut OpsMap, root: &VPath)
$BODY
//@   >>>
//@   subst all "Self::translate_expr" => "translate_expr"
//@   sig <<<
        ensures last_op_at(*old(ops), *final(ops), Op::GtEq, def.pos)
//@   >>>
//@ end
//@ extract src/build/opcode/translate.rs :: impl AST :: fn translate_expr :: arm "BinaryExprType::LTEqual =>"
//@   wrap <<<
fn bin_lteq_arm(def: BinaryOpDef, ops: &mut OpsMap, root: &VPath)
$BODY
//@   >>>
//@   subst all "Self::translate_expr" => "translate_expr"
//@   sig <<<
        ensures last_op_at(*old(ops), *final(ops), Op::LtEq, def.pos)
//@   >>>
//@ end

impl Position {
    // the default position (only the seeded mutants call it)
    #[verifier::external_body]
    pub fn new(line: usize, column: usize, offset: usize) -> Self { unimplemented!() }
}
//@ extract src/build/opcode/translate.rs :: impl AST :: fn translate_expr :: arm "Expression::Not(def) =>"
//@   wrap <<<
fn not_arm(def: NotDef, ops: &mut OpsMap, root: &VPath)
$BODY
//@   >>>
//@   subst all "Self::translate_expr" => "translate_expr"
//@   sig <<<
        ensures last_op_at(*old(ops), *final(ops), Op::Not, def.pos)
//@   >>>
//@ end
//@ extract src/build/opcode/translate.rs :: impl AST :: fn translate_expr :: arm "Expression::Cast(cast_def) =>"
//@   wrap <<<
fn cast_arm(cast_def: CastDef, ops: &mut OpsMap, root: &VPath)
$BODY
//@   >>>
//@   subst all "Self::translate_expr" => "translate_expr"
//@   sig <<<
        ensures last_op_at(*old(ops), *final(ops), Op::Cast(cast_def.cast_type), cast_def.pos)
//@   >>>
//@   mutant cast_op_at_default_position "ops.push(Op::Cast(cast_def.cast_type), cast_def.pos);" => "ops.push(Op::Cast(cast_def.cast_type), Position::new(0, 0, 0));" expect cast_arm
//@ end
// `fail msg`:  code(msg) ; Val("UserDefined: ") at the message's position ; Add at def.pos ; Bang at def.pos
//@ extract src/build/opcode/translate.rs :: impl AST :: fn translate_expr :: arm "Expression::Fail(def) =>"
//@   wrap <<<
fn fail_arm(def: FailDef, ops: &mut OpsMap, root: &VPath)
$BODY
//@   >>>
//@   subst all "Self::translate_expr" => "translate_expr"
//@   subst all ".into()" => ".vinto()"
//@   sig <<<
        requires old(ops).pos@.len() == old(ops).ops@.len()
        ensures last_op_at(*old(ops), *final(ops), Op::Bang, def.pos),
            ({ let n = final(ops).ops@.len() as int;
               n >= 3 && final(ops).ops@[n - 2] == Op::Add && final(ops).pos@[n - 2] == def.pos
               && final(ops).ops@[n - 3] is Val && final(ops).pos@[n - 3] == expr_pos(*def.message) }),
//@   >>>
//@   mutant fail_add_at_message_position "ops.push(Op::Val(Primitive::Str(\"UserDefined: \".into())), msg_pos); ops.push(Op::Add, def.pos.clone());" => "ops.push(Op::Val(Primitive::Str(\"UserDefined: \".into())), msg_pos.clone()); ops.push(Op::Add, msg_pos);" expect fail_arm
//@ end
//@ extract src/build/opcode/translate.rs :: impl AST :: fn translate_value
//@   no_impl
//@   subst "root: &Path" => "root: &VPath"
//@   subst all "Self::translate_expr" => "translate_expr"
//@   sig <<<
        ensures
            appended(*old(ops), *final(ops)),
            (old(ops).pos@.len() == old(ops).ops@.len() ==> final(ops).pos@.len() == final(ops).ops@.len()),
            // a name: one DeRef, at the position where the name is USED
            value matches Value::Symbol(s) ==> final(ops).ops@.len() == old(ops).ops@.len() + 1
                && final(ops).ops@.last() == Op::DeRef(s.val) && final(ops).pos@.last() == s.pos,
            // a scalar literal: one Val, at the literal
            value matches Value::Int(i) ==> final(ops).ops@.len() == old(ops).ops@.len() + 1 && final(ops).pos@.last() == i.pos,
            value matches Value::Str(s) ==> final(ops).ops@.len() == old(ops).ops@.len() + 1 && final(ops).pos@.last() == s.pos,
//@   >>>
//@   loop 1 iter it
//@   loop 1 <<<
                    invariant appended(*old(ops), *ops), old(ops).pos@.len() == old(ops).ops@.len() ==> ops.pos@.len() == ops.ops@.len(),
//@   >>>
//@   loop 2 iter it
//@   loop 2 <<<
                    invariant appended(*old(ops), *ops), old(ops).pos@.len() == old(ops).ops@.len() ==> ops.pos@.len() == ops.ops@.len(),
//@   >>>
//@   mutant name_use_at_default_position "ops.push(Op::DeRef(s.val), s.pos);" => "ops.push(Op::DeRef(s.val), Position::new(0, 0, 0));" expect translate_value
//@ end
// `f(a, b)`: arguments ; Val(count) at call_def.pos ; callee ; FCall at the callee's position
//@ extract src/build/opcode/translate.rs :: impl AST :: fn translate_expr :: arm "} } Expression::Call(call_def) =>"
//@   wrap <<<
fn call_arm(call_def: CallDef, ops: &mut OpsMap, root: &VPath)
{
    proof { axiom_vec_len_isize(&call_def.arglist); }
$BODY
}
//@   >>>
//@   subst all "Self::translate_expr" => "translate_expr"
//@   subst all "Self::translate_value" => "translate_value"
//@   sig <<<
        ensures last_op_at(*old(ops), *final(ops), Op::FCall, value_pos(call_def.funcref)),
            // a callee that is a plain name: its DeRef sits right before FCall, at the name (the VIA call site)
            call_def.funcref matches Value::Symbol(s) ==> ({ let n = final(ops).ops@.len() as int;
                old(ops).pos@.len() == old(ops).ops@.len() ==> n >= 2 && final(ops).ops@[n - 2] == Op::DeRef(s.val) && final(ops).pos@[n - 2] == s.pos }),
//@   >>>
//@   loop 1 iter it
//@   loop 1 <<<
                    invariant extends(*old(ops), *ops),
//@   >>>
//@   mutant fcall_at_default_position "ops.push(Op::FCall, func_pos);" => "ops.push(Op::FCall, Position::new(0, 0, 0));" expect call_arm
//@ end
// `base{ f = e, .. }`: PushSelf, InitTuple, Cp, PopSelf at the copy's position
//@ extract src/build/opcode/translate.rs :: impl AST :: fn translate_copy
//@   no_impl
//@   subst "root: &Path" => "root: &VPath"
//@   subst all "Self::translate_expr" => "translate_expr"
//@   sig <<<
        requires old(ops).pos@.len() == old(ops).ops@.len()
        ensures last_op_at(*old(ops), *final(ops), Op::PopSelf, pos),
            ({ let n = final(ops).ops@.len() as int; n >= 2 && final(ops).ops@[n - 2] == Op::Cp && final(ops).pos@[n - 2] == pos }),
//@   >>>
//@   loop 1 iter it
//@   loop 1 <<<
            invariant appended(*old(ops), *ops), ops.pos@.len() == ops.ops@.len(),
//@   >>>
//@   mutant copy_op_at_last_field_position "ops.push(Op::Cp, pos.clone());" => "ops.push(Op::Cp, ops.pos[ops.pos.len() - 1].clone());" expect translate_copy
//@ end

} // verus!

fn main() {}
