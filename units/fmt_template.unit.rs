//@ unit fmt_template
//@ serves C01 C04
//@ must_verify SimpleTemplate::parse lemma_tpl_examples
//@ include prelude/head.rs
use std::rc::Rc;

verus! {
//@ include prelude/core.rs
//@ opaque Expression VBoxError

//@ extract src/ast/mod.rs :: enum TemplatePart
//@   rule R0
//@ end

// ---------- reference semantics of a `"..@.." % (..)` template (language reference, "Format Strings") ----------
// A template is read left to right. `@` stands for the next argument; a backslash makes the character
// that follows it stand for itself (so `\@` is a literal `@` and `\\` is a literal backslash) and is
// itself dropped; every other character stands for itself. The parts are the literal pieces between
// placeholders; placeholders are numbered 0, 1, 2 .. in order of appearance. A template without any
// placeholder is one literal piece (also when it is empty); a trailing empty literal piece is omitted.
pub enum PV { S(Seq<char>), P(int), E }
pub open spec fn pv(p: TemplatePart) -> PV {
    match p {
        TemplatePart::Str(v) => PV::S(v@),
        TemplatePart::PlaceHolder(n) => PV::P(n as int),
        TemplatePart::Expression(_) => PV::E,
    }
}
pub struct TS { pub parts: Seq<PV>, pub buf: Seq<char>, pub esc: bool, pub n: int }
pub open spec fn ts_init() -> TS { TS { parts: Seq::empty(), buf: Seq::empty(), esc: false, n: 0 } }
pub open spec fn ts_step(t: TS, c: char) -> TS {
    if t.esc {
        TS { parts: t.parts, buf: t.buf.push(c), esc: false, n: t.n }
    } else if c == '@' {
        TS { parts: t.parts.push(PV::S(t.buf)).push(PV::P(t.n)), buf: Seq::empty(), esc: false, n: t.n + 1 }
    } else if c == '\\' {
        TS { parts: t.parts, buf: t.buf, esc: true, n: t.n }
    } else {
        TS { parts: t.parts, buf: t.buf.push(c), esc: false, n: t.n }
    }
}
// state after the first i characters
pub open spec fn ts_at(s: Seq<char>, i: int) -> TS
    decreases i
{
    if i <= 0 { ts_init() } else { ts_step(ts_at(s, i - 1), s[i - 1]) }
}
pub open spec fn ts_finish(t: TS) -> Seq<PV> {
    if t.buf.len() > 0 || t.parts.len() == 0 { t.parts.push(PV::S(t.buf)) } else { t.parts }
}
pub open spec fn tpl_parts(s: Seq<char>) -> Seq<PV> { ts_finish(ts_at(s, s.len() as int)) }
pub open spec fn parts_match(r: Seq<TemplatePart>, a: Seq<PV>) -> bool {
    r.len() == a.len() && forall|k: int| 0 <= k < r.len() ==> pv(#[trigger] r[k]) == a[k]
}
// number of parts is bounded by the number of characters read (overflow freedom of `count`)
pub open spec fn ts_bounded(t: TS, i: int) -> bool { 0 <= t.n && t.n <= i && t.parts.len() == 2 * t.n }
proof fn lemma_ts_bounded(s: Seq<char>, i: int)
    requires 0 <= i <= s.len()
    ensures ts_bounded(ts_at(s, i), i)
    decreases i
{
    if i > 0 { lemma_ts_bounded(s, i - 1); }
}

// The reference semantics pinned on the documented examples (guards the oracle itself).
proof fn lemma_tpl_examples()
    ensures
        tpl_parts(seq!['a', '@']) =~= seq![PV::S(seq!['a']), PV::P(0)],
        tpl_parts(seq!['\\', '@']) =~= seq![PV::S(seq!['@'])],
        tpl_parts(seq!['\\', '\\', '@']) =~= seq![PV::S(seq!['\\']), PV::P(0)],
        tpl_parts(Seq::<char>::empty()) =~= seq![PV::S(Seq::<char>::empty())],
        tpl_parts(seq!['@', '@']) =~= seq![PV::S(Seq::<char>::empty()), PV::P(0), PV::S(Seq::<char>::empty()), PV::P(1)],
{
    reveal_with_fuel(ts_at, 4);
    assert(seq!['a', '@'].len() == 2);
    assert(seq!['\\', '@'].len() == 2);
    assert(seq!['\\', '\\', '@'].len() == 3);
    assert(seq!['@', '@'].len() == 2);
    assert(ts_at(seq!['a', '@'], 2).parts =~= seq![PV::S(seq!['a']), PV::P(0)]);
    assert(ts_at(seq!['\\', '@'], 2).buf =~= seq!['@']);
    assert(ts_at(seq!['\\', '\\', '@'], 2).buf =~= seq!['\\']);
    assert(ts_at(seq!['\\', '\\', '@'], 3).parts =~= seq![PV::S(seq!['\\']), PV::P(0)]);
    assert(ts_at(seq!['@', '@'], 1).parts =~= seq![PV::S(Seq::<char>::empty()), PV::P(0)]);
    assert(ts_at(seq!['@', '@'], 2).parts =~= seq![PV::S(Seq::<char>::empty()), PV::P(0), PV::S(Seq::<char>::empty()), PV::P(1)]);
}

pub struct SimpleTemplate();
impl SimpleTemplate {
    pub fn new() -> Self { Self() }
}

// a str's length in chars is at most its length in bytes, which is at most isize::MAX (Rust guarantee)
#[verifier::external_body]
pub proof fn axiom_str_len_bound(s: &str)
    ensures s@.len() <= usize::MAX / 4
{ }

// the `@`-placeholder template parser against the reference semantics: never fails, and the parts are
// exactly tpl_parts(input) - every literal piece character for character, every placeholder with its number
//@ extract src/build/format.rs :: impl TemplateParser for SimpleTemplate :: fn parse
//@   impl_header impl SimpleTemplate
//@   subst "-> TemplateResult" => "-> Result<Vec<TemplatePart>, VBoxError>"
//@   subst "let mut result = Vec::new();" => "let mut result: Vec<TemplatePart> = Vec::new();"
//@   subst "let mut count = 0;" => "let mut count: usize = 0;"
//@   ret r
//@   sig <<<
        ensures r matches Ok(parts) && parts_match(parts@, tpl_parts(input@))
//@   >>>
//@   loop 1 indexed <<<
            invariant
                it__1@ == input@, i__1 <= it__1@.len(),
                it__1@.len() <= usize::MAX / 4,
                ts_bounded(ts_at(it__1@, i__1 as int), i__1 as int),
                forall|j: int| 0 <= j <= it__1@.len() ==> ts_bounded(#[trigger] ts_at(it__1@, j), j),
                parts_match(result@, ts_at(it__1@, i__1 as int).parts),
                buf@ == ts_at(it__1@, i__1 as int).buf,
                should_escape == ts_at(it__1@, i__1 as int).esc,
                count as int == ts_at(it__1@, i__1 as int).n,
            decreases it__1@.len() - i__1
//@   >>>
//@   before "for c in" <<<
        proof {
            axiom_str_len_bound(input);
            assert forall|j: int| 0 <= j <= input@.len() implies ts_bounded(#[trigger] ts_at(input@, j), j) by { lemma_ts_bounded(input@, j); }
        }
//@   >>>
//@   mutant tpl_escape_rearm "c == '\\\\' && !should_escape" => "c == '\\\\'" expect parse
//@   mutant tpl_escape_sticky "buf.push(c); } should_escape = false;" => "buf.push(c); }" expect parse
//@   mutant tpl_ph_number "result.push(TemplatePart::PlaceHolder(count));" => "result.push(TemplatePart::PlaceHolder(count + 1));" expect parse
//@   mutant tpl_at_escaped_drop "c == '@' && !should_escape" => "c == '@'" expect parse
//@   mutant tpl_trailing_piece "if !buf.is_empty() || result.is_empty() {" => "if !buf.is_empty() {" expect parse
//@   mutant tpl_drop_char "buf.push(c);" => "" expect parse
//@ end

} // verus!
fn main() {}
