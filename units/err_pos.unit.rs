//@ unit err_pos
//@ serves C17
//@ must_verify Error::new Error::with_pos Error::push_call_stack
//@ include prelude/head.rs
use std::rc::Rc;

verus! {
//@ include prelude/err_pos_core.rs
//@ include prelude/err_pos_types.rs
//@ include prelude/vmap.rs

impl VShapeMap { #[verifier::external_body] pub fn new() -> Self { unimplemented!() } }
impl VLinks { #[verifier::external_body] pub fn new() -> Self { unimplemented!() } }

// The environment cell is only handed on (R5): `RefCell<Environment<O, E>>` stays in the signatures, both types are
// opaque stand-ins; `std::io::Write` is declared to Verus as an external trait.
#[verifier::external_body]
#[verifier::accept_recursive_types(T)]
pub struct RefCell<T> { _p: core::marker::PhantomData<T> }
#[verifier::external_body]
#[verifier::accept_recursive_types(O)]
#[verifier::accept_recursive_types(E)]
pub struct Environment<O, E> { _p: core::marker::PhantomData<(O, E)> }
#[verifier::external_trait_specification]
pub trait ExIoWrite {
    type ExternalTraitSpecificationFor: std::io::Write;
}

//@ extract src/build/opcode/scope.rs :: struct Stack
//@   rule R0 RV
//@   subst "curr: BTreeMap<Rc<str>, (Rc<Value>, Position)>" => "curr: VMap"
//@ end
//@ extract src/build/opcode/runtime.rs :: struct Builtins
//@   rule R0 RV
//@   subst "import_path: Vec<PathBuf>" => "import_path: Vec<VPathBuf>"
//@ end

impl Position {
    // the default position `Position::new(0, 0, 0)`: an arbitrary position as far as the contracts know - a handler
    // that reports it instead of a position of the failing op / operand cannot meet its contract
    #[verifier::external_body]
    pub fn new(line: usize, column: usize, offset: usize) -> Self { unimplemented!() }
}

// =====================================================================================================================
// 1. error.rs: the error value - exact contracts on (pos, call_stack); the message is carried along untouched
// =====================================================================================================================
//@ extract src/build/opcode/error.rs :: struct Error
//@   rule R0 RV
//@ end
//@ extract src/build/opcode/error.rs :: impl Error :: fn new
//@   ret r
//@   sig <<<
        ensures r.message == msg, r.pos == Some(pos), r.call_stack@.len() == 0
//@   >>>
//@   mutant new_drops_pos "pos: Some(pos)," => "pos: None," expect new
//@ end
//@ extract src/build/opcode/error.rs :: impl Error :: fn with_pos
//@   rule R4
//@   ret r
//@   sig <<<
        ensures r.pos == Some(pos), r.message == self.message, r.call_stack == self.call_stack
//@   >>>
//@   mutant with_pos_drops_pos "self.pos = Some(pos);" => "self.pos = None;" expect with_pos
//@ end
//@ extract src/build/opcode/error.rs :: impl Error :: fn push_call_stack
//@   sig <<<
        ensures final(self).call_stack@ == old(self).call_stack@.push(pos),
            final(self).pos == old(self).pos, final(self).message == old(self).message
//@   >>>
//@   mutant push_call_stack_ignored "self.call_stack.push(pos);" => "" expect push_call_stack
//@ end

} // verus!

fn main() {}
