"""C10 bounded stand-ins: bindings are immutable and lexically scoped.

Oracle (property statement + docsite/site/content/reference/{_index,statements,expressions}.md): a tiny reference interpreter
for the generated programs -- top-level lets are evaluated in order into an immutable map; a function value closes over a COPY
of the map at its definition and is called with that copy plus its parameters; a format expression binds `item` only inside its
template; a module body starts from `mod` alone; nothing bound inside any of these is visible afterwards.  Programs are cut at
every statement boundary: the real result of every prefix must contain exactly the bindings the reference interpreter has at
that point, with exactly those values (hence every binding of a prefix has the same value in the whole program).  References to
names that the statement makes invisible (later bindings from inside a function, parameters / `item` / module locals / `mod` from
the caller, the file's bindings from inside a module), rebinding and reserved words as binding names must be build errors.
Run through FileBuilder::eval_string (`eval`) and through the type checker + VM on a file (`buildfile`, what `ucg build` does).
closure_* (second half of the module): "its result depends only on those" per function VALUE -- a second reference interpreter (mini-UCG:
closures as values, factories, map / reduce callbacks, tuples, lists, modules, copy / self) against templates (closure_cases_*) and seeded
typed programs cut at every statement boundary (closure_prefixes, closure_build); see the comment above `cev`.
Bounded: exactly the enumerated programs; never counted as proved."""
import json
import os
import random
import re

import realcode as R

HERE = os.path.dirname(os.path.abspath(__file__))
HOW = {'eval': 'replay driver `eval` (FileBuilder::eval_string; payload = all top-level bindings)',
       'buildfile': 'replay driver `buildfile` (FileBuilder::build on a temp file: type checker + VM, strict) == `ucg build`'}

# Genuine defects of the real code inside these families (reported; excluded so that the stand-ins pass on HEAD).
# `ucg build` only (the type checker; eval_string is right): the type checker binds a function's parameters in the FILE scope.  Valid
# programs are refused; no invalid program is admitted (the VM still refuses a leaked name).  Excluded from the buildfile runs exactly:
# programs in which a parameter of a named function is also the name of a top-level binding of the file (earlier or later, including
# the function itself) that is not an integer -- all generated call arguments are integers, so an integer outer binding type-checks.
# map / filter / reduce with an inline function, module locals and `item` are not affected and stay in the families.
# (both repaired meanwhile: 7bf24ef parameters shadow outer bindings, 4cf3f2f parameter holes do not escape; the exclusions are gone
# and the families exercise these programs again)
KNOWN = [
]
KNOWN_BUILD = 'typed_shadow'
# `ucg build` only (the type checker; eval_string is right and yields the reference value): a call whose callee is a field of a tuple or of a
# module instance -- `let t = {f = func (v) => v + 1}; let a = t.f(2);`, `let i = m{}; let a = i.f(2);` -- is refused with "Type error:
# Invalid field selector" (the same call inside a map callback passes, inside a named function it is refused too).  Valid programs are
# refused; no invalid program is admitted.  Excluded from the BUILDFILE closure families exactly: calls through a dotted path; there the
# function is bound to a name first (`let g = t.f; let a = g(2);`), which builds.  The eval families keep calling through fields.
KNOWN_FIELD_CALL = 'ucg build refuses t.f(args)'
# `ucg build` only, rare in the GENERATED buildfile families (about 1 program in 1000; found with VERIF_SEED=9, 29, 31): the type checker loses the
# function type of a list element produced by a map callback that returns an element of another list of functions --
# `let c = map(func (b) => func (b) => 5 - b * 2, [5, 1]); let h = map(func (n) => c.0, [4, 2]); let item = h.0; let x = 7 + item(3);` ->
# "Type error: Not a callable type" -- and mixes up a new field of a nested copy of self with the enclosing copy's new field of the same name --
# `.. let c1 = oi{n2 = self{n2 = self.b}};` -> "Type error: No narrowed candidate is compatible with int".  eval_string accepts both and yields
# the reference values.  Because further rare refusals cannot be excluded by construction, the two generated buildfile families
# (closure_build here, self_copies_build in c01.py) skip programs the type checker refuses and report only when more than max(2, 5%) of a run
# is refused (judge_build); the deterministic buildfile families (closure_cases_build, scope_build, prefix_values_build) do not skip anything.
KNOWN_TYPECHECK_RARE = 'isolated type checker refusals of valid generated programs'

POOL = ['a', 'b', 'c', 'd', 'p', 'q', 'r', 'x', 'y', 'item', 'u', 'acc']


# ------------------------------------------------------------------ reading the driver's Display output
def norm(out):
    """drop whitespace outside strings and the trailing comma of tuples / lists"""
    o, ins, i = [], False, 0
    while i < len(out):
        ch = out[i]
        if ins:
            o.append(ch)
            if ch == '\\' and i + 1 < len(out):
                o.append(out[i + 1]); i += 1
            elif ch == '"':
                ins = False
        elif ch == '"':
            ins = True; o.append(ch)
        elif ch in ']}' and o and o[-1] == ',':
            o[-1] = ch
        elif not ch.isspace():
            o.append(ch)
        i += 1
    return ''.join(o)


def fields(out):
    """top-level `{name = value, ...}` -> {name: normalised value text}; None if it does not look like one"""
    s = norm(out)
    if len(s) < 2 or s[0] != '{' or s[-1] != '}':
        return None
    res, depth, ins, start, i, body = {}, 0, False, 0, 0, s[1:-1]
    parts = []
    while i < len(body):
        ch = body[i]
        if ins:
            if ch == '\\':
                i += 1
            elif ch == '"':
                ins = False
        elif ch == '"':
            ins = True
        elif ch in '{[(':
            depth += 1
        elif ch in '}])':
            depth -= 1
        elif ch == ',' and depth == 0:
            parts.append(body[start:i]); start = i + 1
        i += 1
    if body[start:]:
        parts.append(body[start:])
    for p in parts:
        n, eq, v = p.partition('=')
        if not eq:
            return None
        res[n] = v
    return res


# ------------------------------------------------------------------ the reference interpreter
class Func:
    def __init__(self, params, body, snap):
        self.params, self.body, self.snap = params, body, snap


class Mod:
    def __init__(self, params, lets):
        self.params, self.lets = params, lets     # [(name, default int)], [(name, ast)]


def ev(a, sc):
    k = a[0]
    if k == 'int':
        return a[1]
    if k == 'ref':
        return sc[a[1]]
    if k == 'add':
        return ev(a[1], sc) + ev(a[2], sc)
    if k == 'call':
        f = sc[a[1]]
        inner = dict(f.snap)                                  # the bindings that existed where it was defined ...
        inner.update(zip(f.params, [ev(x, sc) for x in a[2]]))  # ... plus its arguments
        return ev(f.body, inner)
    if k == 'inst':
        m = sc[a[1]]
        params = dict(m.params)
        params.update((n, ev(x, sc)) for n, x in a[2])
        inner = {'mod': params}                               # a module body sees only `mod` and its own lets
        for n, x in m.lets:
            inner[n] = ev(x, inner)
        return inner[a[3]]
    if k == 'fmt':
        return ev(a[2], sc) + ev(a[1], sc)                    # int("@{item.v + EXTRA}" % {v = ARG})
    if k == 'fld':
        return sc[a[1]][a[2]]
    if k == 'modp':
        return sc['mod'][a[1]]
    raise ValueError(k)


def src(a):
    k = a[0]
    if k == 'int':
        return str(a[1])
    if k == 'ref':
        return a[1]
    if k == 'add':
        return '(%s + %s)' % (src(a[1]), src(a[2]))
    if k == 'call':
        return '%s(%s)' % (a[1], ', '.join(src(x) for x in a[2]))
    if k == 'inst':
        return '%s{%s}.%s' % (a[1], ', '.join('%s = %s' % (n, src(x)) for n, x in a[2]), a[3])
    if k == 'fmt':
        return 'int("@{item.v + %s}" %% {v = %s})' % (src(a[1]), src(a[2]))
    if k == 'fld':
        return '%s.%s' % (a[1], a[2])
    if k == 'modp':
        return 'mod.%s' % a[1]
    raise ValueError(k)


def show(v):
    if isinstance(v, (Func, Mod)):
        return 'NULL'
    if isinstance(v, dict):
        return '{' + ','.join('%s=%s' % (n, show(x)) for n, x in v.items()) + '}'
    if isinstance(v, str):
        return '"%s"' % v
    return str(v)


def lit(v):
    if isinstance(v, dict):
        return '{' + ', '.join('%s = %s' % (n, lit(x)) for n, x in v.items()) + '}'
    return show(v)


class Gen:
    """random valid programs over a small pool of names, so that parameter names, module locals, tuple fields and `item` coincide
    with top-level bindings made before and after them"""

    def __init__(self, rnd, avoid_typed_shadow=False):
        self.rnd = rnd
        self.avoid_typed_shadow = avoid_typed_shadow
        self.scope = {}
        self.param_names = set()
        self.stmts, self.after = [], []

    def kinds(self, sc, hide=()):
        ints = [n for n, v in sc.items() if isinstance(v, int) and n not in hide]
        funcs = [n for n, v in sc.items() if isinstance(v, Func) and n not in hide]
        mods = [n for n, v in sc.items() if isinstance(v, Mod) and n not in hide]
        tups = [n for n, v in sc.items() if isinstance(v, dict) and n not in hide and n != 'mod']
        return ints, funcs, mods, tups

    def expr(self, sc, depth, locals_=(), simple=False, hide=()):
        """an int expression over the bindings of sc (a dict name -> value) and the extra int names locals_"""
        rnd = self.rnd
        ints, funcs, mods, tups = self.kinds(sc, hide)
        ints = [n for n in ints if n not in locals_] + list(locals_)
        if 'mod' in sc and 'mod' not in hide:
            modps = list(sc['mod'])
        else:
            modps = []
        choices = ['int'] + ['ref'] * 3 * bool(ints) + ['modp'] * 3 * bool(modps)
        if depth > 0:
            choices += ['add'] * 2 + ['call'] * 3 * bool(funcs)
            if not simple:
                choices += ['inst'] * 2 * bool(mods) + ['fmt'] + ['fld'] * bool(tups)
        c = rnd.choice(choices)
        if c == 'int':
            return ('int', rnd.randint(0, 9))
        if c == 'ref':
            return ('ref', rnd.choice(ints))
        if c == 'modp':
            return ('modp', rnd.choice(modps))
        if c == 'add':
            return ('add', self.expr(sc, depth - 1, locals_, simple, hide), self.expr(sc, depth - 1, locals_, simple, hide))
        if c == 'call':
            f = rnd.choice(funcs)
            return ('call', f, [self.expr(sc, depth - 1, locals_, simple, hide) for _ in sc[f].params])
        if c == 'inst':
            m = rnd.choice(mods)
            over = [(n, self.expr(sc, depth - 1, locals_, simple, hide)) for n, _ in sc[m].params if rnd.random() < 0.6]
            return ('inst', m, over, rnd.choice([n for n, _ in sc[m].lets]))
        if c == 'fmt':
            # the embedded expression must not mention a binding called `item` (the format's item shadows it) nor braces / quotes
            return ('fmt', self.expr(sc, depth - 1, locals_, True, tuple(hide) + ('item',)), self.expr(sc, depth - 1, locals_, simple, hide))
        t = rnd.choice(tups)
        return ('fld', t, rnd.choice(list(sc[t])))

    def fresh(self, integer):
        free = [n for n in POOL if n not in self.scope and (integer or not self.avoid_typed_shadow or n not in self.param_names)]
        return self.rnd.choice(free) if free else None

    def step(self):
        rnd = self.rnd
        sc = self.scope
        r = rnd.random()
        name = self.fresh(r < 0.34)
        if name is None:
            return False
        if r < 0.34:
            e = self.expr(sc, 2)
            self.stmts.append('let %s = %s;' % (name, src(e)))
            sc[name] = ev(e, sc)
        elif r < 0.58:
            pool = [n for n in POOL if isinstance(sc.get(n, 0), int) and n != name] if self.avoid_typed_shadow else POOL    # KNOWN_BUILD
            params = rnd.sample(pool, rnd.randint(1, 2))
            self.param_names.update(params)
            inner = dict(sc)
            inner.update((p, 0) for p in params)             # inside the body the parameters hide outer bindings of the same name
            body = self.expr(inner, 2)
            if rnd.random() < 0.7:                            # make sure the parameters matter
                body = ('add', ('ref', rnd.choice(params)), body)
            self.stmts.append('let %s = func(%s) => %s;' % (name, ', '.join(params), src(body)))
            sc[name] = Func(params, body, dict(sc))
        elif r < 0.70:
            params = [(p, rnd.randint(0, 9)) for p in rnd.sample(POOL, rnd.randint(1, 2))]
            inner = {'mod': dict(params)}
            lets = []
            for n in rnd.sample(POOL, rnd.randint(1, 3)):
                e = self.expr(inner, 2)
                lets.append((n, e))
                inner[n] = ev(e, inner)
            self.stmts.append('let %s = module {%s} => { %s };' % (name, ', '.join('%s = %d' % p for p in params), ' '.join('let %s = %s;' % (n, src(e)) for n, e in lets)))
            sc[name] = Mod(params, lets)
        elif r < 0.80:
            e = self.expr(sc, 2)
            k = rnd.randint(1, 9)
            self.stmts.append('let %s = "@{item + %d}:@{item}" %% %s;' % (name, k, src(e) if not src(e).startswith('(') else '1 * ' + src(e)))
            v = ev(e, sc)
            sc[name] = '%d:%d' % (v + k, v)
        elif r < 0.92:
            fs = rnd.sample(POOL, rnd.randint(1, 3))
            es = [self.expr(sc, 1) for _ in fs]
            self.stmts.append('let %s = {%s};' % (name, ', '.join('%s = %s' % (f, src(e)) for f, e in zip(fs, es))))
            sc[name] = dict((f, ev(e, sc)) for f, e in zip(fs, es))
        else:
            e = self.expr(sc, 2)
            self.stmts.append('%s;' % src(e))                 # an expression statement binds nothing
        self.after.append(dict((n, show(v)) for n, v in sc.items()))
        return True


def programs(rnd, n, length, avoid_typed_shadow=False):
    out = []
    for _ in range(n):
        g = Gen(rnd, avoid_typed_shadow)
        while len(g.stmts) < length and g.step():
            pass
        out.append(g)
    return out


def standin_prefix_values(tier, seed):
    rnd = random.Random(seed)
    progs = programs(rnd, 120 if tier == 'thorough' else 20, 10)
    cases, meta = [], []
    for g in progs:
        for k in range(1, len(g.stmts) + 1):
            cases.append('\n'.join(g.stmts[:k]))
            meta.append((g, k))
    res = R.driver('eval', cases)
    bound = ('%d seeded programs of <= 10 statements (lets of int expressions, functions, modules, format strings with `item`, tuples, expression statements; all '
             'names from a pool of %d so that parameters / module locals / `item` coincide with earlier and later top-level bindings), cut at every statement boundary' % (len(progs), len(POOL)))
    for src_, (g, k), (st, out) in zip(cases, meta, res):
        exp = g.after[k - 1]
        got = fields(out) if st == 'OK' else None
        if got != exp:
            whole = '\n'.join(g.stmts)
            why = 'status %s %s' % (st, out[:200]) if got is None else '; '.join(
                ['%s = %s, expected %s' % (n, got.get(n, '(unbound)'), exp.get(n, '(unbound)')) for n in sorted(set(got) | set(exp)) if got.get(n) != exp.get(n)])
            return dict(name='prefix_values', bound=bound, cases=len(cases), status='violation',
                        detail='after the first %d statement(s) of `%s`: %s' % (k, whole.replace('\n', ' '), why.replace('\n', ' ')),
                        input=dict(source=src_, whole_program=whole, expected=json.dumps(exp, sort_keys=True), observed='%s %s' % (st, out[:600]), how=HOW['eval']))
    return dict(name='prefix_values', bound=bound, cases=len(cases), status='ok')


def standin_prefix_values_build(tier, seed):
    """the same programs through the type checker + VM; values are pinned by `select (name == value) => {true = 1}` statements
    (no default: a different value is a build error) placed right after the binding AND at the end of the program"""
    rnd = random.Random(seed + 1000)
    progs = programs(rnd, 400 if tier == 'thorough' else 60, 10, avoid_typed_shadow=False)
    cases = []
    for g in progs:
        lines, tail, n = [], [], 0
        prev = {}
        for s, aft in zip(g.stmts, g.after):
            lines.append(s)
            new = [x for x in aft if x not in prev]
            for x in new:
                v = g.scope[x]
                if not isinstance(v, (Func, Mod)):
                    lines.append('let chk%d = select (%s == %s) => {true = 1};' % (n, x, lit(v))); n += 1
                    tail.append('let chk%d = select (%s == %s) => {true = 1};' % (n, x, lit(v))); n += 1
            prev = aft
        cases.append('\n'.join(lines + tail))
    res = R.driver('buildfile', cases)
    bound = '%d seeded programs as in prefix_values, each binding pinned to the reference value right after it is made and again at the end of the file' % len(progs)
    for src_, (st, out) in zip(cases, res):
        if st != 'OK':
            return dict(name='prefix_values_build', bound=bound, cases=len(cases), status='violation',
                        detail='a valid program whose bindings are pinned to their reference values does not build: %s %s' % (st, out[:300].replace('\n', ' ')),
                        input=dict(source=src_, expected='builds (every chkN select finds its `true` case)', observed='%s %s' % (st, out[:600]), how=HOW['buildfile']))
    return dict(name='prefix_values_build', bound=bound, cases=len(cases), status='ok')


# ------------------------------------------------------------------ invisible names, rebinding (templates x names x gaps)
FILL = ['let k1 = 1;', 'let k2 = "s";', 'let k3 = [1, 2];']


def scope_cases(names):
    """(program, expectation) with expectation = None (must be a build error) or {name: value} (must hold)"""
    cs = []
    for n in names:
        o = [x for x in POOL if x != n]
        for gap in (0, 1, 2):
            g1 = FILL[:gap]
            G = '\n'.join(g1 + [''])
            # a function sees the bindings that existed where it was defined: a later binding is invisible, an earlier one visible
            cs.append(('let f = func(z) => %s + z;\n%slet %s = 10;\nlet res = f(5);' % (n, G, n), None))
            cs.append(('let %s = 10;\n%slet f = func(z) => %s + z;\nlet res = f(5);' % (n, G, n), {'res': '15'}))
            cs.append(('let t = {g = func(z) => %s + z};\n%slet %s = 10;\nlet res = t.g(5);' % (n, G, n), None))
            cs.append(('let f = func(z) => %s + z;\nlet h = func(w) => f(w);\n%slet %s = 10;\nlet res = h(5);' % (n, G, n), None))
            # a parameter hides an outer binding inside, leaves it untouched outside, and does not survive the call
            cs.append(('let %s = 100;\n%slet f = func(%s) => %s + 1;\nlet res = f(1);\nlet after = %s;' % (n, G, n, n, n), {'res': '2', 'after': '100', n: '100'}))
            cs.append(('let f = func(%s) => %s + 1;\n%slet res = f(1);\nlet %s = 7;\nlet again = f(2);' % (n, n, G, n), {'res': '2', 'again': '3', n: '7'}))
            cs.append(('let f = func(%s) => %s + 1;\n%slet res = f(1);\nlet %s = "s";\nlet again = f(2);' % (n, n, G, n), {'res': '2', 'again': '3', n: '"s"'}))
            for outer, shown in (('"s"', '"s"'), ('{k = 1}', '{k=1}'), ('func(w) => w', None), ('[1]', '[1]')):
                exp = {'res': '2'}
                if shown is not None:     # a function value has no literal to pin it to
                    exp[n] = shown
                    exp['after'] = shown
                cs.append(('let %s = %s;\n%slet f = func(%s) => %s + 1;\nlet res = f(1);\nlet after = %s;' % (n, outer, G, n, n, n), exp))
            cs.append(('let f = func(%s) => %s + 1;\n%slet res = f(1);\nlet leak = %s;' % (n, n, G, n), None))
            cs.append(('let f = func(z, %s) => %s + z;\nlet res = f(1, 2);\n%slet leak = %s;' % (n, n, G, n), None))
            cs.append(('let l = map(func(%s) => %s + 1, [1, 2]);\n%slet leak = %s;' % (n, n, G, n), None))
            cs.append(('let l = filter(func(%s) => %s > 1, [1, 2]);\n%slet leak = %s;' % (n, n, G, n), None))
            cs.append(('let l = reduce(func(%s, %s) => %s + %s, 0, [1, 2]);\n%slet leak = %s;' % (o[0], n, o[0], n, G, n), None))
            cs.append(('let l = reduce(func(%s, %s) => %s + %s, 0, [1, 2]);\n%slet leak = %s;' % (n, o[0], o[0], n, G, n), None))
            cs.append(('let %s = 50;\nlet l = map(func(%s) => %s + 1, [1, 2]);\n%slet after = %s;' % (n, n, n, G, n), {'l': '[2,3]', 'after': '50'}))
            # the callee does not see the caller's parameters
            cs.append(('let g = func(w) => w + %s;\n%slet f = func(%s) => g(%s + 1);\nlet res = f(1);' % (n, G, n, n), None))
            cs.append(('let %s = 5;\nlet g = func(w) => w + %s;\n%slet f = func(%s) => g(%s + 1);\nlet res = f(1);' % (n, n, G, n, n), {'res': '7'}))
            # module: sees only `mod` and its own lets; its lets and `mod` do not leak
            cs.append(('let %s = 1;\n%slet m = module {p = 2} => { let res = mod.p + %s; };\nlet i = m{};' % (n, G, n), None))
            cs.append(('let m = module {p = 2} => { let res = mod.p + %s; };\n%slet %s = 1;\nlet i = m{};' % (n, G, n), None))
            cs.append(('let %s = func(w) => w;\n%slet m = module {p = 2} => { let res = %s(mod.p); };\nlet i = m{};' % (n, G, n), None))
            cs.append(('let %s = 1;\n%slet m = module {p = 2} => { let %s = mod.p + 1; };\nlet i = m{};\nlet after = %s;' % (n, G, n, n), {'i': '{%s=3}' % n, 'after': '1'}))
            cs.append(('let m = module {p = 2} => { let %s = mod.p + 1; };\nlet i = m{};\n%slet leak = %s;' % (n, G, n), None))
            cs.append(('let m = module {p = 2} => { let %s = mod.p + 1; };\nlet i = m{};\n%slet %s = 9;' % (n, G, n), {'i': '{%s=3}' % n, n: '9'}))
            cs.append(('let m = module {%s = 2} => { let res = mod.%s; };\nlet i = m{};\n%slet leak = %s;' % (n, n, G, n), None))
            cs.append(('let m = module {%s = 2} => { let res = %s; };\n%slet i = m{};' % (n, n, G), None))      # a parameter is reached through `mod` only
            cs.append(('let m = module {p = 2} => { let %s = mod.p; };\nlet i = m{};\n%slet leak = mod;' % (n, G), None))
            # nested modules: a local of the OUTER module body declared after / before / inside a nested module expression stays local,
            # also when a top-level binding of the same name has another type (the type checker must not see it at file level either)
            if n != 'item':
                cs.append(('let %s = "s";\n%slet m = module {p = 2} => { let inner = module {q = 1} => { let a = mod.q; }; let %s = mod.p + 1; };\nlet i = m{};\nlet after = %s + "!";' % (n, G, n, n),
                           {'after': '"s!"'}))
                cs.append(('let %s = "s";\n%slet m = module {p = 2} => { let %s = mod.p + 1; let inner = module {q = 1} => { let a = mod.q; }; let zz9 = %s + 1; };\nlet i = m{};\nlet after = %s + "!";' % (n, G, n, n, n),
                           {'after': '"s!"'}))
                cs.append(('let %s = "s";\n%slet m = module {p = 2} => { let inner = module {q = 1} => { let %s = mod.q; }; let j = inner{}; let c = j.%s + mod.p; };\nlet i = m{};\nlet after = %s + "!";' % (n, G, n, n, n),
                           {'after': '"s!"'}))
                cs.append(('let %s = "s";\n%slet m = module {p = 2} => { let f = func(w) => module {q = w} => { let a = mod.q; }; let %s = mod.p + 1; };\nlet i = m{};\nlet after = %s + "!";' % (n, G, n, n),
                           {'after': '"s!"'}))
                cs.append(('let m = module {p = 2} => { let inner = module {q = 1} => { let a = mod.q; }; let %s = mod.p + 1; };\nlet i = m{};\n%slet leak = %s;' % (n, G, n), None))
                cs.append(('let m = module {p = 2} => { let inner = module {q = 1} => { let %s = mod.q; }; let leak = %s; };\n%slet i = m{};' % (n, n, G), None))
            # rebinding, whatever the two bindings are
            kinds = ['let %s = 1;', 'let %s = "s";', 'let %s = func(z) => z;', 'let %s = module {p = 1} => { let w = mod.p; };', 'constraint %s = 1;',
                     'let %s = NULL;', 'let %s = {};', 'let %s = [];', 'let %s = false;', 'let %s = 0;', 'let %s = "";']
            for k1 in kinds:
                for k2 in kinds:
                    cs.append(('%s\n%s%s' % (k1 % n, G, k2 % n), None))
            cs.append(('let %s = 1;\n%slet %s = 1;' % (n, G, n), None))                                          # even with the same value
            cs.append(('let m = module {p = 1} => { let %s = 1; %s let %s = 2; };\nlet i = m{};' % (n, ' '.join(g1), n), None))
            cs.append(('let %s = 1;\n%slet other = %s;' % (n, G, n), {n: '1', 'other': '1'}))
            # a parameter hides a binding of the captured scope: an enclosing function's parameter, a map / reduce callback's parameter, a top-level
            # binding of another type (inline callbacks; for named functions see KNOWN_BUILD), and a closure keeps its own parameter
            cs.append(('let mk = func(%s) => func(%s) => %s + 1;\n%slet inner = mk(5);\nlet res = inner(1);' % (n, n, n, G), {'res': '2'}))
            cs.append(('let f = func(%s) => map(func(%s) => %s + 1, [%s, 20]);\n%slet res = f(1);' % (n, n, n, n, G), {'res': '[2,21]'}))
            cs.append(('let l = map(func(%s) => reduce(func(zz, %s) => zz + %s, 0, [%s, 1]), [1, 2]);\n%slet k9 = 1;' % (n, n, n, n, G), {'l': '[2,3]'}))
            cs.append(('let %s = "s";\n%slet l = map(func(%s) => %s + 1, [1, 2]);\nlet after = %s;' % (n, G, n, n, n), {'l': '[2,3]', 'after': '"s"'}))
            cs.append(('let %s = "s";\n%slet l = filter(func(%s) => %s > 1, [1, 2]);\nlet res = reduce(func(zz, %s) => zz + %s, 0, [1, 2]);\nlet after = %s;' % (n, G, n, n, n, n, n),
                       {'l': '[2]', 'res': '3', 'after': '"s"'}))
            cs.append(('let f = func(%s) => func(z) => %s + z;\nlet g = f(10);\n%slet %s = 1;\nlet res = g(5);' % (n, n, G, n), {'res': '15', n: '1'}))
        # a format string's item
        if n != 'item':
            for gap in (0, 1, 2):
                G = '\n'.join(FILL[:gap] + [''])
                cs.append(('let %s = "@{item.a}" %% {a = 1};\n%slet leak = item;' % (n, G), None))
                cs.append(('let %s = "@{item}" %% 4;\n%slet f = func(z) => item + z;\nlet res = f(1);' % (n, G), None))
                cs.append(('let item = 3;\n%slet %s = "@{item.a}" %% {a = 1};\nlet after = item;' % (G, n), {n: '"1"', 'after': '3', 'item': '3'}))
                cs.append(('let %s = "@{item.a}" %% {a = 1};\n%slet item = 3;' % (n, G), {n: '"1"', 'item': '3'}))
                cs.append(('let f = func(item) => "@{item + 1}" %% 10;\n%slet %s = f(1);' % (G, n), {n: '"11"'}))
                cs.append(('let f = func(z) => "@{item + z}" %% 10;\n%slet %s = f(1);\nlet leak = z;' % (G, n), None))
                # nested formats, formats inside functions and map callbacks: `item` outside is exactly what it was
                fmts = [('"@{item.s}" %% {s = "@{item + 1}" %% 4}', '"5"'),                       # a format as the argument of a format
                        ('"@{int(\\"@{item + 1}\\" %% item) + item}" %% 5', '"11"'),              # a format inside a template: the outer item survives it
                        ('"<@{item}>" %% "[@{item + 1}]" %% 4', '"<[5]>"'),
                        ('ff(1)', '"11"'), ('map(func(e) => "@{item + 1}" %% e, [1, 2])', '["2","3"]')]
                for fsrc, fval in fmts:
                    pre = 'let ff = func(z) => "@{item + z}" % 10;\n' if fsrc.startswith('ff') else ''
                    fsrc = fsrc.replace('%%', '%')
                    cs.append(('%slet %s = %s;\n%slet leak = item;' % (pre, n, fsrc, G), None))
                    cs.append(('let item = 7;\n%slet %s = %s;\n%slet after = item;' % (pre, n, fsrc, G), {n: fval, 'after': '7', 'item': '7'}))
                    cs.append(('%slet %s = %s;\n%slet item = 1;\nlet again = %s;' % (pre, n, fsrc, G, fsrc), {n: fval, 'again': fval, 'item': '1'}))
    return cs


def check_scope(mode, cs, name, bound):
    cs = [(p, None if e is None else dict((k, v) for k, v in e.items() if k != KNOWN_BUILD)) for p, e in cs]
    progs = []
    for p, exp in cs:
        if mode == 'buildfile' and exp:
            # pin the expected values inside the program
            p = p + ''.join('\nlet chk%d = select (%s == %s) => {true = 1};' % (i, n, re.sub(r'([,=])', r'\1 ', v)) for i, (n, v) in enumerate(sorted(exp.items())))
        progs.append(p)
    res = R.driver(mode, progs)
    for p, (_, exp), (st, out) in zip(progs, cs, res):
        bad = None
        if exp is None:
            if st != 'ERR':
                bad = 'must be a build error, observed %s %s' % (st, out[:160].replace('\n', ' '))
        elif st != 'OK':
            bad = 'must build, observed %s %s' % (st, out[:200].replace('\n', ' '))
        elif mode == 'eval':
            got = fields(out) or {}
            wrong = ['%s = %s, expected %s' % (n, got.get(n, '(unbound)'), v) for n, v in sorted(exp.items()) if got.get(n) != v]
            if wrong:
                bad = '; '.join(wrong)
        if bad:
            return dict(name=name, bound=bound, cases=len(progs), status='violation', detail='`%s`: %s' % (p.replace('\n', ' '), bad),
                        input=dict(source=p, expected='build error' if exp is None else json.dumps(exp, sort_keys=True), observed='%s %s' % (st, out[:400]), how=HOW[mode]))
    return dict(name=name, bound=bound, cases=len(progs), status='ok')


SCOPE_BOUND = ('%d names x gaps of 0..2 unrelated statements x templates: function referring to a later / earlier binding (direct, in a tuple field, through another function), '
               'parameter equal to an earlier / later top-level name, parameter / map / filter / reduce parameter / `item` / module local / module parameter / `mod` used after the call, '
               "callee using the caller's parameter, module body using a file binding or function defined before / after it, all 25 pairs of {let value, let string, let func, let module, constraint} "
               'rebinding one name, rebinding inside a module; module locals declared after / before / inside a nested module expression against a top-level binding of another type; parameter equal to an enclosing function\'s / callback\'s parameter or to a top-level binding of another type; `item` after nested formats and formats inside functions and map callbacks (unbound stays unbound, bound keeps its value, a later `let item` succeeds); each invisible-name program has a visible twin whose values are checked')


def names_for(tier, seed):
    rnd = random.Random(seed)
    return POOL if tier == 'thorough' else ['item'] + rnd.sample([n for n in POOL if n != 'item'], 2)


def standin_scope_eval(tier, seed):
    names = names_for(tier, seed)
    return check_scope('eval', scope_cases(names), 'scope_eval', SCOPE_BOUND % len(names))


def standin_scope_build(tier, seed):
    names = names_for(tier, seed + 1)
    return check_scope('buildfile', scope_cases(names), 'scope_build', SCOPE_BOUND % len(names))


# ------------------------------------------------------------------ reserved words in every binding position
def doc_reserved():
    doc = open(os.path.join(R.REPO, 'docsite/site/content/reference/_index.md')).read()
    m = re.search(r'reserved in UCG.*?\n((?:\s*\n|\* .*\n)+)', doc)
    return re.findall(r'^\* (\S+)\s*$', m.group(1), re.M)


POSITIONS = {
    'let': 'let W = 1;',
    'let_after': 'let k = 1;\nlet s = "@{item}" % k;\nlet W = 2;',
    'constraint': 'constraint W = 1;',
    'module_let': 'let m = module {p = 1} => { let W = mod.p; };\nlet i = m{};',
    'func_param': 'let f = func(W) => 1;\nlet r = f(2);',
    'func_param2': 'let f = func(z, W) => z;\nlet r = f(2, 3);',
    'map_param': 'let l = map(func(W) => 1, [1, 2]);',
    'reduce_param': 'let l = reduce(func(W, z) => z, 0, [1, 2]);',
}


def standin_reserved_positions(tier, seed):
    words = doc_reserved()
    cases, meta = [], []
    for pos, tmpl in sorted(POSITIONS.items()):
        for w in words:
            for mode in ('eval', 'buildfile'):
                cases.append(tmpl.replace('W', w)); meta.append((pos, w, mode))
        for mode in ('eval', 'buildfile'):                    # the template itself is fine with an ordinary name
            cases.append(tmpl.replace('W', 'okname')); meta.append((pos, None, mode))
    bound = 'every published reserved word (%d) x %d binding positions (%s) x {eval, buildfile}; each template also with an ordinary name (must build)' % (
        len(words), len(POSITIONS), ', '.join(sorted(POSITIONS)))
    res = {}
    for mode in ('eval', 'buildfile'):
        idx = [i for i, m in enumerate(meta) if m[2] == mode]
        for i, r in zip(idx, R.driver(mode, [cases[i] for i in idx])):
            res[i] = r
    for i, (p, (pos, w, mode)) in enumerate(zip(cases, meta)):
        st, out = res[i]
        if (w is None and st != 'OK') or (w is not None and st != 'ERR'):
            return dict(name='reserved_positions', bound=bound, cases=len(cases), status='violation',
                        detail='`%s` (%s): %s, observed %s %s' % (p.replace('\n', ' '), pos, 'must build' if w is None else 'the reserved word %s must be refused as a binding name' % w, st, out[:160].replace('\n', ' ')),
                        input=dict(source=p, expected='builds' if w is None else 'build error', observed='%s %s' % (st, out[:300]), how=HOW[mode]))
    return dict(name='reserved_positions', bound=bound, cases=len(cases), status='ok', exhaustive=True)


# ------------------------------------------------------------------ the C01 table cut at every statement boundary
def split_statements(p):
    out, depth, ins, start, i = [], 0, False, 0, 0
    while i < len(p):
        ch = p[i]
        if ins:
            if ch == '\\':
                i += 1
            elif ch == '"':
                ins = False
        elif ch == '"':
            ins = True
        elif p.startswith('//', i):
            j = p.find('\n', i)
            i = len(p) if j < 0 else j
            continue
        elif ch in '{[(':
            depth += 1
        elif ch in '}])':
            depth -= 1
        elif ch == ';' and depth == 0:
            out.append(p[start:i + 1]); start = i + 1
        i += 1
    return out if not p[start:].strip() else None


def standin_golden_prefixes(tier, seed):
    gold = json.load(open(os.path.join(HERE, 'golden_c01.json')))
    cases, meta = [], []
    for g in gold:
        if g['status'] != 'OK':
            continue
        st = split_statements(g['program'])
        if not st or len(st) < 2:
            continue
        for k in range(1, len(st) + 1):
            cases.append(''.join(st[:k])); meta.append((g['program'], k, len(st)))
    res = R.driver('eval', cases)
    bound = 'the %d multi-statement programs of the C01 semantics table cut at every statement boundary: each binding of a prefix is present with the same value in every longer prefix' % len(set(m[0] for m in meta))
    last = {}
    for c, (prog, k, n), (st, out) in zip(cases, meta, res):
        cur = fields(out) if st == 'OK' else None
        if st not in ('OK', 'ERR'):
            return dict(name='golden_prefixes', bound=bound, cases=len(cases), status='violation', detail='`%s`: %s %s' % (c.replace('\n', ' '), st, out[:200]),
                        input=dict(source=c, expected='a value or a diagnostic', observed='%s %s' % (st, out[:300]), how=HOW['eval']))
        prev = last.get(prog)
        if prev is not None and cur is not None:
            diff = ['%s = %s, was %s' % (x, cur.get(x, '(unbound)'), v) for x, v in sorted(prev.items()) if cur.get(x) != v]
            if diff:
                return dict(name='golden_prefixes', bound=bound, cases=len(cases), status='violation',
                            detail='`%s`: after statement %d %s' % (prog.replace('\n', ' '), k, '; '.join(diff)),
                            input=dict(source=c, expected=json.dumps(prev, sort_keys=True), observed=out[:600], how=HOW['eval']))
        if cur is not None:
            last[prog] = cur
    return dict(name='golden_prefixes', bound=bound, cases=len(cases), status='ok')


# ================================================================== closures: every function VALUE carries its own captured scope
# A second, richer reference interpreter ("mini-UCG") for programs in which function values are produced by other functions, by map /
# reduce callbacks and by module instantiations, are stored in tuples and lists, passed as arguments and called in every order and
# repeatedly with equal arguments.  It follows the statement (and reference/expressions.md "Functions", "Modules", "Copy Expressions")
# literally:
#   * evaluating `func (p..) => body` yields a value that holds a COPY of the bindings visible at that point -- one copy per evaluation,
#     so two values made by the same `func` expression under different bindings are different functions;
#   * a call evaluates the body in that copy plus the arguments (nothing of the caller, nothing bound later, no memory of earlier calls);
#   * every `m{..}` instantiation evaluates the module's statements afresh over `mod` (defaults overridden by the arguments) alone;
#   * `self` inside the body of a copy expression is the base tuple of the innermost enclosing copy (used by the C01 stand-ins).
# Values: int, list, tuple (dict), Clos, CModule.  Function and module values are displayed as NULL by the driver.
TI = ('I',)


def TF(ps, r):
    return ('F', tuple(ps), r)


F1 = TF([TI], TI)
F2 = TF([TI, TI], TI)
FF1 = TF([TI], F1)
FF2 = TF([TI, TI], F1)
FFF1 = TF([TI], FF1)
HO = TF([F1, TI], TI)
WR = TF([F1], F1)
LIMIT = 2 ** 40


class TooBig(Exception):
    pass


class Clos:
    def __init__(self, params, body, env):
        self.params, self.body, self.env = params, body, env


class CModule:
    def __init__(self, params, lets):
        self.params, self.lets = params, lets       # [(name, default ast)], [(name, ast)]


def ccall(f, args):
    inner = dict(f.env)                               # the bindings that existed where THIS function value was made ...
    inner.update(zip(f.params, args))                 # ... plus its arguments
    return cev(f.body, inner, None)


def cev(a, env, selfv=None):
    k = a[0]
    if k == 'int':
        return a[1]
    if k == 'ref':
        return env[a[1]]
    if k == 'self':
        if selfv is None:
            raise KeyError('self')
        return selfv
    if k == 'fld':
        return cev(a[1], env, selfv)[a[2]]
    if k == 'idx':
        return cev(a[1], env, selfv)[a[2]]
    if k == 'bin':
        x, y = cev(a[2], env, selfv), cev(a[3], env, selfv)
        r = x + y if a[1] == '+' else x - y if a[1] == '-' else x * y
        if isinstance(r, int) and abs(r) >= LIMIT:
            raise TooBig()
        return r
    if k == 'func':
        return Clos(a[1], a[2], dict(env))
    if k == 'call':
        f = cev(a[1], env, selfv)
        return ccall(f, [cev(x, env, selfv) for x in a[2]])
    if k == 'list':
        return [cev(x, env, selfv) for x in a[1]]
    if k == 'tuple':
        return dict((n, cev(x, env, selfv)) for n, x in a[1])
    if k == 'map':
        f = cev(a[1], env, selfv)
        return [ccall(f, [x]) for x in cev(a[2], env, selfv)]
    if k == 'reduce':
        f, acc = cev(a[1], env, selfv), cev(a[2], env, selfv)
        for x in cev(a[3], env, selfv):
            acc = ccall(f, [acc, x])
        return acc
    if k == 'module':
        return CModule(a[1], a[2])
    if k == 'inst':
        m = cev(a[1], env, selfv)
        params = dict((n, cev(x, {}, None)) for n, x in m.params)
        params.update((n, cev(x, env, selfv)) for n, x in a[2])
        inner = {'mod': params}                       # a module body sees only `mod` and its own lets; each instantiation afresh
        for n, x in m.lets:
            inner[n] = cev(x, inner, None)
        return dict((n, inner[n]) for n, _ in m.lets)
    if k == 'copy':
        base = cev(a[1], env, selfv)                  # the base is evaluated where the copy stands (an outer copy's self is still visible)
        res = dict(base)
        for n, x in a[2]:
            res[n] = cev(x, env, base)                # self = the base tuple of THIS copy, for every field of its body
        return res
    raise ValueError(k)


def csrc(a):
    k = a[0]
    if k == 'int':
        return str(a[1])
    if k == 'ref':
        return a[1]
    if k == 'self':
        return 'self'
    if k == 'fld':
        return '%s.%s' % (csrc(a[1]), a[2])
    if k == 'idx':
        return '%s.%d' % (csrc(a[1]), a[2])
    if k == 'bin':
        return '(%s %s %s)' % (csrc(a[2]), a[1], csrc(a[3]))
    if k == 'func':
        return 'func (%s) => %s' % (', '.join(a[1]), csrc(a[2]))
    if k == 'call':
        return '%s(%s)' % (csrc(a[1]), ', '.join(csrc(x) for x in a[2]))
    if k == 'list':
        return '[%s]' % ', '.join(csrc(x) for x in a[1])
    if k == 'tuple':
        return '{%s}' % ', '.join('%s = %s' % (n, csrc(x)) for n, x in a[1])
    if k == 'map':
        return 'map(%s, %s)' % (csrc(a[1]), csrc(a[2]))
    if k == 'reduce':
        return 'reduce(%s, %s, %s)' % (csrc(a[1]), csrc(a[2]), csrc(a[3]))
    if k == 'module':
        return 'module {%s} => { %s }' % (', '.join('%s = %s' % (n, csrc(x)) for n, x in a[1]), ' '.join('let %s = %s;' % (n, csrc(x)) for n, x in a[2]))
    if k in ('inst', 'copy'):
        return '%s{%s}' % (csrc(a[1]), ', '.join('%s = %s' % (n, csrc(x)) for n, x in a[2]))
    raise ValueError(k)


def cshow(v):
    """canonical text of a value: the driver's Display without blanks, tuple fields sorted by name (the statement does not speak of order)"""
    if isinstance(v, (Clos, CModule)) or v is None:
        return 'NULL'
    if isinstance(v, bool):
        return 'true' if v else 'false'
    if isinstance(v, dict):
        return '{' + ','.join('%s=%s' % (n, cshow(x)) for n, x in sorted(v.items())) + '}'
    if isinstance(v, list):
        return '[' + ','.join(cshow(x) for x in v) + ']'
    if isinstance(v, str):
        return '"%s"' % v.replace('\\', '\\\\').replace('"', '\\"')
    return str(v)


def canon(text):
    """normalised Display text with the fields of every tuple sorted by name; None if it does not parse"""
    s = norm(text)

    def skipstr(i):
        i += 1
        while s[i] != '"':
            i += 2 if s[i] == '\\' else 1
        return i + 1

    def val(i):
        c = s[i]
        if c == '{':
            i += 1
            items = []
            while s[i] != '}':
                j = skipstr(i) if s[i] == '"' else i
                while s[j] != '=':
                    j += 1
                v, nxt = val(j + 1)
                items.append((s[i:j], v))
                if nxt <= i:
                    raise IndexError
                i = nxt + 1 if s[nxt] == ',' else nxt
            return '{' + ','.join('%s=%s' % x for x in sorted(items)) + '}', i + 1
        if c == '[':
            i += 1
            items = []
            while s[i] != ']':
                v, nxt = val(i)
                items.append(v)
                if nxt == i and s[nxt] != ',':      # no progress (text that is not a Display value, e.g. after an unescaped backslash): give up
                    raise IndexError
                i = nxt + 1 if s[nxt] == ',' else nxt
            return '[' + ','.join(items) + ']', i + 1
        if c == '"':
            j = skipstr(i)
            return s[i:j], j
        j = i
        while j < len(s) and s[j] not in ',]}':
            j += 1
        return s[i:j], j
    try:
        v, i = val(0)
        return v if i == len(s) else None
    except IndexError:
        return None


def cfields(out):
    """top-level `{name = value, ...}` -> {name: canonical value text}"""
    f = fields(out)
    if f is None:
        return None
    return dict((n, canon(v)) for n, v in f.items())


def clit(v):
    """UCG source of an int / list-of-int value (there are no negative literals)"""
    if isinstance(v, list):
        return '[%s]' % ', '.join(clit(x) for x in v)
    return str(v) if v >= 0 else '(0 - %d)' % -v


def pinnable(v):
    return (isinstance(v, int) and not isinstance(v, bool)) or (isinstance(v, list) and all(pinnable(x) for x in v))


def pins(name, v):
    """(path, literal) for every part of the value of `name` that has a literal: ints, lists of ints, the same inside tuples"""
    if pinnable(v):
        return [(name, clit(v))]
    if isinstance(v, dict):
        return [p for n, x in v.items() for p in pins('%s.%s' % (name, n), x)]
    if isinstance(v, list):
        return [p for i, x in enumerate(v) for p in pins('%s.%d' % (name, i), x)]
    return []


CNAMES = ['a', 'b', 'c', 'd', 'f', 'g', 'h', 'k', 'm', 'n', 'p', 'q', 'r', 't', 'u', 'v', 'w', 'x', 'y', 'z', 'acc', 'item']
CPARAMS = ['a', 'b', 'n', 'x', 'y', 'k', 'f', 'acc', 'item']


class CGen:
    """typed random programs: int bindings, functions, function factories (depth <= 3), instances of factories, lists of closures built by
    map / list literals, tuples holding closures, higher-order functions, modules defining closures over `mod` and their instantiations;
    int arguments come from a tiny pool so that different closures are called with EQUAL arguments again and again"""

    def __init__(self, rnd, ty=None, env=None, kinds=None, maxdepth=3, field_calls=True):
        self.rnd = rnd
        self.field_calls = field_calls              # False: a function held by a tuple / module instance is bound to a name before it is called (KNOWN_FIELD_CALL)
        self.ty = dict(ty or {})
        self.env = dict(env or {})
        self.kinds = kinds
        self.maxdepth = maxdepth
        self.stmts, self.after, self.lets = [], [], []
        self.ambient = [('fld', ('ref', 'mod'), n) for n, _ in self.ty['mod'][1]] if 'mod' in self.ty else []

    # ---- what can be named in a scope
    def paths(self, sc):
        out = []

        def walk(e, t, idx):
            out.append((e, t, idx or (e[0] != 'ref' and not self.field_calls)))       # third component: cannot stand in callee position
            if t[0] == 'T':
                for fn, ft in t[1]:
                    walk(('fld', e, fn), ft, idx)
            elif t[0] == 'L':
                for i in range(t[2]):
                    walk(('idx', e, i), t[1], True)
        for n, t in sc.items():
            if t[0] != 'M':
                walk(('ref', n), t, False)
        return out

    def small(self):
        return ('int', self.rnd.choice([1, 2, 2, 3, 5, 7]))

    def params(self, n):
        return self.rnd.sample(CPARAMS, n)

    def call(self, callee, sc, d, loc):
        e, et = callee
        args = []
        for pt in et[1]:
            if pt == TI and self.rnd.random() < 0.6:
                args.append(self.small())
            else:
                args.append(self.gen(pt, sc, d - 1, loc))
        return ('call', e, args)

    def lam(self, t, sc, d, loc):
        """a new function value of type t; loc = the parameters of the enclosing functions (innermost first)"""
        rnd = self.rnd
        pool = [n for n in CPARAMS if n not in loc] if rnd.random() < 0.7 else CPARAMS     # sometimes an inner parameter hides an outer one
        names = rnd.sample(pool, len(t[1]))
        sc2 = dict(sc)
        for n, pt in zip(names, t[1]):
            sc2[n] = pt
        loc2 = tuple(names) + tuple(x for x in loc if x not in names)
        body = self.gen(t[2], sc2, max(d - 1, 0), loc2)
        if t[2] == TI:
            ints = [n for n in loc2 if sc2[n] == TI]
            for n in loc2:                           # the arguments and the captured values matter
                if rnd.random() < 0.85:
                    if sc2[n] == TI:
                        body = ('bin', rnd.choice('+*-'), ('ref', n), body) if rnd.random() < 0.5 else ('bin', rnd.choice('+-'), body, ('bin', '*', ('ref', n), self.small()))
                    elif sc2[n] == F1:
                        body = ('bin', '+', ('call', ('ref', n), [('ref', rnd.choice(ints)) if ints and rnd.random() < 0.6 else self.small()]), body)
            for e in self.ambient:                   # a module's parameters matter for the closures its body defines
                if rnd.random() < 0.6:
                    body = ('bin', rnd.choice('+-'), body, ('bin', '*', e, self.small()))
        return ('func', names, body)

    def gen(self, t, sc, d, loc=()):
        rnd = self.rnd
        ps = self.paths(sc)
        at = [e for e, et, _ in ps if et == t]
        calls = [(e, et) for e, et, idx in ps if et[0] == 'F' and et[2] == t and not idx] if d > 0 else []
        k = t[0]
        if k == 'I':
            locs = [n for n in loc if sc.get(n) == TI]
            lfs = [e for e, et, _ in ps if et[0] == 'L' and et[1] == F1] if d > 0 else []
            opts = ['lit'] * 2 + ['atom'] * 2 * bool(at) + ['loc'] * 3 * bool(locs)
            if d > 0:
                opts += ['bin'] * 3 + ['call'] * 7 * bool(calls) + ['red'] * 2 * bool(lfs)
            c = rnd.choice(opts)
            if c == 'lit':
                return self.small()
            if c == 'atom':
                return rnd.choice(at)
            if c == 'loc':
                return ('ref', rnd.choice(locs))
            if c == 'bin':
                return ('bin', rnd.choice('++*-'), self.gen(TI, sc, d - 1, loc), self.gen(TI, sc, d - 1, loc))
            if c == 'call':
                return self.call(rnd.choice(calls), sc, d, loc)
            pa, pf = self.params(2)                   # every closure of a list applied to the same argument
            sc2 = dict(sc)
            sc2[pa] = TI
            sc2[pf] = F1
            arg = self.small() if rnd.random() < 0.6 else self.gen(TI, sc2, 0, tuple(x for x in loc if x not in (pa, pf)))
            return ('reduce', ('func', [pa, pf], ('bin', '+', ('bin', '*', ('ref', pa), ('int', 3)), ('call', ('ref', pf), [arg]))), ('int', 0), rnd.choice(lfs))
        if k == 'F':
            if loc:                                   # inside a function: make a NEW function value that captures the parameters
                opts = ['atom'] * bool(at) + ['call'] * 2 * bool(calls) + ['lam'] * 8
            else:
                opts = ['atom'] * 2 * bool(at) + ['call'] * 6 * bool(calls) + ['lam'] * 2
            c = rnd.choice(opts)
            if c == 'atom':
                return rnd.choice(at)
            if c == 'call':
                return self.call(rnd.choice(calls), sc, d, loc)
            return self.lam(t, sc, d, loc)
        if k == 'L':
            el, n = t[1], t[2]
            opts = ['atom'] * bool(at) + ['lit'] * 2 + ['map'] * 4 * (d > 0)
            c = rnd.choice(opts)
            if c == 'atom':
                return rnd.choice(at)
            if c == 'lit':
                return ('list', [self.gen(el, sc, max(d - 1, 0), loc) for _ in range(n)])
            srcs = [e for e, et, _ in ps if et == ('L', TI, n)]
            fsrcs = [e for e, et, _ in ps if et == ('L', F1, n)] if el == TI else []
            if fsrcs and rnd.random() < 0.5:          # apply every closure of a list
                p = self.params(1)[0]
                sc2 = dict(sc)
                sc2[p] = F1
                arg = self.small() if rnd.random() < 0.6 else self.gen(TI, sc2, 0, tuple(x for x in loc if x != p))
                return ('map', ('func', [p], ('call', ('ref', p), [arg])), rnd.choice(fsrcs))
            src_ = rnd.choice(srcs) if srcs and rnd.random() < 0.4 else ('list', [('int', x) for x in rnd.sample([1, 2, 3, 4, 5, 10], n)])
            return ('map', self.lam(TF([TI], el), sc, d, loc), src_)
        if k == 'T':
            return ('tuple', [(n, self.gen(ft, sc, max(d - 1, 0), loc)) for n, ft in t[1]])
        raise ValueError(t)

    # ---- statements
    def fresh(self):
        free = [n for n in CNAMES if n not in self.ty and n != 'mod']
        return self.rnd.choice(free) if free else None

    def statement(self):
        """(type, ast) of the value bound by the next statement"""
        rnd = self.rnd
        sc = self.ty
        ps = self.paths(sc)
        makers = [(e, et) for e, et, idx in ps if et[0] == 'F' and et[2][0] == 'F' and not idx]
        intcallables = [(e, et) for e, et, idx in ps if et[0] == 'F' and et[2] == TI and not idx and all(pt == TI for pt in et[1])]
        picks = [(e, et) for e, et, idx in ps if idx and et[0] == 'F']            # a function inside a list (tuple) gets a name of its own
        mods = [n for n, t in sc.items() if t[0] == 'M']
        kinds = ['int'] * 3 + ['func'] * 2 + ['factory'] * (3 if makers else 8) + ['instance'] * 8 * bool(makers) + ['calls'] * 8 * bool(len(intcallables) > 1)
        kinds += ['maplist'] * 2 + ['list'] * 1 * bool(makers) + ['tuple'] * 2 * bool(makers) + ['pick'] * 4 * bool(picks) + ['module'] * 2 + ['inst'] * 6 * bool(mods)
        if self.kinds:
            kinds = [x for x in kinds if x in self.kinds]
        c = rnd.choice(kinds)
        if c == 'int':
            e = self.gen(TI, sc, self.maxdepth)
            for m in self.ambient:
                if rnd.random() < 0.6:
                    e = ('bin', rnd.choice('+-'), e, ('bin', '*', m, self.small()))
            return TI, e
        if c == 'func':
            t = rnd.choice([F1, F1, F2, HO])
            return t, self.lam(t, sc, 2, ())
        if c == 'factory':
            t = rnd.choice([FF1, FF1, FF2, FFF1, WR])
            return t, self.lam(t, sc, 2, ())
        if c == 'instance':
            e, et = rnd.choice(makers)
            return et[2], self.call((e, et), sc, 2, ())
        if c == 'calls':
            # every int function of one type called with the SAME arguments, in a random order, some twice
            t = rnd.choice(sorted(set(et for e, et in intcallables)))
            fs = [e for e, et in intcallables if et == t]
            fs = fs + rnd.sample(fs, min(len(fs), 2))
            rnd.shuffle(fs)
            fs = fs[:5]
            args = [self.small() for _ in t[1]]
            return ('L', TI, len(fs)), ('list', [('call', e, list(args)) for e in fs])
        if c == 'maplist':
            t = ('L', rnd.choice([F1, F1, TI]), rnd.randint(2, 3))
            return t, self.gen(t, sc, 2)
        if c == 'list':
            e, et = rnd.choice(makers)
            n = rnd.randint(2, 3)
            return ('L', et[2], n), ('list', [self.call((e, et), sc, 1, ()) for _ in range(n)])
        if c == 'tuple':
            e, et = rnd.choice(makers)
            fns = rnd.sample(['f', 'g', 'h', 'k', 'n', 'x'], 3)
            t = ('T', ((fns[0], et[2]), (fns[1], et[2]), (fns[2], TI)))
            return t, ('tuple', [(fns[0], self.call((e, et), sc, 1, ())), (fns[1], self.call((e, et), sc, 1, ())), (fns[2], self.gen(TI, sc, 1))])
        if c == 'pick':
            e, et = rnd.choice(picks)
            return et, e
        if c == 'module':
            pnames = self.params(rnd.randint(1, 2))
            pvals = [rnd.randint(1, 9) for _ in pnames]
            sub = CGen(rnd, {'mod': ('T', tuple((n, TI) for n in pnames))}, {'mod': dict(zip(pnames, pvals))},
                       kinds=['int', 'func', 'factory', 'instance', 'calls'], maxdepth=2, field_calls=self.field_calls)
            for _ in range(rnd.randint(2, 4)):
                sub.step()
            if not sub.lets:
                return None
            t = ('M', tuple(pnames), ('T', tuple((n, sub.ty[n]) for n, _ in sub.lets)))
            return t, ('module', [(n, ('int', v)) for n, v in zip(pnames, pvals)], list(sub.lets))
        if c == 'inst':
            m = rnd.choice(mods)
            over = [(n, self.small() if rnd.random() < 0.7 else self.gen(TI, sc, 1)) for n in sc[m][1] if rnd.random() < 0.75]
            return sc[m][2], ('inst', ('ref', m), over)
        raise ValueError(c)

    def step(self):
        name = self.fresh()
        if name is None:
            return False
        for _ in range(6):
            st = self.statement()
            if st is None:
                continue
            t, a = st
            try:
                v = cev(a, self.env)
            except TooBig:
                continue
            self.ty[name] = t
            self.env[name] = v
            self.lets.append((name, a))
            self.stmts.append('let %s = %s;' % (name, csrc(a)))
            self.after.append(dict((n, cshow(x)) for n, x in self.env.items() if n != 'mod'))
            return True
        return False


def closure_programs(rnd, n, length, field_calls=True):
    out = []
    for _ in range(n):
        g = CGen(rnd, field_calls=field_calls)
        while len(g.stmts) < length and g.step():
            pass
        out.append(g)
    return out


CLOSURE_GEN_BOUND = ('%d seeded typed programs of <= %d statements over ints, functions, function factories of depth <= 3, instances of factories, lists of closures built by map '
                     'callbacks and list literals, tuples holding closures, functions taking / wrapping closures, closures picked out of lists, modules whose bodies define closures '
                     'over `mod` and several instantiations of each; arguments from a pool of 5 ints so that closures of one `func` expression are called with equal arguments, '
                     'in random order and repeatedly; parameter names from a pool of %d that coincide with outer bindings (inner scopes shadow without rebinding)')


def standin_closure_prefixes(tier, seed):
    """reference interpreter vs the real evaluation, every prefix of every program"""
    rnd = random.Random(seed + 77)
    progs = closure_programs(rnd, 150 if tier == 'thorough' else 30, 12)
    cases, meta = [], []
    for g in progs:
        for k in range(1, len(g.stmts) + 1):
            cases.append('\n'.join(g.stmts[:k]))
            meta.append((g, k))
    order = sorted(range(len(cases)), key=lambda i: len(cases[i]))            # the shortest failing input is the one reported
    cases, meta = [cases[i] for i in order], [meta[i] for i in order]
    res = R.driver('eval', cases)
    bound = CLOSURE_GEN_BOUND % (len(progs), 12, len(CPARAMS)) + ', cut at every statement boundary'
    for src_, (g, k), (st, out) in zip(cases, meta, res):
        exp = g.after[k - 1]
        got = cfields(out) if st == 'OK' else None
        if got != exp:
            whole = '\n'.join(g.stmts)
            why = 'status %s %s' % (st, out[:200]) if got is None else '; '.join(
                ['%s = %s, expected %s' % (n, got.get(n, '(unbound)'), exp.get(n, '(unbound)')) for n in sorted(set(got) | set(exp)) if got.get(n) != exp.get(n)])
            return dict(name='closure_prefixes', bound=bound, cases=len(cases), status='violation',
                        detail='after the first %d statement(s) of `%s`: %s' % (k, whole.replace('\n', ' '), why.replace('\n', ' ')),
                        input=dict(source=src_, whole_program=whole, expected=json.dumps(exp, sort_keys=True), observed='%s %s' % (st, out[:600]), how=HOW['eval']))
    return dict(name='closure_prefixes', bound=bound, cases=len(cases), status='ok')


def pinned(stmts, envs_after):
    """the program with `select (path == value) => {true = 1}` after each binding and again at the end (no default: a different value is a build error)"""
    lines, tail, n, prev = [], [], 0, set()
    for s, aft in zip(stmts, envs_after):
        lines.append(s)
        for x, v in aft.items():
            if x in prev:
                continue
            for path, val in pins(x, v):
                lines.append('let chk%d = select (%s == %s) => {true = 1};' % (n, path, val)); n += 1
                tail.append('let chk%d = select (%s == %s) => {true = 1};' % (n, path, val)); n += 1
        prev = set(aft)
    return '\n'.join(lines + tail)


def judge_build(name, bound, cases, res):
    """every program must build; a program the TYPE CHECKER refuses ("Type error: ..", before anything is evaluated) is not an evaluation result:
    isolated refusals of valid generated programs are known (KNOWN_TYPECHECK_RARE) and skipped, more than max(2, 5%) of a run is reported"""
    refused = []
    for src_, (st, out) in zip(cases, res):
        if st != 'OK':
            if st == 'ERR' and out.startswith('Type error'):
                refused.append((src_, st, out))
                continue
            return dict(name=name, bound=bound, cases=len(cases), status='violation',
                        detail='a valid program whose bindings are pinned to their reference values does not build: %s %s' % (st, out[:300].replace('\n', ' ')),
                        input=dict(source=src_, expected='builds (every chkN select finds its `true` case)', observed='%s %s' % (st, out[:600]), how=HOW['buildfile']))
    if len(refused) > max(2, len(cases) // 20):
        src_, st, out = refused[0]
        return dict(name=name, bound=bound, cases=len(cases), status='violation',
                    detail='the type checker refuses %d of %d valid programs, the first one: %s %s' % (len(refused), len(cases), st, out[:300].replace('\n', ' ')),
                    input=dict(source=src_, expected='builds', observed='%s %s' % (st, out[:600]), how=HOW['buildfile']))
    return dict(name=name, bound=bound, cases=len(cases), status='ok', detail='%d program(s) refused by the type checker and skipped (KNOWN_TYPECHECK_RARE)' % len(refused))


def standin_closure_build(tier, seed):
    rnd = random.Random(seed + 1077)
    progs = closure_programs(rnd, 300 if tier == 'thorough' else 60, 12, field_calls=False)       # KNOWN_FIELD_CALL
    cases = []
    for g in progs:
        envs, env = [], {}
        for n, a in g.lets:
            env[n] = g.env[n]
            envs.append(dict(env))
        cases.append(pinned(g.stmts, envs))
    cases.sort(key=len)
    res = R.driver('buildfile', cases)
    bound = CLOSURE_GEN_BOUND % (len(progs), 12, len(CPARAMS)) + '; every int / int list (also inside tuples and lists) pinned to the reference value right after its binding and again at the end of the file'
    return judge_build('closure_build', bound, cases, res)


# ------------------------------------------------------------------ closures: the deterministic part (templates x captured values x call orders)
def closure_cases(tier):
    """(program, {name: canonical value}, uses_field_call): two or more function values made by ONE `func` expression under different captured
    values, called with EQUAL arguments; the expected values are computed here from the captured value of each instance"""
    cs = []

    def add(prog, exp, field_call=False):
        cs.append((prog, dict((n, cshow(v)) for n, v in exp.items()), field_call))
    ops = [('+', lambda x, n: x + n), ('*', lambda x, n: x * n)]
    pairs = [(1, 10), (3, 2)] if tier != 'thorough' else [(1, 10), (3, 2), (0, 7), (4, 5)]
    gaps = ['', 'let k1 = 1;\n'] if tier != 'thorough' else ['', 'let k1 = 1;\n', 'let k1 = func (x) => x;\nlet k2 = k1(5);\n']
    w = 5
    for (osym, o) in ops:
        for (u, v) in pairs:
            body = 'x %s n' % osym
            mk = 'let mk = func (n) => func (x) => %s;\n' % body
            for G in gaps:
                # A. one factory, two instances, every call order of length 3 that uses both, as separate statements
                for order in ('112', '121', '122', '211', '212', '221'):
                    prog = mk + 'let c1 = mk(%d);\n%slet c2 = mk(%d);\n' % (u, G, v)
                    exp = {}
                    for i, ch in enumerate(order):
                        prog += 'let r%d = c%s(%d);\n' % (i, ch, w)
                        exp['r%d' % i] = o(w, u if ch == '1' else v)
                    add(prog, exp)
                # the second instance is made only after the first one was called (and the other way round)
                add(mk + 'let c1 = mk(%d);\nlet a = c1(%d);\n%slet c2 = mk(%d);\nlet b = c2(%d);\nlet c = c1(%d);' % (u, w, G, v, w, w), {'a': o(w, u), 'b': o(w, v), 'c': o(w, u)})
                add(mk + 'let c2 = mk(%d);\nlet b = c2(%d);\n%slet c1 = mk(%d);\nlet a = c1(%d);\nlet c = c2(%d);' % (v, w, G, u, w, w), {'a': o(w, u), 'b': o(w, v), 'c': o(w, v)})
                # all calls inside one list / one expression
                add(mk + 'let c1 = mk(%d);\nlet c2 = mk(%d);\n%slet r = [c1(%d), c2(%d), c1(%d), c2(%d)];\nlet s = c1(%d) * 1000 + c2(%d);' % (u, v, G, w, w, w, w, w, w),
                    {'r': [o(w, u), o(w, v), o(w, u), o(w, v)], 's': o(w, u) * 1000 + o(w, v)})
                # D. built by a map callback / by reduce; applied by map, by reduce, after picking them out of the list
                add('let fs = map(func (n) => func (x) => %s, [%d, %d, %d]);\n%slet r = map(func (f) => f(%d), fs);\nlet g = fs.0;\nlet h = fs.1;\nlet s = [g(%d), h(%d), g(%d)];\n'
                    'let z = reduce(func (acc, f) => acc * 100 + f(%d), 0, fs);' % (body, u, v, u, G, w, w, w, w, w),
                    {'r': [o(w, u), o(w, v), o(w, u)], 's': [o(w, u), o(w, v), o(w, u)], 'z': (o(w, u) * 100 + o(w, v)) * 100 + o(w, u)})
                add('let fs = reduce(func (acc, n) => acc + [func (x) => %s], [], [%d, %d]);\n%slet r = map(func (f) => f(%d), fs);\nlet h = fs.1;\nlet g = fs.0;\nlet s = [h(%d), g(%d)];' % (body, u, v, G, w, w, w),
                    {'r': [o(w, u), o(w, v)], 's': [o(w, v), o(w, u)]})
                add('let n = 100;\nlet fs = map(func (n) => func (x) => %s, [%d, %d]);\n%slet f2 = fs.0;\nlet f3 = fs.1;\nlet r = [f2(%d), f3(%d)];\nlet after = n;' % (body, u, v, G, w, w),
                    {'r': [o(w, u), o(w, v)], 'after': 100, 'n': 100})
                # E / F. held by tuples and lists
                add(mk + 'let t = {f = mk(%d), g = mk(%d)};\n%slet r = [t.f(%d), t.g(%d), t.f(%d)];' % (u, v, G, w, w, w), {'r': [o(w, u), o(w, v), o(w, u)]}, True)
                add(mk + 'let t = {a = {f = mk(%d)}, b = {f = mk(%d)}};\n%slet r = [t.b.f(%d), t.a.f(%d)];' % (u, v, G, w, w), {'r': [o(w, v), o(w, u)]}, True)
                add(mk + 'let t = {f = mk(%d), g = mk(%d)};\n%slet tf = t.f;\nlet tg = t.g;\nlet r = [tf(%d), tg(%d), tf(%d)];' % (u, v, G, w, w, w), {'r': [o(w, u), o(w, v), o(w, u)]})
                add(mk + 'let l = [mk(%d), mk(%d)];\n%slet l1 = l.1;\nlet l0 = l.0;\nlet r = [l0(%d), l1(%d)];\nlet s = map(func (f) => f(%d), l);' % (u, v, G, w, w, w), {'r': [o(w, u), o(w, v)], 's': [o(w, u), o(w, v)]})
                # G / H. called from inside another function, a map callback, a reduce callback (each runs on its own)
                add(mk + 'let c1 = mk(%d);\nlet c2 = mk(%d);\n%slet both = func (x) => [c1(x), c2(x), c1(x)];\nlet r = both(%d);\nlet again = both(%d);' % (u, v, G, w, w),
                    {'r': [o(w, u), o(w, v), o(w, u)], 'again': [o(w, u), o(w, v), o(w, u)]})
                add(mk + 'let c1 = mk(%d);\nlet c2 = mk(%d);\n%slet r = map(func (i) => c1(i) * 1000 + c2(i), [%d, %d, 1]);' % (u, v, G, w, w),
                    {'r': [o(w, u) * 1000 + o(w, v), o(w, u) * 1000 + o(w, v), o(1, u) * 1000 + o(1, v)]})
                add(mk + 'let use = func (k) => mk(k);\nlet d1 = use(%d);\n%slet d2 = use(%d);\nlet r = [d1(%d), d2(%d)];' % (u, G, v, w, w), {'r': [o(w, u), o(w, v)]})
                # J. closures wrapping / receiving closures
                add(mk + 'let c1 = mk(%d);\nlet c2 = mk(%d);\n%slet wrap = func (f) => func (x) => f(x) + 1;\nlet w1 = wrap(c1);\nlet w2 = wrap(c2);\nlet r = [w1(%d), w2(%d), w1(%d)];\n'
                    'let twice = func (f, x) => f(f(x));\nlet s = [twice(c1, %d), twice(c2, %d)];' % (u, v, G, w, w, w, w, w),
                    {'r': [o(w, u) + 1, o(w, v) + 1, o(w, u) + 1], 's': [o(o(w, u), u), o(o(w, v), v)]})
                # K. an alias is the same function; a parameter called like an outer binding hides it inside only
                add('let n = 100;\nlet x = 200;\n' + mk + 'let c1 = mk(%d);\n%slet c2 = mk(%d);\nlet alias = c1;\nlet r = [c1(%d), alias(%d), c2(%d)];\nlet after = [n, x];' % (u, G, v, w, w, w),
                    {'r': [o(w, u), o(w, u), o(w, v)], 'after': [100, 200]})
                add('let mk = func (n) => func (x) => map(func (n) => %s, [n, n + 1]);\nlet c1 = mk(%d);\n%slet c2 = mk(%d);\nlet r = [c1(%d), c2(%d)];' % ('n %s x' % osym, u, G, v, w, w),
                    {'r': [[o(u, w), o(u + 1, w)], [o(v, w), o(v + 1, w)]]})
                # R. made in the branches of a select
                add(mk + 'let pick = func (b) => select (b, 0) => {true = mk(%d), false = mk(%d)};\n%slet s1 = pick(true);\nlet s2 = pick(false);\nlet r = [s1(%d), s2(%d), s1(%d)];' % (u, v, G, w, w, w),
                    {'r': [o(w, u), o(w, v), o(w, u)]})
                # I. module instances: every instantiation is evaluated afresh over its own `mod`
                m = 'let m = module {k = 1} => { let f = func (x) => x %s mod.k; let r = f(%d); let mk = func (n) => func (x) => n * 100 + (x %s mod.k); let g = mk(2); };\n' % (osym, w, osym)
                add(m + 'let i1 = m{k = %d};\n%slet i2 = m{k = %d};\nlet i0 = m{};\nlet i3 = m{k = %d};\nlet r = [i1.r, i2.r, i0.r, i3.r];' % (u, G, v, u), {'r': [o(w, u), o(w, v), o(w, 1), o(w, u)]})
                add(m + 'let i1 = m{k = %d};\n%slet i2 = m{k = %d};\nlet r = [i1.f(%d), i2.f(%d), i1.g(%d), i2.g(%d), i1.f(%d)];' % (u, G, v, w, w, w, w, w),
                    {'r': [o(w, u), o(w, v), 200 + o(w, u), 200 + o(w, v), o(w, u)]}, True)
                add(m + 'let i1 = m{k = %d};\n%slet i2 = m{k = %d};\nlet f1 = i1.f;\nlet f2 = i2.f;\nlet g1 = i1.g;\nlet g2 = i2.g;\nlet r = [f1(%d), f2(%d), g1(%d), g2(%d), f1(%d)];' % (u, G, v, w, w, w, w, w),
                    {'r': [o(w, u), o(w, v), 200 + o(w, u), 200 + o(w, v), o(w, u)]})
                add('let m = module {k = 1} => (f) { let f = func (x) => x %s mod.k; };\nlet f1 = m{k = %d};\n%slet f2 = m{k = %d};\nlet f0 = m{};\nlet r = [f1(%d), f2(%d), f0(%d), f1(%d)];' % (osym, u, G, v, w, w, w, w),
                    {'r': [o(w, u), o(w, v), o(w, 1), o(w, u)]})
            # B / C. deeper factories: every partial application is a function value of its own
            add('let mk = func (a) => func (b) => func (c) => (a * 100 + b * 10) %s c;\nlet m1 = mk(%d);\nlet m2 = mk(%d);\nlet p = m1(3);\nlet q = m2(3);\nlet p2 = m1(4);\n'
                'let r = [p(%d), q(%d), p2(%d), p(%d)];' % (osym, u, v, w, w, w, w), {'r': [o(u * 100 + 30, w), o(v * 100 + 30, w), o(u * 100 + 40, w), o(u * 100 + 30, w)]})
            lines = ['let mk = func (a) => func (b) => func (c) => func (d) => (a * 1000 + b * 100 + c * 10) %s d;' % osym]
            exp, names = [], []
            for a in (u, v):
                lines.append('let m%d = mk(%d);' % (a, a))
                for b in (u, v):
                    lines.append('let m%d_%d = m%d(%d);' % (a, b, a, b))
                    for c in (u, v):
                        lines.append('let m%d_%d_%d = m%d_%d(%d);' % (a, b, c, a, b, c))
                        names.append('m%d_%d_%d' % (a, b, c))
                        exp.append(o(a * 1000 + b * 100 + c * 10, w))
            lines.append('let r = [%s];' % ', '.join('%s(%d)' % (n, w) for n in names))
            lines.append('let s = [%s];' % ', '.join('%s(%d)' % (n, w) for n in reversed(names)))
            add('\n'.join(lines), {'r': exp, 's': list(reversed(exp))})
            # M. two captured values of which only one differs
            add('let mk = func (a, b) => func (x) => (a * 100 + b * 10) %s x;\nlet c1 = mk(%d, %d);\nlet c2 = mk(%d, %d);\nlet c3 = mk(%d, %d);\nlet r = [c1(%d), c2(%d), c3(%d), c1(%d)];' % (osym, u, u, u, v, v, u, w, w, w, w),
                {'r': [o(u * 110, w), o(u * 100 + v * 10, w), o(v * 100 + u * 10, w), o(u * 110, w)]})
    # L. captured values of other types
    add('let pre = func (s) => func (x) => s + x;\nlet a = pre("a");\nlet b = pre("b");\nlet r = [a("z"), b("z"), a("z")];', {'r': ['az', 'bz', 'az']})
    add('let app = func (l) => func (i) => l + [i];\nlet a = app([1]);\nlet b = app([2, 3]);\nlet r = [a(9), b(9), a(9)];', {'r': [[1, 9], [2, 3, 9], [1, 9]]})
    add('let get = func (t) => func (k) => t.v + k;\nlet a = get({v = 1});\nlet b = get({v = 20});\nlet r = [a(5), b(5), a(5)];', {'r': [6, 25, 6]})
    add('let gate = func (b) => func (x) => select (b, 0) => {true = x};\nlet a = gate(true);\nlet b = gate(false);\nlet r = [a(5), b(5), a(5)];', {'r': [5, 0, 5]})
    add('let fmt = func (p) => func (x) => "@-@" % (p, x);\nlet a = fmt("l");\nlet b = fmt(2);\nlet r = [a(5), b(5), a(5)];', {'r': ['l-5', '2-5', 'l-5']})
    add('let sel = func (t) => func (x) => t{w = self.v + x};\nlet a = sel({v = 1});\nlet b = sel({v = 20});\nlet r = [a(5).w, b(5).w, a(5).w];', {'r': [6, 25, 6]})
    return cs


def check_closure_cases(mode, tier, name):
    cs = [c for c in closure_cases(tier) if mode == 'eval' or not c[2]]          # KNOWN_FIELD_CALL
    progs = []
    for p, exp, _ in cs:
        if mode == 'buildfile':
            p = p.rstrip('\n') + ''.join('\nlet chk%d = select (%s == %s) => {true = 1};' % (i, n, re.sub(r'([,=])', r'\1 ', v)) for i, (n, v) in enumerate(sorted(exp.items())))
        progs.append(p)
    res = R.driver(mode, progs)
    bound = ('%d programs: {x + n, x * n} x captured pairs x gaps of unrelated statements x {two instances of one factory in all 6 call orders of length 3, second instance made after the first was '
             'called, calls in one list / one expression, closures built by map and by reduce callbacks (applied by map, by reduce, after being picked out), held by tuples, nested tuples and lists, '
             'called from a function body / map callback, made through a second function, wrapped by and passed to closures, aliased, parameters named like outer bindings, made in select branches, '
             'module instances with different parameters (plain, with closures, with a closure as out-expression)}; factories of depth 3 and 4 with all partial applications; two captured values; '
             'captured strings, lists, tuples, booleans' % len(progs))
    for p, (_, exp, _), (st, out) in zip(progs, cs, res):
        bad = None
        if st != 'OK':
            bad = 'must build, observed %s %s' % (st, out[:200].replace('\n', ' '))
        elif mode == 'eval':
            got = cfields(out) or {}
            wrong = ['%s = %s, expected %s' % (n, got.get(n, '(unbound)'), v) for n, v in sorted(exp.items()) if got.get(n) != v]
            if wrong:
                bad = '; '.join(wrong)
        if bad:
            return dict(name=name, bound=bound, cases=len(progs), status='violation', detail='`%s`: %s' % (p.replace('\n', ' '), bad),
                        input=dict(source=p, expected=json.dumps(exp, sort_keys=True), observed='%s %s' % (st, out[:400]), how=HOW[mode]))
    return dict(name=name, bound=bound, cases=len(progs), status='ok')


def standin_closure_cases_eval(tier, seed):
    return check_closure_cases('eval', tier, 'closure_cases_eval')


def standin_closure_cases_build(tier, seed):
    return check_closure_cases('buildfile', tier, 'closure_cases_build')


def standin_format_item_forms(tier, seed):
    """`item` inside an expression format names the format argument in EVERY syntactic role (plain, selector base, copy base, callee, list
    element, select value, nested in a call argument), whether or not an outer `item` exists, and is gone afterwards."""
    forms = [  # (template expression, argument expression, expected text)
        ('item', '7', '7'), ('item + 1', '7', '8'), ('item.a', '{a = 3}', '3'), ('item{b = 2}.b', '{a = 1}', '2'), ('item{b = 2}.a', '{a = 1}', '1'),
        ('item(2)', 'inc', '3'), ('inc(item)', '4', '5'), ('[item].0', '6', '6'), ('(item)', '9', '9'), ('select (item, 0) => {x = 1}', '"x"', '1'),
        ('item.0 + item.1', '[1, 2]', '3'), ('inc(item{n = 1}.n)', '{}', '2'),
    ]
    outers = ['', 'let item = {a = 90, b = 91, n = 92};\n', 'let item = 1000;\n', 'let item = func(q) => q + 100;\n']
    cases, exp = [], []
    for te, arg, want in forms:
        for outer in outers:
            src = 'let inc = func(x) => x + 1;\n%slet r = "<@{%s}>" %% %s;\n' % (outer, te, arg)
            cases.append(src)
            exp.append(('r', '"<%s>"' % want, None))
            # afterwards: the outer binding is what it was / no binding at all
            if outer:
                cases.append(src + 'let same = item;\nlet r2 = "<@{%s}>" %% %s;\n' % (te, arg))
                exp.append(('r2', '"<%s>"' % want, None))
            else:
                cases.append(src + 'let leak = item;\n')
                exp.append((None, None, 'ERR'))
    res = R.driver('eval', cases)
    bound = '%d programs: %d uses of `item` inside `"<@{...}>" %% arg` (plain, selector / copy base, callee, argument, list element, select value) x no outer `item` / an outer tuple / int / function; plus the state afterwards' % (len(cases), len(forms))
    for src, (name, want, st), (rst, out) in zip(cases, exp, res):
        if st == 'ERR':
            if rst == 'OK':
                return dict(name='format_item_forms', bound=bound, cases=len(cases), status='violation', detail='`item` is still bound after the format expression: %s' % src.replace('\n', ' '),
                            input=dict(source=src, expected='an error (no binding item)', observed=out, how=HOW['eval']))
            continue
        flat = norm(out) if rst == 'OK' else ''
        if rst != 'OK' or ('%s=%s' % (name, want)) not in flat:
            return dict(name='format_item_forms', bound=bound, cases=len(cases), status='violation',
                        detail='%s -> %s %s, expected %s = %s' % (src.replace('\n', ' '), rst, out[:160].replace('\n', ' '), name, want),
                        input=dict(source=src, expected='%s = %s' % (name, want), observed='%s %s' % (rst, out), how=HOW['eval']))
    return dict(name='format_item_forms', bound=bound, cases=len(cases), status='ok')


STANDINS = [standin_format_item_forms, standin_prefix_values, standin_prefix_values_build, standin_scope_eval, standin_scope_build, standin_reserved_positions, standin_golden_prefixes,
            standin_closure_cases_eval, standin_closure_cases_build, standin_closure_prefixes, standin_closure_build]
