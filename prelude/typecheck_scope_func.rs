// ---- prelude/typecheck_scope_func.rs: what typing a function definition does to the scopes (C10) (inside verus!) ----
pub type ArgDefs = Seq<(PositionedItem<Rc<str>>, Option<Expression>)>;

// The constraint expressions of the parameters (`func (x :: c, ..) => ..`) belong to the scope the function is DEFINED in:
// they are typed in the caller's table, in parameter order. outer_after(a, t, n): the caller's table after the first n.
pub open spec fn outer_after(a: ArgDefs, t: SymMap, n: nat) -> SymMap
    decreases n
{
    if n == 0 || n > a.len() { t } else {
        let p = outer_after(a, t, (n - 1) as nat);
        match a[n - 1].1 { Some(c) => ds_tab(c, p), None => p }
    }
}
// the declared shape of parameter i: its constraint's shape, else a type hole named after the parameter
pub open spec fn param_shape(a: ArgDefs, t: SymMap, i: int) -> Shape {
    match a[i].1 { Some(c) => ds_shape(c, outer_after(a, t, i as nat)), None => Shape::Hole(a[i].0) }
}
pub open spec fn params_map(a: ArgDefs, t: SymMap, n: nat) -> SymMap
    decreases n
{
    if n == 0 || n > a.len() { Map::empty() } else {
        params_map(a, t, (n - 1) as nat).insert(a[n - 1].0.val, param_shape(a, t, n - 1))
    }
}
pub open spec fn param_names(a: ArgDefs) -> Seq<Rc<str>> {
    Seq::new(a.len(), |i: int| a[i].0.val)
}
pub open spec fn no_param_constraints(a: ArgDefs) -> bool {
    forall|i: int| 0 <= i < a.len() ==> (#[trigger] a[i]).1 is None
}
// C10, "a function sees the bindings that existed where it was defined plus its arguments": the table the body is typed
// in. A parameter HIDES an outer binding of the same name (the right operand wins).
pub open spec fn body_scope(a: ArgDefs, t: SymMap) -> SymMap {
    outer_after(a, t, a.len()).union_prefer_right(params_map(a, t, a.len()))
}

// the table the body leaves (its entries under the parameter names are the parameter shapes the body inferred)
pub open spec fn body_tab(f: FuncDef, t: SymMap) -> SymMap {
    ds_tab(*f.fields, body_scope(f.argdefs@, t))
}
// r is x with the holes named after `names` closed, re-positioned
pub open spec fn closed_repos(x: Shape, r: Shape, names: Seq<Rc<str>>) -> bool {
    exists|c: Shape| #[trigger] closes(x, c, names) && same_but_top_pos(c, r)
}

pub open spec fn func_scope_post(f: FuncDef, t0: SymMap, t1: SymMap, r: Shape) -> bool {
    let a = f.argdefs@;
    let names = param_names(a);
    // NOTHING of the function's inside reaches the caller's table: it is what typing the parameters' constraint expressions
    // (outer-scope expressions) left (and exactly the old table if no parameter carries a constraint: lemma_func_no_leak)
    &&& t1 == outer_after(a, t0, a.len())
    &&& r matches Shape::Func(d)
    // parameters in declaration order
    &&& d.arg_order@ == names
    // one shape per parameter name: the one the body left in ITS OWN table, parameter holes closed
    &&& d.args@.dom() =~= params_map(a, t0, a.len()).dom()
    &&& (forall|k: Rc<str>| d.args@.contains_key(k) ==> closed_repos(body_tab(f, t0)[k], #[trigger] d.args@[k], names))
    // the result shape: the shape the body has IN THE BODY SCOPE (outer bindings + parameters, parameters win), parameter
    // holes closed
    &&& closed_repos(ds_shape(*f.fields, body_scope(a, t0)), *d.ret, names)
}

// What the contract buys (C10): no type hole named after a parameter leaves the function - neither in a parameter's shape
// nor in the result shape - and a function without parameter constraints leaves the caller's table exactly as it was.
pub proof fn lemma_func_no_leak(f: FuncDef, t0: SymMap, t1: SymMap, r: Shape)
    requires func_scope_post(f, t0, t1, r)
    ensures
        r is Func,
        nph(*r->Func_0.ret, param_names(f.argdefs@)),
        forall|k: Rc<str>| r->Func_0.args@.contains_key(k) ==> nph(#[trigger] r->Func_0.args@[k], param_names(f.argdefs@)),
        no_param_constraints(f.argdefs@) ==> t1 == t0,
{
    let a = f.argdefs@;
    let names = param_names(a);
    let d = r->Func_0;
    lemma_closed_repos_nph(ds_shape(*f.fields, body_scope(a, t0)), *d.ret, names);
    assert forall|k: Rc<str>| d.args@.contains_key(k) implies nph(#[trigger] d.args@[k], names) by {
        lemma_closed_repos_nph(body_tab(f, t0)[k], d.args@[k], names);
    }
    if no_param_constraints(a) { lemma_outer_after_unconstrained(a, t0, a.len()); }
}
pub proof fn lemma_closed_repos_nph(x: Shape, r: Shape, names: Seq<Rc<str>>)
    requires closed_repos(x, r, names)
    ensures nph(r, names)
{
    let c = choose|c: Shape| #[trigger] closes(x, c, names) && same_but_top_pos(c, r);
    lemma_closes_nph(x, c, names);
    lemma_same_but_top_pos_nph(c, r, names);
}

pub proof fn lemma_outer_after_unconstrained(a: ArgDefs, t: SymMap, n: nat)
    requires no_param_constraints(a), n <= a.len()
    ensures outer_after(a, t, n) == t
    decreases n
{
    if n > 0 { lemma_outer_after_unconstrained(a, t, (n - 1) as nat); }
}
// a parameter name is bound in the body scope to the parameter's declared shape unless a LATER parameter has the same name;
// in particular never to an outer binding
pub proof fn lemma_params_map_has(a: ArgDefs, t: SymMap, n: nat, j: int)
    requires 0 <= j < n <= a.len()
    ensures params_map(a, t, n).contains_key(a[j].0.val)
    decreases n
{
    if j < n - 1 { lemma_params_map_has(a, t, (n - 1) as nat, j); }
}
pub proof fn lemma_param_hides_outer(a: ArgDefs, t: SymMap, j: int)
    requires 0 <= j < a.len()
    ensures
        body_scope(a, t).contains_key(a[j].0.val),
        body_scope(a, t)[a[j].0.val] == params_map(a, t, a.len())[a[j].0.val],
{
    lemma_params_map_has(a, t, a.len(), j);
}
