"""Run the units of a property through Verus, with canaries, and write evidence."""
import concurrent.futures as cf
import glob
import importlib.util
import json
import os
import random
import re
import subprocess
import sys
import time

sys.path.insert(0, os.path.dirname(os.path.abspath(__file__)))
import assemble as A  # noqa: E402

VERIF = A.VERIF
import hashlib
_REPO = os.path.realpath(os.environ.get('VERIF_REPO', '/repo'))
# one scratch area per repository tree AND per process, so that concurrent runs never share assembled files
CACHE = os.path.join(VERIF, '.cache', 'run_%s_%d' % (hashlib.sha1(_REPO.encode()).hexdigest()[:8], os.getpid()))
UNITS = os.path.join(VERIF, 'units')
VERUS_FLAGS = ['--output-json', '--time', '--multiple-errors', '20', '--triggers-mode', 'silent', '--rlimit', '40']   # 4x the default resource limit: head-room for the heaviest lemma (deterministic, not time based)


def load_hooks():
    p = os.path.join(UNITS, 'hooks.py')
    if not os.path.exists(p):
        return None
    spec = importlib.util.spec_from_file_location('unit_hooks', p)
    mod = importlib.util.module_from_spec(spec)
    spec.loader.exec_module(mod)
    return mod


def enabled_units():
    """Units listed in units/enabled.txt take part in checks (others are work in progress).
    VERIF_ALL_UNITS=1 lifts the filter (used while developing a unit)."""
    p = os.path.join(UNITS, 'enabled.txt')
    if os.environ.get('VERIF_ALL_UNITS') or not os.path.exists(p):
        return None
    return set(x.strip() for x in open(p) if x.strip() and not x.startswith('#'))


def units_serving(pid):
    res = []
    en = enabled_units()
    for p in sorted(glob.glob(os.path.join(UNITS, '*.unit.rs'))):
        if en is not None and os.path.basename(p)[:-len('.unit.rs')] not in en:
            continue
        txt = open(p).read()
        m = re.search(r'^//@ serves (.*)$', txt, re.M)
        if m and pid in m.group(1).split():
            res.append(p)
    return res


def run_verus(path, rlimit=None, timeout=600):
    cmd = ['verus', path] + VERUS_FLAGS
    if rlimit:
        cmd += ['--rlimit', str(rlimit)]
    t0 = time.time()
    try:
        p = subprocess.run(cmd, capture_output=True, text=True, timeout=timeout, cwd=os.path.dirname(path))
        out, err, rc = p.stdout, p.stderr, p.returncode
    except subprocess.TimeoutExpired as e:
        out, err, rc = '', 'TIMEOUT after %ds' % timeout, 124
    dt = time.time() - t0
    try:
        js = json.loads(out)
    except Exception:
        js = None
    return dict(cmd=' '.join(cmd), rc=rc, json=js, stderr=err, wall=dt)


def breakdown(js, crate):
    """{fn suffix: dict(success, time_us, rlimit, mode)} for functions of this crate."""
    res = {}
    if not js or 'times-ms' not in js:
        return res
    for m in js['times-ms'].get('smt', {}).get('smt-run-module-times', []):
        for f in m.get('function-breakdown', []):
            name = f['function']
            if not name.startswith(crate + '::'):
                continue
            name = name[len(crate) + 2:]
            ent = res.setdefault(name, dict(success=True, time_us=0, rlimit=0, mode=f.get('mode:', '?')))
            ent['success'] = ent['success'] and bool(f.get('success', True))
            ent['time_us'] += f.get('time-micros', 0)
            ent['rlimit'] += f.get('rlimit', 0)
    return res


ERR_RE = re.compile(r'^(error|warning)(\[[A-Z0-9]+\])?: (.*)$')


def error_blocks(stderr):
    blocks, cur = [], None
    for ln in stderr.split('\n'):
        m = ERR_RE.match(ln)
        if m:
            if cur:
                blocks.append(cur)
            cur = dict(level=m.group(1), msg=m.group(3), lines=[ln], loc=None)
        elif cur is not None:
            cur['lines'].append(ln)
            mm = re.match(r'\s*--> (.*?):(\d+):(\d+)', ln)
            if mm and cur['loc'] is None:
                cur['loc'] = (mm.group(1), int(mm.group(2)))
    if cur:
        blocks.append(cur)
    return [b for b in blocks if b['level'] == 'error' and not b['msg'].startswith('aborting due to')]


VERIF_ERR_PREFIXES = (
    'postcondition not satisfied', 'precondition not satisfied', 'assertion failed', 'invariant not satisfied',
    'loop invariant', 'possible arithmetic', 'possible division', 'possible bit shift', 'decreases not satisfied',
    'could not prove termination', 'possible overflow', 'recommendation not met', 'unreachable',
    'cannot show invariant', 'possible underflow', 'value may be out of range', 'assertion not', 'loop ensures',
    'possible truncation', 'possible mod by zero', 'index out of bounds', 'failed precondition',
    'constructed value may fail', 'possible out of bounds')


def is_resource_error(b):
    m = b['msg'].lower()
    return 'rlimit' in m or 'resource limit' in m or 'timed out' in m or 'solver' in m


def find_fn_for_line(ex, line):
    for r in ex.records:
        a, b = r['out_lines']
        if a <= line <= b:
            return r
    return None


class UnitResult:
    pass

NOT_SUPPORTED_RE = re.compile(r"error: `([^`]+)` is not supported.*?The following declaration may resolve this error:\n(.*?)\n\n", re.S)
MISSING_FN_RE = re.compile(r"error\[E0425\]: cannot find function `(\w+)` in this scope")
MISSING_VALUE_RE = re.compile(r"error\[E0425\]: cannot find value `([A-Z][A-Z0-9_]*)` in this scope")


def auto_repair(text, stderr, ex, done):
    """One round of automatic repair of an assembled unit that Verus could not take:
    (a) std functions without a vstd spec get the havoc `assume_specification` Verus itself proposes
        (no ensures: an over-approximation, sound for a passing proof);
    (b) a helper function of the same source file that the unit did not extract is extracted verbatim
        (rules R0 R1 R3, no contract).
    Returns (new_text, [descriptions]) or (None, [])."""
    adds, notes = [], []
    for m in NOT_SUPPORTED_RE.finditer(stderr):
        fn, decl = m.group(1), m.group(2)
        decl = ' '.join(l.strip() for l in decl.split('\n')).strip()
        if not decl.startswith('pub assume_specification') or fn in done:
            continue
        done.add(fn)
        decl = decl.rstrip(',; ') + ';'
        decl = re.sub(r'\s+where\s+(.*?);$', lambda mm: ' where ' + mm.group(1).rstrip(', ') + ';', decl)
        adds.append('// auto-repair: havoc specification proposed by Verus for an unsupported std function\n' + decl)
        notes.append('havoc spec for ' + fn)
    for m in MISSING_FN_RE.finditer(stderr):
        fn = m.group(1)
        if fn in done:
            continue
        done.add(fn)
        for rec in ex.records:
            if rec['file'].startswith('dep:'):
                continue
            try:
                sf = A.load_source(rec['file'])
            except Exception:
                continue
            found = [it for it in sf.items if it.kind == 'fn' and it.name == fn and 'cfg(test)' not in it.attr_text().replace(' ', '')]
            if len(found) == 1:
                log = []
                t = found[0].text
                for rule in ('R0', 'R1', 'R3'):
                    t = A.RULES[rule](t, log)
                adds.append('// auto-repair: helper extracted verbatim from %s (no contract)\n%s' % (rec['file'], t))
                notes.append('helper fn %s extracted from %s' % (fn, rec['file']))
                break
    # (c) a `const` of the same source file that a changed function now refers to is extracted verbatim
    for m in MISSING_VALUE_RE.finditer(stderr):
        cn = m.group(1)
        if cn in done:
            continue
        done.add(cn)
        for rec in ex.records:
            if rec['file'].startswith('dep:'):
                continue
            try:
                sf = A.load_source(rec['file'])
            except Exception:
                continue
            found = [it for it in sf.items if it.kind == 'const' and it.name == cn]
            if len(found) == 1:
                log = []
                t = A.RULES['R0'](found[0].text, log)
                adds.append('// auto-repair: const extracted verbatim from %s\n%s' % (rec['file'], t))
                notes.append('const %s extracted from %s' % (cn, rec['file']))
                break
    if not adds:
        return None, []
    k = text.rfind('} // verus!')
    if k < 0:
        return None, []
    return text[:k] + '\n'.join(adds) + '\n' + text[k:], notes



def run_unit(unit_path, tier='quick', seed=0, hooks=None):
    """Assemble + verify one unit.  Returns a dict."""
    name = os.path.basename(unit_path)[:-len('.unit.rs')]
    os.makedirs(os.path.join(CACHE, 'units'), exist_ok=True)
    res = dict(unit=name, status='ok', failed=[], undecided=[], canaries=[], functions={}, records=[],
               trusted=[], wall=0.0, cmd='', drops=[], mutants_total=0)
    t0 = time.time()
    try:
        ex = A.assemble(unit_path, hooks=hooks)
    except A.Undecided as e:
        res['status'] = 'undecided'
        res['undecided'].append('extraction: %s' % e)
        return res
    except Exception as e:  # lexer errors etc. -> undecided, never an alarm
        res['status'] = 'undecided'
        res['undecided'].append('extraction crashed: %r' % e)
        return res
    base = os.path.join(CACHE, 'units', name + '.rs')
    open(base, 'w').write(ex.out_text)
    res['assembled'] = base
    res['records'] = ex.records
    res['must_verify'] = ex.must_verify
    res['trusted'] = scan_trusted(ex.out_text)
    res['drops'] = [(r['item'],) + tuple(d) for r in ex.records for d in r['drops']]

    jobs = {}
    with cf.ThreadPoolExecutor(max_workers=int(os.environ.get('VERIF_JOBS', '8'))) as pool:
        jobs['base'] = pool.submit(run_verus, base, 10 * 10 if False else None)
        # vacuity canary: every contracted function gets `assert(false)` as first statement
        vac = None
        if ex.contracted:
            try:
                exv = A.assemble(unit_path, vacuity=True, hooks=hooks)
                vac = os.path.join(CACHE, 'units', name + '__vacuity.rs')
                open(vac, 'w').write(exv.out_text)
                jobs['vacuity'] = pool.submit(run_verus, vac)
            except A.Undecided as e:
                res['undecided'].append('vacuity assembly: %s' % e)
        # seeded mutants
        muts = list(ex.mutants)
        res['mutants_total'] = len(muts)
        rnd = random.Random(seed)
        rnd.shuffle(muts)
        if tier == 'quick':
            muts = muts[:int(os.environ.get('VERIF_QUICK_MUTANTS', '2'))]
        for mu in muts:
            try:
                exm = A.assemble(unit_path, apply_mutant=mu['name'], hooks=hooks)
            except A.Undecided as e:
                # a mutant whose anchor vanished says nothing about the code
                res['canaries'].append(dict(kind='mutant', name=mu['name'], status='anchor-lost', detail=str(e)))
                continue
            mp = os.path.join(CACHE, 'units', '%s__mut_%s.rs' % (name, mu['name']))
            open(mp, 'w').write(exm.out_text)
            jobs['mut:' + mu['name']] = (pool.submit(run_verus, mp), mu)
        # collect
        r = jobs['base'].result()
        res['cmd'] = r['cmd']
        res['base_wall'] = r['wall']
        repairs, done, text = [], set(), ex.out_text
        for _round in range(4):
            js = r['json']
            needs = js is None or 'verification-results' not in js or js['verification-results'].get('encountered-vir-error') \
                or (not breakdown(js, name) and not js['verification-results'].get('success'))
            if not needs:
                break
            text2, notes = auto_repair(text, r['stderr'], ex, done)
            if text2 is None:
                break
            text = text2
            repairs += notes
            open(base, 'w').write(text)
            r = run_verus(base)
        lost = list(getattr(ex, 'lost', []))
        if lost:
            repairs = repairs + ['skipped directive with a lost anchor: ' + x for x in lost]
        res['auto_repairs'] = repairs
        classify_base(res, ex, name, r)
        if repairs:
            # A proof that passes with havoc specs / uncontracted helpers is sound; one that fails is NOT a
            # violation (the automatic specs are too weak to decide): undecided, to be settled by a concrete replay.
            # (A `const` extracted verbatim is exact, not an over-approximation: it weakens nothing.)
            weak = [x for x in repairs if not x.startswith('const ')]
            if res['status'] == 'violation' and weak:
                res['undecided'].append('after automatic repair (%s) these obligations do not verify: %s'
                                        % ('; '.join(repairs), ', '.join(f['function'] for f in res['failed'])))
                res['weak_failed'] = res['failed']
                res['failed'] = []
                res['status'] = 'undecided'
            res['wall'] = time.time() - t0
            res['canaries'].append(dict(kind='note', name='auto-repair', status='; '.join(repairs)))
            return res
        if 'vacuity' in jobs:
            rv = jobs['vacuity'].result()
            bd = breakdown(rv['json'], name + '__vacuity')
            missing_canaries = []
            for fn in ex.contracted:
                hits = [k for k in bd if k == fn or k.endswith('::' + fn)]
                if not hits:
                    res['canaries'].append(dict(kind='vacuity', name=fn, status='missing'))
                    missing_canaries.append(fn)
                elif all(bd[k]['success'] for k in hits):
                    res['canaries'].append(dict(kind='vacuity', name=fn, status='VACUOUS'))
                    res['undecided'].append('precondition of %s is contradictory (assert(false) verified)' % fn)
                else:
                    res['canaries'].append(dict(kind='vacuity', name=fn, status='rejected'))
            if missing_canaries:
                res['undecided'].append('vacuity canary not reported for %d function(s): %s' % (len(missing_canaries), ', '.join(missing_canaries[:6]) + (' ...' if len(missing_canaries) > 6 else '')))
        for key, val in jobs.items():
            if not key.startswith('mut:'):
                continue
            fut, mu = val
            rm = fut.result()
            crate = '%s__mut_%s' % (name, mu['name'])
            bd = breakdown(rm['json'], crate)
            failed = [k for k, v in bd.items() if not v['success']]
            if rm['json'] is None or not rm['json'].get('verification-results'):
                res['canaries'].append(dict(kind='mutant', name=mu['name'], status='no-result'))
                continue
            if not failed and not rm['json']['verification-results'].get('success'):
                # the mutated text does not compile: the mutant says nothing
                res['canaries'].append(dict(kind='mutant', name=mu['name'], status='does-not-compile'))
                continue
            if failed:
                exp = mu['expect']
                ok = (not exp) or any(f == e or f.endswith('::' + e) for f in failed for e in exp)
                res['canaries'].append(dict(kind='mutant', name=mu['name'], status='rejected' if ok else 'rejected-elsewhere',
                                            by=failed, change='%s => %s' % (mu['old'], mu['new'])))
            else:
                res['canaries'].append(dict(kind='mutant', name=mu['name'], status='SURVIVED',
                                            change='%s => %s' % (mu['old'], mu['new'])))
                # a surviving seeded mutant means the contract lost its teeth: undecided, not a pass
                if res['status'] == 'ok':
                    res['undecided'].append('seeded mutant %s survived' % mu['name'])
    if res['undecided'] and res['status'] == 'ok':
        res['status'] = 'undecided'
    res['wall'] = time.time() - t0
    return res


def classify_base(res, ex, crate, r):
    js = r['json']
    blocks = error_blocks(r['stderr'])
    res['stderr'] = r['stderr']
    if js is None or 'verification-results' not in js:
        res['status'] = 'undecided'
        res['undecided'].append('verus produced no result (rc=%s): %s' % (r['rc'], '; '.join(b['msg'] for b in blocks[:5]) or r['stderr'][-500:]))
        return
    vr = js['verification-results']
    bd = breakdown(js, crate)
    res['functions'] = bd
    res['verified'] = vr.get('verified', 0)
    res['errors'] = vr.get('errors', 0)
    if vr.get('encountered-vir-error'):
        res['status'] = 'undecided'
        res['undecided'].append('verus front-end error: ' + '; '.join(b['msg'] for b in blocks[:5]))
        return
    failed = sorted(k for k, v in bd.items() if not v['success'])
    if not bd and not vr.get('success'):
        res['status'] = 'undecided'
        res['undecided'].append('compile error in assembled unit: ' + '; '.join(b['msg'] for b in blocks[:5]))
        return
    # missing must-verify functions
    for fn in ex.must_verify:
        if not [k for k in bd if k == fn or k.endswith('::' + fn)]:
            res['undecided'].append('must-verify function %s not reported by verus' % fn)
    if failed:
        # attribute error blocks to functions
        per_fn = {}
        resource_only = True
        for b in blocks:
            if not is_resource_error(b):
                resource_only = False
        if blocks and resource_only:
            res['status'] = 'undecided'
            res['undecided'].append('resource limit: ' + '; '.join(b['msg'] for b in blocks[:3]))
            return
        for fn in failed:
            res['failed'].append(dict(function=fn, errors=[]))
        for b in blocks:
            rec = find_fn_for_line(ex, b['loc'][1]) if b['loc'] else None
            tgt = None
            if rec:
                for f in res['failed']:
                    if f['function'] == rec['label'] or f['function'].endswith('::' + rec['label']):
                        tgt = f
            if tgt is None and len(res['failed']) == 1:
                tgt = res['failed'][0]
            if tgt is None:
                tgt = res['failed'][0]
            tgt['errors'].append(dict(msg=b['msg'], text='\n'.join(b['lines']), src=(rec['file'], rec['line']) if rec else None))
        res['status'] = 'violation'
    elif not vr.get('success'):
        res['status'] = 'undecided'
        res['undecided'].append('verus reports failure without a failed function: ' + '; '.join(b['msg'] for b in blocks[:5]))


TRUST_PATTERNS = [
    (r'#\[verifier::external_body\]\s*(?:#\[[^\]]*\]\s*)*(?:pub\s+)?(?:(?:proof|exec|spec|open|closed|uninterp|broadcast)\s+)*(fn|struct|enum)\s+(\w+)', 'external_body'),
    (r'assume_specification\s*(?:<[^\[]*>)?\s*\[\s*((?:<\[[^\]]*\]>|[^\]])+)\]', 'assume_specification'),
    (r'\baxiom\s+fn\s+(\w+)', 'axiom fn'),
    (r'uninterp\s+spec\s+fn\s+(\w+)', 'uninterp spec fn'),
    (r'\bassume\s*\(', 'assume('),
    (r'\badmit\s*\(', 'admit('),
    (r'#\[verifier::truncate\]', 'verifier::truncate'),
    (r'#\[verifier::external\]', 'verifier::external'),
    (r'#\[verifier::exec_allows_no_decreases_clause\]', 'no_decreases'),
    (r'#\[verifier::assume_termination\]', 'assume_termination'),
]


def scan_trusted(text):
    # strip comments
    text = re.sub(r'//[^\n]*', '', text)
    out = []
    for pat, lbl in TRUST_PATTERNS:
        for m in re.finditer(pat, text):
            g = [x for x in m.groups() if x] if m.groups() else []
            out.append('%s: %s' % (lbl, ' '.join(g).strip().replace('\n', ' ')[:120]) if g else lbl)
    return sorted(set(out)) if out else []


def load_known():
    p = os.path.join(VERIF, 'known_findings.txt')
    known = []
    if os.path.exists(p):
        for ln in open(p):
            ln = ln.strip()
            m = re.match(r'finding:\s+property=(\S+)\s+unit=(\S+)\s+obligation=(\S+)\s+clause="([^"]*)"\s+(.*)$', ln)
            if m:
                known.append(dict(property=m.group(1), unit=m.group(2), obligation=m.group(3), clause=m.group(4), what=m.group(5)))
    return known


def match_known(known, pid, unit, fail):
    """A failed function is a known finding only if *every* error block of it matches a listed clause."""
    ks = [k for k in known if k['property'] == pid and k['unit'] == unit and (fail['function'] == k['obligation'] or fail['function'].endswith('::' + k['obligation']))]
    if not ks or not fail['errors']:
        return None
    used = []
    for e in fail['errors']:
        hit = [k for k in ks if k['clause'] in e['text']]
        if not hit:
            return None
        used += hit
    return used


def check_property(pid, tier='quick', seed=0, extra=None):
    t0 = time.time()
    hooks = load_hooks()
    units = units_serving(pid)
    os.makedirs(os.path.join(VERIF, 'evidence'), exist_ok=True)
    evp = os.path.join(VERIF, 'evidence', pid + '.json')
    if _REPO != os.path.realpath('/repo'):
        # development / seeded-change runs against another tree never overwrite the evidence of /repo
        os.makedirs(os.path.join(VERIF, '.cache', 'evidence_alt'), exist_ok=True)
        evp = os.path.join(VERIF, '.cache', 'evidence_alt', pid + '.json')
    if os.path.exists(evp):
        os.remove(evp)
    if not units:
        print('no units serve %s' % pid)
        return 2
    results = []
    with cf.ThreadPoolExecutor(max_workers=4) as pool:
        futs = [pool.submit(run_unit, u, tier, seed, hooks) for u in units]
        for f in futs:
            results.append(f.result())
    known = load_known()
    violations, undecided, known_hits = [], [], []
    for r in results:
        for u in r['undecided']:
            undecided.append('%s: %s' % (r['unit'], u))
        for f in r['failed']:
            k = match_known(known, pid, r['unit'], f)
            if k:
                known_hits.append((r['unit'], f, k))
            else:
                violations.append((r['unit'], f))
    # bounded stand-ins / extra thorough work supplied by the caller.  In the quick tier they run only when
    # the deductive check could not decide (undecided): a concrete failing input on the real code settles it.
    standins = []
    if not extra and undecided and not violations:
        try:
            import standins as SI
            os.environ['VERIF_STANDINS'] = '1'
            extra = SI.for_property(pid, tier)
        except Exception:
            extra = None
    if extra:
        for fn in extra:
            s = None
            for attempt in (1, 2):   # a harness error (time-out under load, transient I/O) gets one fresh retry
                try:
                    s = fn(pid, tier, seed)
                except Exception as e:
                    s = dict(name=getattr(fn, '__name__', 'standin'), status='error', detail=repr(e))
                if not s or s.get('status') != 'error':
                    break
                if attempt == 1:
                    print('NOTE: stand-in %s reported a harness error (%s); retrying once' % (s.get('name'), str(s.get('detail'))[:200]))
            if s:
                standins.append(s)
                if s.get('status') == 'violation':
                    violations.append(('standin:' + s['name'], dict(function=s['name'], errors=[dict(msg=s.get('detail', ''), text=s.get('detail', ''), src=None)], replay_input=s.get('input'))))
                elif s.get('status') == 'error':
                    undecided.append('standin %s: %s' % (s['name'], s.get('detail')))

    # known findings carried by the bounded stand-ins (inputs excluded from their families because the real code
    # violates the property on them): printed on every run when listed in known_findings.txt
    standin_known = []
    try:
        import importlib
        sys.path.insert(0, os.path.join(VERIF, 'replay'))
        mod = importlib.import_module('bounded.' + pid.lower())
        listed = set()
        for ln in open(os.path.join(VERIF, 'known_findings.txt')):
            m = re.match(r'finding:\s+property=%s\s+standin=(\S+)' % pid, ln.strip())
            if m:
                listed.add(m.group(1))
        for k in getattr(mod, 'KNOWN', []) or []:
            if isinstance(k, dict) and k.get('id'):
                standin_known.append(dict(id=k['id'], listed=k['id'] in listed, clause=k.get('clause', ''), input=k.get('input', ''), observed=k.get('observed', '')))
    except ModuleNotFoundError:
        pass
    except Exception as e:
        print('NOTE: could not read the stand-in KNOWN list of %s: %r' % (pid, e))

    # ---------------- evidence
    obligations = sum(len(r['functions']) for r in results)
    discharged = sum(1 for r in results for v in r['functions'].values() if v['success'])
    # known findings are carved out of the obligation count (DESIGN §6)
    for (u, f, k) in known_hits:
        obligations -= 1
    samples = []
    for r in results:
        for rec in r['records'][:]:
            pass
        fns = sorted(r['functions'].items(), key=lambda kv: -kv[1]['time_us'])[:4]
        for k, v in fns:
            samples.append(dict(unit=r['unit'], obligation=k, mode=v['mode'], smt_time_us=v['time_us'], rlimit=v['rlimit'], backend='verus/z3', discharged=v['success']))
    trusted = sorted(set(t for r in results for t in r['trusted']))
    ev = dict(
        property_id=pid, tier=tier, seed=seed, level='proof',
        coverage=dict(
            obligations=max(obligations, 0), discharged=discharged,
            checker_cmd='; '.join(r['cmd'] for r in results if r.get('cmd')),
            trusted_base=trusted,
            samples=samples,
            units=[dict(unit=r['unit'], status=r['status'], verified=r.get('verified'), errors=r.get('errors'),
                        wall_s=round(r['wall'], 2), verus_wall_s=round(r.get('base_wall', 0), 2),
                        functions={k: dict(mode=v['mode'], discharged=v['success'], smt_us=v['time_us'], rlimit=v['rlimit'], backend='verus/z3') for k, v in sorted(r['functions'].items())},
                        functions_under_contract=[dict(item=x['item'], file=x['file'], lines='%d-%d' % (x['line'], x['end_line']), sha256=x['sha256'][:16], contract_inserts=x['inserts'], assumed=x['opaque']) for x in r['records']],
                        extraction_drops=[list(d) for d in r['drops']],
                        canaries=r['canaries'], mutants_recorded=r['mutants_total'],
                        undecided=r['undecided']) for r in results],
            bounded_standins=standins,
            known_findings=[dict(unit=u, obligation=f['function'], what=sorted(set(x['what'] for x in k))) for (u, f, k) in known_hits] + [dict(standin=k['id'], clause=k['clause'], input=k['input'], observed=k['observed']) for k in standin_known],
            explanation='obligations = functions (exec/proof/spec-termination) Verus generated verification conditions for in the assembled units; bounded stand-ins are not counted.',
        ),
        assumptions=trusted + ['extraction rewrites listed per unit under extraction_drops',
                               'Verus 0.2026.09.13 / Z3 / rustc 1.98.1 are sound', 'usize is 64 bit'],
        wall_s=round(time.time() - t0, 2),
        violations=len(violations),
    )
    notes_path = os.path.join(VERIF, 'units', 'notes', pid + '.json')
    if os.path.exists(notes_path):
        ev['coverage'].update(json.load(open(notes_path)))
    json.dump(ev, open(evp, 'w'), indent=1)

    # ---------------- report
    for r in results:
        print('unit %-14s %-9s verified=%s errors=%s fns=%d canaries=%s wall=%.1fs' % (
            r['unit'], r['status'], r.get('verified'), r.get('errors'), len(r['functions']),
            ','.join('%s:%s' % (c['name'], c['status']) for c in r['canaries']) or '-', r['wall']))
    for k in standin_known:
        print('%s: property=%s bounded:%s [%s] %s -> %s' % ('KNOWN-FINDING' if k['listed'] else 'NOTE unlisted stand-in exclusion', pid, k['id'],
              str(k['clause'])[:120], str(k['input'])[:160].replace('\n', ' '), str(k['observed'])[:160].replace('\n', ' ')))
    for (u, f, k) in known_hits:
        print('KNOWN-FINDING: property=%s %s::%s %s' % (pid, u, f['function'], '; '.join(sorted(set(x['what'] for x in k)))))
    rc = 0
    if violations:
        os.makedirs(os.path.join(VERIF, 'replays', pid), exist_ok=True)
        for (u, f) in violations:
            rp = os.path.join(VERIF, 'replays', pid, '%s__%s.txt' % (u.replace(':', '_'), re.sub(r'\W+', '_', f['function'])))
            found_input = write_replay(rp, pid, u, f)
            print('VIOLATION property=%s replay=%s%s' % (pid, rp, '' if found_input else ' no-failing-input-found'))
        rc = 1
    elif undecided:
        for u in undecided:
            print('UNDECIDED %s: %s' % (pid, u))
        rc = 2
    else:
        print('OK %s: %d/%d obligations discharged in %d unit(s), %.1fs' % (pid, discharged, obligations, len(results), time.time() - t0))
    if rc == 0 and not os.environ.get('VERIF_KEEP_CACHE'):
        import shutil
        shutil.rmtree(CACHE, ignore_errors=True)
    return rc


def write_replay(path, pid, unit, f):
    """Replay file: failed obligation, verifier output, and a concrete failing input when a
    unit-specific replay search finds one on the real code."""
    found = None
    if f.get('replay_input') is not None:
        found = f['replay_input']
    else:
        try:
            sys.path.insert(0, os.path.join(VERIF, 'replay'))
            import search  # noqa
            found = search.find_input(pid, unit, f)
        except Exception as e:
            found = None
            f.setdefault('errors', []).append(dict(msg='replay search unavailable: %r' % e, text='', src=None))
    with open(path, 'w') as fh:
        fh.write('property: %s\nunit: %s\nfailed obligation: %s\n' % (pid, unit, f['function']))
        if found:
            fh.write('failing input (replayed on the real code):\n%s\n' % (json.dumps(found, indent=1) if not isinstance(found, str) else found))
        else:
            fh.write('failing input: none found (no-failing-input-found)\n')
        fh.write('\n--- verifier output ---\n')
        for e in f['errors']:
            if e.get('src'):
                fh.write('[source: %s:%s]\n' % e['src'])
            fh.write(e['text'] + '\n\n')
    return bool(found)
