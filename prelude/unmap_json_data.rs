// ---- prelude/unmap_json_data.rs: what the three `format value -> Val` units (unmap_json, unmap_toml,
// unmap_yaml) share (inside verus!) ----
// needs: `use std::rc::Rc;` and `use vstd::std_specs::convert::*;` before verus!, prelude/core.rs

// Val: extracted verbatim; its Constraint payload is only moved around (R5).
//@ opaque ConstraintVal
//@ extract src/build/ir.rs :: enum Val
//@   rule R0
//@ end

//@ include prelude/unmap_json_tree.rs

// the contract of every mapper: a representable tree is bound to a value denoting EXACTLY that tree;
// a tree that cannot be represented (an integer outside i64) is a build error, never an altered value.
pub open spec fn unmap_post(view: D, r: Result<Val, VBoxDynError>) -> bool {
    &&& representable(view) ==> (r matches Ok(val) && data(val) == view)
    &&& !representable(view) ==> r is Err
}

// ---------- std / crate neighbours (trusted models) ----------
// `String -> Rc<str>` (`s.clone().into()`): std `impl From<String> for Rc<str>`, content preserved.
pub assume_specification [<Rc<str> as From<String>>::from] (s: String) -> (r: Rc<str>)
    ensures r@ == s@;

// `Box<dyn Error>` is only constructed and propagated by `?` (R5): opaque.
#[verifier::external_body]
pub struct VBoxDynError { _p: u8 }

// `ImportResult` (convert/traits.rs), with the opaque boxed error.
//@ extract src/convert/traits.rs :: type ImportResult
//@   subst "result::Result" => "Result"
//@   subst "Box<dyn Error>>" => "VBoxDynError>"
//@ end

// crate::error::{ErrorType, BuildError}: `BuildError::new(msg, t).to_boxed()` builds the boxed error; the
// unsizing coercion Box<BuildError> -> Box<dyn Error> at the `Err(..)` site is folded into `to_boxed`.
//@ extract src/error.rs :: enum ErrorType
//@   rule R0
//@ end
#[verifier::external_body]
pub struct BuildError { _p: u8 }
impl BuildError {
    #[verifier::external_body]
    pub fn new(msg: String, t: ErrorType) -> Self { unimplemented!() }
    #[verifier::external_body]
    pub fn to_boxed(self) -> VBoxDynError { unimplemented!() }
}

// u64/i64 -> f64 conversion (`n as f64`): uninterpreted (R6).
pub uninterp spec fn u64_to_f64(n: u64) -> f64;
pub uninterp spec fn i64_to_f64(n: i64) -> f64;
#[verifier::external_body] pub fn verif_u64_as_f64(n: u64) -> (r: f64) ensures r == u64_to_f64(n) { n as f64 }
#[verifier::external_body] pub fn verif_i64_as_f64(n: i64) -> (r: f64) ensures r == i64_to_f64(n) { n as f64 }
