"""Minimal Rust lexer + item locator used by the extractor.

Only what the extractor needs: a token stream that is exact about comments,
string/char literals and lifetimes, so brace matching and token-sequence
matching on real source text are reliable.  No parsing beyond item headers.
"""
import re
from dataclasses import dataclass


@dataclass
class Tok:
    kind: str   # ident | punct | str | char | num | lifetime
    text: str
    start: int
    end: int


IDENT_RE = re.compile(r'[A-Za-z_][A-Za-z0-9_]*')
NUM_RE = re.compile(r'[0-9][0-9A-Za-z_]*(\.[0-9][0-9A-Za-z_]*)?')
RAWSTR_RE = re.compile(r'b?r(#*)"')
CHAR_RE = re.compile(r"b?'(\\(x[0-9a-fA-F]{2}|u\{[0-9a-fA-F_]+\}|.)|[^'\\\n])'")
# multi-char punctuation (longest first)
PUNCTS = ['<<=', '>>=', '...', '..=', '::', '->', '=>', '==', '!=', '<=', '>=', '&&', '||',
          '+=', '-=', '*=', '/=', '%=', '^=', '&=', '|=', '<<', '>>', '..']


class LexError(Exception):
    pass


def lex(src, keep_comments=False):
    """Tokenise `src`.  Comments are skipped (or returned with kind 'comment')."""
    toks = []
    i, n = 0, len(src)
    while i < n:
        c = src[i]
        if c.isspace():
            i += 1
            continue
        if src.startswith('//', i):
            j = src.find('\n', i)
            j = n if j < 0 else j
            if keep_comments:
                toks.append(Tok('comment', src[i:j], i, j))
            i = j
            continue
        if src.startswith('/*', i):
            depth, j = 1, i + 2
            while j < n and depth:
                if src.startswith('/*', j):
                    depth += 1; j += 2
                elif src.startswith('*/', j):
                    depth -= 1; j += 2
                else:
                    j += 1
            if keep_comments:
                toks.append(Tok('comment', src[i:j], i, j))
            i = j
            continue
        m = RAWSTR_RE.match(src, i)
        if m:
            closer = '"' + m.group(1)
            j = src.find(closer, m.end())
            if j < 0:
                raise LexError('unterminated raw string at %d' % i)
            j += len(closer)
            toks.append(Tok('str', src[i:j], i, j))
            i = j
            continue
        if c == '"' or (c == 'b' and src.startswith('b"', i)):
            j = i + (2 if c == 'b' else 1)
            while j < n and src[j] != '"':
                j += 2 if src[j] == '\\' else 1
            if j >= n:
                raise LexError('unterminated string at %d' % i)
            j += 1
            toks.append(Tok('str', src[i:j], i, j))
            i = j
            continue
        if c == "'" or (c == 'b' and src.startswith("b'", i)):
            m2 = CHAR_RE.match(src, i)
            if m2:
                toks.append(Tok('char', m2.group(0), i, m2.end()))
                i = m2.end()
                continue
            m3 = IDENT_RE.match(src, i + 1) if c == "'" else None
            if m3:
                toks.append(Tok('lifetime', src[i:m3.end()], i, m3.end()))
                i = m3.end()
                continue
            if c == "'":
                raise LexError('bad quote at %d' % i)
        m = IDENT_RE.match(src, i)
        if m:
            toks.append(Tok('ident', m.group(0), i, m.end()))
            i = m.end()
            continue
        m = NUM_RE.match(src, i)
        if m:
            # do not swallow `..` of a range like 0..n
            txt = m.group(0)
            if '.' in txt and src.startswith('..', i + txt.index('.')):
                txt = txt[:txt.index('.')]
            toks.append(Tok('num', txt, i, i + len(txt)))
            i += len(txt)
            continue
        for p in PUNCTS:
            if src.startswith(p, i):
                toks.append(Tok('punct', p, i, i + len(p)))
                i += len(p)
                break
        else:
            toks.append(Tok('punct', c, i, i + 1))
            i += 1
    return toks


OPEN = {'(': ')', '[': ']', '{': '}'}
CLOSE = {v: k for k, v in OPEN.items()}


def match_close(toks, i):
    """toks[i] is an opening bracket; return index of its matching closer."""
    depth = 0
    for j in range(i, len(toks)):
        t = toks[j]
        if t.kind == 'punct':
            if t.text in OPEN:
                depth += 1
            elif t.text in CLOSE:
                depth -= 1
                if depth == 0:
                    return j
    raise LexError('unbalanced bracket at token %d (%s)' % (i, toks[i].text))


def find_seq(toks, pat, lo=0, hi=None):
    """All indices k in [lo,hi) where toks[k:k+len(pat)] has the texts of pat."""
    hi = len(toks) if hi is None else hi
    out = []
    m = len(pat)
    if m == 0:
        return out
    for k in range(lo, hi - m + 1):
        if toks[k].text == pat[0]:
            ok = True
            for d in range(1, m):
                if toks[k + d].text != pat[d]:
                    ok = False
                    break
            if ok:
                out.append(k)
    return out


def norm(s):
    return ' '.join(t.text for t in lex(s))


QUALS = {'pub', 'const', 'unsafe', 'async', 'extern', 'default'}


def _item_start(toks, k, lo):
    """Walk back from keyword token k over qualifiers (`pub`, `pub(crate)` …)."""
    s = k
    while s - 1 >= lo:
        p = toks[s - 1]
        if p.kind == 'ident' and p.text in QUALS:
            s -= 1
        elif p.text == ')' and s - 4 >= lo and toks[s - 4].text == 'pub' and toks[s - 3].text == '(':
            s -= 4
        elif p.kind == 'str' and s - 2 >= lo and toks[s - 2].text == 'extern':
            s -= 1
        else:
            break
    return s


def _attrs_before(toks, s, lo):
    """Return (index of first attribute token, list of attribute texts) directly before item start s."""
    attrs = []
    a = s
    while a - 1 >= lo and toks[a - 1].text == ']':
        # find matching '['
        depth, j = 0, a - 1
        while j >= lo:
            if toks[j].text == ']':
                depth += 1
            elif toks[j].text == '[':
                depth -= 1
                if depth == 0:
                    break
            j -= 1
        if j - 1 >= lo and toks[j - 1].text == '#':
            attrs.insert(0, (j - 1, a - 1))
            a = j - 1
        else:
            break
    return a, attrs


class Item:
    def __init__(self, src, toks, first, last, kind, name, attrs_first=None, container=None):
        self.src, self.toks = src, toks
        self.first, self.last = first, last      # token indices (inclusive)
        self.kind, self.name = kind, name
        self.attrs_first = first if attrs_first is None else attrs_first
        self.container = container               # impl header text or None

    @property
    def start(self):
        return self.toks[self.first].start

    @property
    def end(self):
        return self.toks[self.last].end

    @property
    def text(self):
        return self.src[self.start:self.end]

    def attr_text(self):
        if self.attrs_first == self.first:
            return ''
        return self.src[self.toks[self.attrs_first].start:self.toks[self.first].start]

    def line(self):
        return self.src.count('\n', 0, self.start) + 1

    def end_line(self):
        return self.src.count('\n', 0, self.end) + 1


def _scan_items(src, toks, lo, hi, container=None):
    """Yield items whose keyword token sits at bracket depth 0 within toks[lo:hi]."""
    k = lo
    while k < hi:
        t = toks[k]
        if t.kind == 'punct' and t.text in OPEN:
            k = match_close(toks, k) + 1
            continue
        if t.kind == 'ident':
            if t.text in ('fn',) and k + 1 < hi and toks[k + 1].kind == 'ident':
                s = _item_start(toks, k, lo)
                a, _ = _attrs_before(toks, s, lo)
                # body or `;`
                j = k
                while toks[j].text not in ('{', ';') or False:
                    if toks[j].text in ('(', '['):
                        j = match_close(toks, j)
                    j += 1
                e = match_close(toks, j) if toks[j].text == '{' else j
                yield Item(src, toks, s, e, 'fn', toks[k + 1].text, a, container)
                k = e + 1
                continue
            if t.text in ('enum', 'struct', 'union', 'trait', 'mod') and k + 1 < hi and toks[k + 1].kind == 'ident':
                s = _item_start(toks, k, lo)
                a, _ = _attrs_before(toks, s, lo)
                j = k
                while toks[j].text not in ('{', ';'):
                    if toks[j].text in ('(', '['):
                        j = match_close(toks, j)
                    j += 1
                e = match_close(toks, j) if toks[j].text == '{' else j
                yield Item(src, toks, s, e, t.text, toks[k + 1].text, a, container)
                if t.text == 'mod' and toks[j].text == '{':
                    yield from _scan_items(src, toks, j + 1, e, container)
                k = e + 1
                continue
            if t.text in ('type', 'const', 'static') and k + 1 < hi and toks[k + 1].kind == 'ident' and toks[k + 1].text != 'fn':
                s = _item_start(toks, k, lo)
                a, _ = _attrs_before(toks, s, lo)
                j = k
                while toks[j].text != ';':
                    if toks[j].text in OPEN:
                        j = match_close(toks, j)
                    j += 1
                nm = toks[k + 1].text if toks[k + 1].text != 'mut' else toks[k + 2].text
                yield Item(src, toks, s, j, t.text, nm, a, container)
                k = j + 1
                continue
            if t.text == 'impl':
                s = _item_start(toks, k, lo)
                a, _ = _attrs_before(toks, s, lo)
                j = k
                while toks[j].text != '{':
                    if toks[j].text in ('(', '['):
                        j = match_close(toks, j)
                    j += 1
                e = match_close(toks, j)
                header = ' '.join(x.text for x in toks[k:j])
                it = Item(src, toks, s, e, 'impl', header, a, container)
                it.body_open = j
                yield it
                yield from _scan_items(src, toks, j + 1, e, header)
                k = e + 1
                continue
            if t.text == 'macro_rules' and toks[k + 1].text == '!':
                a, _ = _attrs_before(toks, k, lo)
                j = k + 3
                e = match_close(toks, j)
                if e + 1 < hi and toks[e + 1].text == ';':
                    e += 1
                yield Item(src, toks, k, e, 'macro', toks[k + 2].text, a, container)
                k = e + 1
                continue
            if t.text == 'make_fn' and toks[k + 1].text == '!':
                j = k + 2
                e = match_close(toks, j)
                nm = toks[j + 1].text if toks[j + 1].text != 'pub' else toks[j + 2].text
                if e + 1 < hi and toks[e + 1].text == ';':
                    e += 1
                yield Item(src, toks, k, e, 'make_fn', nm, k, container)
                k = e + 1
                continue
        k += 1


def header_matches(header, want):
    """`want` like 'impl VM' or 'impl * Converter for EnvConverter' ('*' = any tokens)."""
    import fnmatch
    return fnmatch.fnmatchcase(header, norm(want).replace(' * ', '*').replace('* ', '*').replace(' *', '*'))


class SourceFile:
    def __init__(self, path, text):
        self.path, self.src = path, text
        self.toks = lex(text)
        self.items = list(_scan_items(self.src, self.toks, 0, len(self.toks)))

    def find(self, kind, name, container=None):
        res = []
        for it in self.items:
            if it.kind != kind:
                continue
            if kind == 'impl':
                if header_matches(it.name, name):
                    res.append(it)
                continue
            if it.name != name:
                continue
            if container is None:
                if it.container is None:
                    res.append(it)
            elif it.container is not None and header_matches(it.container, container):
                res.append(it)
        # drop items under #[cfg(test)]
        res = [r for r in res if 'cfg(test)' not in r.attr_text().replace(' ', '')]
        return res
