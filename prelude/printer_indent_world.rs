// ---- prelude/printer_indent_world.rs: std stand-ins for the AST printer (src/ast/printer/mod.rs). Everything in this
// file is a TRUSTED MODEL of std. The written TEXT is not modelled: the unit is about panics, termination and the
// printer's own state. ----
// needs: prelude/core.rs, prelude/printer_indent_macros.rs (before verus!)

// `std::io::Error`: an opaque value.
#[verifier::external_type_specification]
#[verifier::external_body]
pub struct ExIoError(std::io::Error);

// `std::io::Write`, the bound of the printer's writer `W`: the one method the printer calls directly. ANY implementation:
// no precondition, the writer changes arbitrarily, the result is any io::Result. (The trait carries the std name so
// that the extracted `W: Write` resolves to it.)
pub trait Write {
    fn write_all(&mut self, buf: &[u8]) -> (r: std::io::Result<()>);
}

// what `write!` / `writeln!` (prelude/printer_indent_macros.rs) hand the writer to: `Write::write_fmt` of ANY writer.
#[verifier::external_body]
pub fn verif_write<W: Write>(w: &mut W) -> (r: std::io::Result<()>)
{ unimplemented!() }

// `map.keys().cloned().collect::<Vec<usize>>()`: std documents `BTreeMap::keys` as "an iterator over the keys of the
// map, in sorted order"; cloned + collected they are `keys_asc`: the domain of the map as a strictly ascending sequence.
pub uninterp spec fn keys_asc<V>(m: Map<usize, V>) -> Seq<usize>;
#[verifier::external_body]
pub proof fn axiom_keys_asc<V>(m: Map<usize, V>)
    ensures
        forall|i: int| 0 <= i < keys_asc(m).len() ==> m.dom().contains(#[trigger] keys_asc(m)[i]),
        forall|k: usize| m.dom().contains(k) ==> exists|i: int| 0 <= i < keys_asc(m).len() && #[trigger] keys_asc(m)[i] == k,
        forall|i: int, j: int| 0 <= i < j < keys_asc(m).len() ==> keys_asc(m)[i] < keys_asc(m)[j],
{ }
#[verifier::external_body]
pub fn verif_btree_keys_vec<V>(map: &std::collections::BTreeMap<usize, V>) -> (r: Vec<usize>)
    ensures r@ == keys_asc(map@),
{ unimplemented!() }

// std `<[T]>::reverse` (through Vec's DerefMut): "reverses the order of elements in the slice, in place".
pub assume_specification<T> [<[T]>::reverse] (s: &mut [T])
    ensures
        final(s)@.len() == old(s)@.len(),
        forall|i: int| 0 <= i < old(s)@.len() ==> #[trigger] final(s)@[i] == old(s)@[old(s)@.len() - 1 - i],
        forall|i: int| 0 <= i < old(s)@.len() ==> #[trigger] old(s)@[i] == final(s)@[old(s)@.len() - 1 - i];

// ---------- text helpers whose RESULT the contract does not depend on (any char / bool / text): std functions that
// are total and do not panic ----------
// `s.chars().nth(0)`: the first char of a text, if any (Verus takes no specification for the provided trait method
// `Iterator::nth`, so the call chain is one stub)
#[verifier::external_body]
pub fn verif_first_char(s: &str) -> (r: Option<char>)
    ensures s@.len() == 0 ==> r is None, s@.len() > 0 ==> r == Some(s@[0]),
{ unimplemented!() }
pub assume_specification [str::trim_end] (s: &str) -> (r: &str);
pub assume_specification [f64::is_finite] (f: f64) -> (r: bool);
pub assume_specification [char::is_ascii_alphabetic] (c: &char) -> (r: bool);
// `text.contains('.')`
#[verifier::external_body]
pub fn verif_str_contains_char(s: &str, c: char) -> (r: bool) { unimplemented!() }
// `String::as_bytes` (the bytes of a text; which bytes is not modelled)
pub assume_specification [std::string::String::as_bytes] (s: &std::string::String) -> (r: &[u8]);
