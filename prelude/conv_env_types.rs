// ---- prelude/conv_env_types.rs: what the shell-facing converters (env, flags, exec) share (inside verus!) ----
// needs: `use std::rc::Rc;` before verus!, prelude/core.rs

// Val: extracted verbatim; its Constraint payload is only moved around (R5).
//@ opaque ConstraintVal
//@ extract src/build/ir.rs :: enum Val
//@   rule R0
//@ end

//@ extract src/build/ir.rs :: impl Val :: fn is_tuple
//@   rule R3
//@   ret r
//@   sig <<<
        ensures r == (*self is Tuple)
//@   >>>
//@ end
//@ extract src/build/ir.rs :: impl Val :: fn is_list
//@   rule R3
//@   ret r
//@   sig <<<
        ensures r == (*self is List)
//@   >>>
//@ end

//@ extract src/build/ir.rs :: impl Val :: fn is_env
//@   rule R3
//@   ret r
//@   sig <<<
        ensures r == (*self is Env)
//@   >>>
//@ end

// ---------- R2: ghost-logged writer standing in for `&mut dyn Write` ----------
// `out`    the text successfully written so far,
// `failed` some write on this writer has reported an I/O error.
// Box<dyn Error> is only propagated by `?` (R5): opaque.
#[verifier::external_body]
pub struct VError { _p: u8 }
pub type ConvertResult = Result<(), VError>;

pub struct VWriter { pub out: Ghost<Seq<char>>, pub failed: Ghost<bool> }

// Effect of one `write!`/`writeln!` call site whose formatted text is `piece`; also the shape of every
// converter contract: Ok => exactly `piece` was appended; Err only when a write failed.
pub open spec fn vw_wrote(old_w: VWriter, new_w: VWriter, piece: Seq<char>, r: ConvertResult) -> bool {
    &&& r is Ok ==> new_w.out@ =~= old_w.out@ + piece && new_w.failed@ == old_w.failed@
    &&& r is Err ==> new_w.failed@
}

// ASSUMPTION (R2): `Display` for str / Rc<str> / String writes the string itself (documented);
// `Display` for i64 and f64 are uninterpreted functions of the value.
pub uninterp spec fn disp_i64(i: i64) -> Seq<char>;
pub uninterp spec fn disp_f64(f: f64) -> Seq<char>;

pub open spec fn nl() -> Seq<char> { seq!['\n'] }
pub open spec fn sp() -> Seq<char> { seq![' '] }
pub open spec fn bool_word(b: bool) -> Seq<char> { if b { "true"@ } else { "false"@ } }
