"""C20 bounded stand-ins: the REAL language server (`ucg lsp`, rebuilt from the repo's tree) is driven over stdio with JSON-RPC /
Content-Length framing by the small client below (reader / writer threads, every wait bounded by 10 s, the process is killed on every
exit path).

Oracle, clause by clause from the property statement (nothing else is checked):
  (a) "keeps running": the process is alive until `exit` is sent (no exit status, no 101 / 134 / 139) whatever was sent before;
  (b) "answers every request": every hover / definition / completion / semantic-token / workspace-symbol request gets exactly one
      response carrying its id (a result or an error object) within 10 s;
  (c) "every range it reports lies inside the document": for every range in a response (hover.range, definition Location /
      LocationLink ranges, completion text edits, workspace-symbol locations, every decoded semantic token) and in every published
      diagnostic: start <= end, the line exists in the text of the document the range names (the text the client sent last for an open
      document, else the file on disk, else the empty text) and character <= length of that line (a line is everything up to `\\n`;
      LSP counts UTF-16 units);
  (d) "diagnostics are a function of the current text and the files on disk": the diagnostics published last for an open document
      equal (as a multiset) what a FRESH server process publishes when the final text is opened directly (same root, same uri);
  (e) "a syntax diagnostic appears exactly when the compiler's parser rejects the text and at the same position": when
      ucglib::parse::parse (replay driver `ast`) rejects the text at line L column C, a diagnostic starts at (L-1, C-1); when the
      parser accepts and
  (f) "a text the compiler builds successfully gets no diagnostics": the compiler (`ucg build` of the shipped file in a copy of its
      tree / replay driver `buildfile` for other texts) builds it, then NO diagnostic is published.
Bounded: exactly the documents, positions and sessions named in each stand-in's `bound`.
"""
import atexit
import glob
import json
import os
import queue
import random
import re
import shutil
import subprocess
import tempfile
import threading
import time
from concurrent.futures import ThreadPoolExecutor
from urllib.parse import unquote, urlparse

import realcode as R

U32 = 2 ** 32 - 1
TIMEOUT = 30.0

# ------------------------------------------------------------------------------------------------------------------------ KNOWN
# Behaviour of the real code on the pinned HEAD that breaks a clause of the statement (checked by hand).  Each entry switches ONE
# tolerance / exclusion below (look for known('<id>')); deleting an entry re-arms the strict oracle for it.
KNOWN = [
    # (malformed-params was repaired in ucg, 23f3dcc: an unreadable request gets an InvalidParams error response, an unreadable
    # notification is dropped; the family MALFORMED of standin_lsp_excluded runs.)
    dict(id='deep-nesting-stack-overflow',
         input='didOpen with text `let x = ` followed by 400 `(`',
         observed="`thread 'main' has overflowed its stack`, SIGABRT (status 134); 200 `(` survive",
         clause='(a): the server keeps running on any document text',
         what='the recursive-descent parser has no depth limit: a didOpen / didChange whose text nests deeply overflows the main thread\'s '
              'stack, the server aborts (SIGABRT, status 134).  `ucg build` and ucglib::parse::parse die in the same way on the same texts',
         replay='didOpen with text `let x = ` + 400 * `(` (408 bytes); also `let x = ` + `(`*400 + `1` + `)`*400 + `;`, 200 nested `{a = `, '
                '400 nested `[`, 800 * `not `, 3200 * `1 + ` (debug build, 8 MiB stack; 200 / 100 / 200 / 400 / 1600 survive)',
         excluded='family DEEP of standin_lsp_excluded; every other family keeps the nesting depth <= 64'),
    dict(id='unsaved-import-leaks',
         input='disk: lib.ucg = `let v = 1;`; didOpen lib.ucg with `let v = "s";`, then didOpen a.ucg with `let l = import "lib.ucg";\\nlet y = l.v + 1;`',
         observed='a.ucg gets [1:14-1:15 "Expected str but got int"]; a fresh server opened on a.ucg publishes []',
         clause='(d): diagnostics are a function of the document\'s current text and the files on disk',
         what='the diagnostics of a document that imports ANOTHER OPEN document are computed from that document\'s unsaved editor text, '
              'and they are not republished when the imported document changes or closes',
         replay='root with lib.ucg = `let v = 1;`; didOpen lib.ucg with text `let v = "s";`, didOpen a.ucg with `let l = import "lib.ucg";\\nlet y = '
                'l.v + 1;` -> a.ucg gets "Expected str but got int" at 1:14; a fresh server opened on a.ucg alone publishes []',
         excluded='scenario CROSSDOC of standin_lsp_excluded; generated session documents never import another session document'),
    dict(id='diag-range-one-past-eof',
         input='didOpen with text `let x = ` (one line of 8 characters)',
         observed='diagnostic range 0:8-0:9',
         clause='(c): every range lies inside the document',
         what='a diagnostic positioned at the end of input gets the one-character range [EOF, EOF+1): its end is one character beyond the '
              'last line',
         replay='didOpen with text `let x = ` (8 bytes): diagnostic range 0:8-0:9, the only line has 8 characters',
         excluded='tolerated: a diagnostic range whose start is the very end of the text and whose end is start + 1 character'),
    dict(id='semantic-token-spans-lines',
         input='didOpen with text `let m = "multi\\nline\\nstring"; let q = m;`, textDocument/semanticTokens/full',
         observed="the string's token: line 0, character 8, length 17; line 0 has 14 characters",
         clause='(c): every range lies inside the document',
         what='the semantic token of a string literal that contains line breaks gets the byte length of the whole literal, so it ends far '
              'beyond the end of its line',
         replay='integration_tests/include_test.ucg: token at line 4 character 19 has length 35, line 4 has 39 characters',
         excluded='tolerated: a semantic token whose byte extent start .. start+length stays inside the document and contains a line break'),
    dict(id='byte-columns',
         input='didOpen with text `let s = "日本語"; let t = ;`',
         observed='diagnostic 0:29-0:30; the line has 24 UTF-16 units, the `;` the parser points at (byte column 30) is unit 23',
         clause='(c) and (e): ranges / the position of the syntax diagnostic',
         what='characters are UTF-8 byte columns, the protocol counts UTF-16 units: behind non-ASCII characters every reported column is too '
              'large and can exceed the line',
         replay='didOpen with text `let s = "日本語"; let t = ;` (one line, 24 UTF-16 units, 30 bytes): the parser rejects it at line 1 byte column 30, the '
                'diagnostic is 0:29-0:30, i.e. behind the end of the line; the position of that `;` is 0:23',
         excluded='tolerated: on a line that contains non-ASCII characters a character up to the line\'s UTF-8 byte length, and the byte column as '
                  'the position of the syntax diagnostic'),
    dict(id='closed-unsaved-doc-stays-indexed',
         input='didOpen doc1.ucg (no such file) with `\\n\\nlet mem_only = 3;\\n`, didClose doc1.ucg, workspace/symbol ""',
         observed='symbol mem_only at doc1.ucg 2:4-2:5 although the document is closed and has no file',
         clause='(c): every range lies inside the document (there is no document any more)',
         what='after didClose of a document that does not exist on disk, workspace/symbol still reports the bindings of its last text',
         replay='didOpen doc1.ucg (not on disk) `\\n\\nlet mem_only = 3;\\n`, didClose doc1.ucg, workspace/symbol "" -> mem_only at doc1.ucg 2:4-2:5',
         excluded='tolerated: a workspace symbol of a closed document without a file whose range lies inside the text it had when it was closed'),
]


def known(kid):
    return any(k['id'] == kid for k in KNOWN)


# ------------------------------------------------------------------------------------------------------------------------ client
LIVE = set()
TMPDIRS = set()


def _cleanup():
    for s in list(LIVE):
        s.kill()
    for d in list(TMPDIRS):
        shutil.rmtree(d, ignore_errors=True)
        TMPDIRS.discard(d)


atexit.register(_cleanup)


def mktemp():
    d = tempfile.mkdtemp(prefix='verif_c20_')
    TMPDIRS.add(d)
    return d


def rmtemp(d):
    shutil.rmtree(d, ignore_errors=True)
    TMPDIRS.discard(d)


class Dead(Exception):
    """the server process ended; args: (id of the first unanswered request, exit status, stderr tail)"""


class NoAnswer(Exception):
    """no response within the timeout; args: (id of the first unanswered request,)"""


class Server:
    def __init__(self, root, timeout=TIMEOUT):
        self.root = root
        self.timeout = timeout
        self.p = subprocess.Popen([R.ucg_binary(), 'lsp'], stdin=subprocess.PIPE, stdout=subprocess.PIPE, stderr=subprocess.PIPE, cwd=root)
        LIVE.add(self)
        self.inbox = queue.Queue()
        self.outbox = queue.Queue()
        self.errbuf = []
        self.sent = []           # every message sent, in order (the replay)
        self.next_id = 0
        self.diags = {}          # uri -> diagnostics published last
        self.npub = {}
        self.stray = []          # responses nobody waited for (duplicates), server-side requests
        self.answered = set()
        for fn in (self._reader, self._writer, self._errreader):
            threading.Thread(target=fn, daemon=True).start()

    def _reader(self):
        f = self.p.stdout
        try:
            while True:
                n = None
                while True:
                    ln = f.readline()
                    if not ln:
                        self.inbox.put(None)
                        return
                    ln = ln.strip()
                    if not ln:
                        break
                    if ln.lower().startswith(b'content-length:'):
                        n = int(ln.split(b':')[1])
                b = f.read(n or 0)
                if n is None or len(b) < n:
                    self.inbox.put(None)
                    return
                self.inbox.put(json.loads(b.decode('utf-8')))
        except Exception:
            self.inbox.put(None)

    def _writer(self):
        try:
            while True:
                b = self.outbox.get()
                if b is None:
                    return
                self.p.stdin.write(b)
                self.p.stdin.flush()
        except Exception:
            pass

    def _errreader(self):
        try:
            self.errbuf.append(self.p.stderr.read())
        except Exception:
            pass

    def stderr_tail(self):
        time.sleep(0.05)
        t = b''.join(self.errbuf).decode('utf-8', 'replace')
        k = max(t.find('panicked at'), t.find('has overflowed its stack'))
        k = t.rfind('\n', 0, k) + 1 if k >= 0 else max(0, len(t) - 300)
        return t[k:k + 300].strip()

    def send(self, obj):
        b = json.dumps(obj, ensure_ascii=False).encode('utf-8')
        self.sent.append(obj)
        self.outbox.put(b'Content-Length: %d\r\n\r\n' % len(b) + b)

    def notify(self, method, params):
        self.send(dict(jsonrpc='2.0', method=method, params=params))

    def post(self, method, params):
        self.next_id += 1
        self.send(dict(jsonrpc='2.0', id=self.next_id, method=method, params=params))
        return self.next_id

    def collect(self, ids):
        """Wait for the responses to `ids`; notifications are recorded on the way. -> dict id -> message"""
        want = set(ids)
        got = {}
        while want:
            try:
                m = self.inbox.get(timeout=self.timeout)
            except queue.Empty:
                raise NoAnswer(min(want))
            if m is None:
                try:
                    rc = self.p.wait(timeout=5)
                except Exception:
                    rc = None
                raise Dead(min(want), rc, self.stderr_tail())
            if 'id' in m and 'method' not in m:
                if m['id'] in want:
                    want.discard(m['id'])
                    got[m['id']] = m
                    self.answered.add(m['id'])
                else:
                    self.stray.append(m)
            elif m.get('method') == 'textDocument/publishDiagnostics':
                u = m['params']['uri']
                self.diags[u] = m['params']['diagnostics']
                self.npub[u] = self.npub.get(u, 0) + 1
            else:
                self.stray.append(m)
        return got

    def call(self, method, params):
        i = self.post(method, params)
        return self.collect([i])[i]

    def initialize(self):
        r = self.call('initialize', dict(processId=None, rootUri='file://' + self.root, capabilities={}))
        self.notify('initialized', {})
        return r

    def alive(self):
        return self.p.poll() is None

    def shutdown(self):
        """shutdown request + exit notification -> exit status (None: still running after the timeout)"""
        self.call('shutdown', None)
        self.notify('exit', None)
        try:
            return self.p.wait(timeout=self.timeout)
        except subprocess.TimeoutExpired:
            return None

    def kill(self):
        try:
            self.p.kill()
        except Exception:
            pass
        try:
            self.p.wait(timeout=5)
        except Exception:
            pass
        self.outbox.put(None)
        for f in (self.p.stdin, self.p.stdout, self.p.stderr):
            try:
                f.close()
            except Exception:
                pass
        LIVE.discard(self)


def open_msg(uri, text, version=1):
    return 'textDocument/didOpen', dict(textDocument=dict(uri=uri, languageId='ucg', version=version, text=text))


def change_msg(uri, texts, version=2):
    return 'textDocument/didChange', dict(textDocument=dict(uri=uri, version=version), contentChanges=[dict(text=t) for t in texts])


def close_msg(uri):
    return 'textDocument/didClose', dict(textDocument=dict(uri=uri))


def pos_req(kind, uri, line, ch):
    return 'textDocument/' + kind, dict(textDocument=dict(uri=uri), position=dict(line=line, character=ch))


def sem_req(uri):
    return 'textDocument/semanticTokens/full', dict(textDocument=dict(uri=uri))


def sym_req(q):
    return 'workspace/symbol', dict(query=q)


def frame(obj):
    b = json.dumps(obj, ensure_ascii=False).encode('utf-8')
    return (b'Content-Length: %d\r\n\r\n' % len(b) + b).decode('utf-8')


# ------------------------------------------------------------------------------------------------------------------------ driver (bytes-safe)
def drv(mode, cases, timeout=300, head_only=False):
    """Like R.driver, but binary-safe (texts with \\r) and it removes the driver's temp dir. -> [(status, payload)]; head_only: only the
    first line of the payload"""
    if not cases:
        return []
    p = subprocess.Popen([R.driver_binary(), mode], stdin=subprocess.PIPE, stdout=subprocess.PIPE, stderr=subprocess.PIPE)
    try:
        out, err = p.communicate('\n%%%%\n'.join(cases).encode('utf-8'), timeout=timeout)
    except subprocess.TimeoutExpired:
        p.kill()
        out, err = p.communicate()
    finally:
        shutil.rmtree(os.path.join(tempfile.gettempdir(), 'verif_driver_%d' % p.pid), ignore_errors=True)
    lines = out.split(b'\n')
    lines.pop()                      # '' behind the last newline, or a line cut short by a crash
    res = []
    for ln in lines[:len(cases)]:
        st, _, pl = ln.partition(b'\t')
        if head_only:
            pl = pl[:20000].split(b'\\n')[0]       # an escaped backslash before an n would only shorten the line further
        res.append((st.decode('utf-8', 'replace'), R.unesc(pl.decode('utf-8', 'replace'))))
    while len(res) < len(cases):
        res.append(('CRASH', ''))
    return res


def parser_verdicts(texts):
    """-> [(status, (line, column) | None)]; status OK / ERR / other (no claim)"""
    out = []
    for st, pl in drv('ast', texts, head_only=True):
        pos = None
        if st == 'ERR':
            m = re.search(r' at line: (\d+) column: (\d+)\s*$', pl)
            if m:
                pos = (int(m.group(1)), int(m.group(2)))
        out.append((st, pos))
    return out


def builds_ok(texts):
    """-> [bool]: the compiler (type checker + VM, strict) builds the text (as a file of its own in an empty directory)"""
    return [st == 'OK' for st, _ in drv('buildfile', texts)]


# ------------------------------------------------------------------------------------------------------------------------ oracle
def u16len(s):
    return len(s.encode('utf-16-le')) // 2


class Doc:
    """what the statement calls "the document": its lines and their lengths"""

    def __init__(self, text):
        self.text = text
        self.lines = text.split('\n')
        self.ascii = text.isascii()

    def pos_problem(self, line, ch, tol):
        if line >= len(self.lines):
            return 'line %d does not exist (the document has %d lines)' % (line, len(self.lines))
        ln = self.lines[line]
        if ch <= (len(ln) if self.ascii else u16len(ln)):
            return None
        if not ln.isascii() and ch <= len(ln.encode('utf-8')) and known('byte-columns'):
            tol['byte-columns'] = tol.get('byte-columns', 0) + 1
            return None
        return 'character %d is beyond line %d, which has %d characters' % (ch, line, u16len(ln))

    def at_eof(self, line, ch):
        last = self.lines[-1]
        return line == len(self.lines) - 1 and ch in (u16len(last), len(last.encode('utf-8')))


def range_problem(rng, doc, tol, diagnostic=False):
    try:
        a = (rng['start']['line'], rng['start']['character'])
        b = (rng['end']['line'], rng['end']['character'])
    except Exception:
        return 'not a range: %r' % (rng,)
    if a > b:
        return 'start %d:%d is behind end %d:%d' % (a + b)
    w = doc.pos_problem(a[0], a[1], tol)
    if w:
        return 'start: ' + w
    if diagnostic and known('diag-range-one-past-eof') and doc.at_eof(*a) and b == (a[0], a[1] + 1):
        tol['diag-range-one-past-eof'] = tol.get('diag-range-one-past-eof', 0) + 1
        return None
    w = doc.pos_problem(b[0], b[1], tol)
    if w:
        return 'end: ' + w
    return None


def semantic_problem(data, doc, tol):
    if not isinstance(data, list) or len(data) % 5 or any((not isinstance(x, int)) or x < 0 for x in data):
        return 'data is not a list of 5-tuples of unsigned integers'
    line = ch = 0
    tb = None
    for i in range(0, len(data), 5):
        dl, dc, n = data[i], data[i + 1], data[i + 2]
        if dl:
            line += dl
            ch = dc
        else:
            ch += dc
        w = doc.pos_problem(line, ch, tol)
        if not w:
            t2 = {}
            w = doc.pos_problem(line, ch + n, t2)
            if w and known('semantic-token-spans-lines'):
                if tb is None:
                    tb = doc.text.encode('utf-8')
                    offs, o = [], 0
                    for ln in doc.lines:
                        offs.append(o)
                        o += len(ln.encode('utf-8')) + 1
                start = offs[line] + ch
                if start + n <= len(tb) and b'\n' in tb[start:start + n]:
                    tol['semantic-token-spans-lines'] = tol.get('semantic-token-spans-lines', 0) + 1
                    w = None
            elif not w:
                for k, v in t2.items():
                    tol[k] = tol.get(k, 0) + v
        if w:
            return 'token #%d (line %d, character %d, length %d): %s' % (i // 5, line, ch, n, w)
    return None


def uri_path(uri):
    try:
        u = urlparse(uri)
        return unquote(u.path) if u.scheme == 'file' else None
    except Exception:
        return None


class World:
    """the client's view: texts of the open documents, last texts of closed ones, files on disk"""

    def __init__(self):
        self.open = {}
        self.closed_last = {}
        self._disk = {}

    def doc_of(self, uri):
        """-> (Doc, origin)"""
        if uri in self.open:
            t = self.open[uri]
            return (t if isinstance(t, Doc) else Doc(t)), 'open'
        p = uri_path(uri)
        if p and os.path.isfile(p):
            if p not in self._disk:
                try:
                    self._disk[p] = Doc(open(p, encoding='utf-8', errors='replace', newline='').read())
                except Exception:
                    self._disk[p] = Doc('')
            return self._disk[p], 'disk'
        return Doc(''), 'absent'


def locations_of(kind, result):
    """(uri | None for the requested document, range, what) for every range in a response"""
    out = []
    if result is None:
        return out
    if kind == 'hover':
        if isinstance(result, dict) and result.get('range') is not None:
            out.append((None, result['range'], 'hover range'))
    elif kind == 'definition':
        for loc in (result if isinstance(result, list) else [result]):
            if 'targetUri' in loc:
                out.append((loc['targetUri'], loc['targetRange'], 'definition targetRange'))
                out.append((loc['targetUri'], loc['targetSelectionRange'], 'definition targetSelectionRange'))
                if loc.get('originSelectionRange') is not None:
                    out.append((None, loc['originSelectionRange'], 'definition originSelectionRange'))
            else:
                out.append((loc['uri'], loc['range'], 'definition location'))
    elif kind == 'completion':
        items = result.get('items', []) if isinstance(result, dict) else result
        for it in items:
            te = it.get('textEdit')
            if te:
                for k in ('range', 'insert', 'replace'):
                    if k in te:
                        out.append((None, te[k], 'completion textEdit.' + k))
            for te in it.get('additionalTextEdits') or []:
                out.append((None, te['range'], 'completion additionalTextEdit'))
    elif kind == 'symbol':
        for sym in result:
            loc = sym.get('location') or {}
            if 'range' in loc:
                out.append((loc['uri'], loc['range'], 'workspace symbol `%s`' % sym.get('name')))
    return out


def response_problem(kind, uri, msg, world, tol):
    """None or (what is wrong, range) for one response message"""
    if 'error' in msg and 'result' not in msg:
        return None                      # an error object is an answer
    res = msg.get('result')
    try:
        if kind == 'semantic':
            if res is None:
                return None
            doc, _ = world.doc_of(uri)
            w = semantic_problem(res.get('data'), doc, tol)
            return ('semantic tokens: ' + w) if w else None
        for (u, rng, what) in locations_of(kind, res):
            tu = u or uri
            doc, origin = world.doc_of(tu)
            w = range_problem(rng, doc, tol)
            if w and origin == 'absent' and kind == 'symbol' and tu in world.closed_last and known('closed-unsaved-doc-stays-indexed'):
                if not range_problem(rng, Doc(world.closed_last[tu]), tol):
                    tol['closed-unsaved-doc-stays-indexed'] = tol.get('closed-unsaved-doc-stays-indexed', 0) + 1
                    w = None
            if w:
                return '%s %s in %s (%s document): %s' % (what, fmt_range(rng), tu, origin, w)
    except Exception as e:           # a result of an unexpected form
        return 'result of unexpected form (%r): %s' % (e, json.dumps(res)[:200])
    return None


def fmt_range(r):
    try:
        return '%d:%d-%d:%d' % (r['start']['line'], r['start']['character'], r['end']['line'], r['end']['character'])
    except Exception:
        return repr(r)


def diag_key(d):
    return json.dumps(d, sort_keys=True, ensure_ascii=False)


def same_diags(a, b):
    return sorted(map(diag_key, a)) == sorted(map(diag_key, b))


def show_diags(ds):
    return '[' + ', '.join('%s "%s"' % (fmt_range(d.get('range')), d.get('message', '')[:60]) for d in ds) + ']'


def diag_clause_problem(text, diags, verdict, built, tol):
    """clauses (c) for diagnostics, (e) and (f) for one text and the diagnostics published for it"""
    doc = Doc(text)
    for d in diags:
        w = range_problem(d.get('range'), doc, tol, diagnostic=True)
        if w:
            return 'c', 'diagnostic %s "%s": %s' % (fmt_range(d.get('range')), d.get('message', '')[:60], w)
    st, pos = verdict
    if st == 'ERR':
        if not diags:
            return 'e', 'the compiler\'s parser rejects the text%s, no diagnostic is published' % (' at line %d column %d' % pos if pos else '')
        if pos and pos[0] - 1 < len(doc.lines):
            lnb = doc.lines[pos[0] - 1].encode('utf-8')
            want_u16 = (pos[0] - 1, u16len(lnb[:pos[1] - 1].decode('utf-8', 'ignore')))
            want_byte = (pos[0] - 1, pos[1] - 1)
            starts = [(d['range']['start']['line'], d['range']['start']['character']) for d in diags]
            if want_u16 not in starts:
                if want_byte in starts and known('byte-columns'):
                    tol['byte-columns'] = tol.get('byte-columns', 0) + 1
                else:
                    return 'e', 'the compiler\'s parser rejects the text at line %d column %d (0-based %d:%d), the diagnostics are %s' % (pos + want_u16 + (show_diags(diags),))
    elif st == 'OK' and built and diags:
        return 'f', 'the compiler builds the text successfully, yet diagnostics are published: %s' % show_diags(diags)
    return None


def fresh_diags(root, uri, text):
    """what a fresh server publishes when `text` is opened directly -> list | ('dead', why)"""
    s = Server(root)
    try:
        s.initialize()
        s.notify(*open_msg(uri, text))
        s.call(*sym_req('zz'))
        return s.diags.get(uri)
    except (Dead, NoAnswer) as e:
        return ('dead', repr(e))
    finally:
        s.kill()


# ------------------------------------------------------------------------------------------------------------------------ texts
SHIPPED_DIRS = ['integration_tests', 'std', 'examples']
NONASCII = ['é', 'ü', 'ß', '日本', '語', '😀', 'Ω', 'я', 'a\u0301', '\u200b', '\ufeff', '\u00a0', '𝒳']
VOCAB = ['let', 'x', 'foo_bar', '1', '42', '1.5', '=', ';', '==', '=>', '>=', '<=', '<', '>', '::', '&&', '||', '%', '!=', '~', '+', '-', '*', '/', '.', ',', ':',
         '(', ')', '{', '}', '[', ']', '|', '"s t"', '"é"', '"', 'NULL', 'true', 'false', 'in', 'is', 'not', 'import', 'include', 'func', 'module', 'select', 'map',
         'filter', 'reduce', 'fail', 'assert', 'out', 'env', 'self', 'mod', 'as', 'constraint', 'convert', 'trace', '//', '@', '$', '#', '\\', "'", '`', '?', '!']
LEX = re.compile(r'\s+|//[^\n]*|"(?:\\.|[^"\\])*"|\w+|\S', re.S)

SPECIALS = [
    ('empty', ''), ('blank', ' '), ('newline', '\n'), ('newlines', '\n\n\n'), ('crlf only', '\r\n'), ('cr only', '\r'), ('tab', '\t'), ('bom', '\ufeff'),
    ('bom + let', '\ufefflet x = 1;\n'), ('nul', '\x00'), ('comment only', '// just a comment'), ('comment nl', '// c\n'), ('semicolon', ';'), ('quote', '"'),
    ('eof in let', 'let x = '), ('eof in let nl', 'let x = \n'), ('eof after op', 'let x = 1 +\n\n'), ('let only', 'let'), ('import only', 'import'), ('brace', '}'),
    ('unterminated string', 'let x = "abc'), ('unterminated escape', 'let x = "a\\'), ('single quotes', "let x = 'a';"), ('double comma', 'let x = {a = 1,, b = 2};'),
    ('valid', 'let x = 1;\nlet y = x + 1;\n'), ('valid no final newline', 'let x = 1;'), ('type error', 'let t = {a = 1};\nlet z = t.a + "s";\n'),
    ('non-ascii string', 'let s = "日本語";\nlet t = s + "é";\nlet u = [s, t];\n'), ('non-ascii then error', 'let s = "日本語" + ;'),
    ('non-ascii then error behind it', 'let s = "日本語"; let t = ;'),
    ('non-ascii then type error', 'let s = "日本語" + 1;\n'), ('non-ascii name', 'let é = 1;'), ('non-ascii comment', '// ünï 日本 😀\nlet a = 1; // 😀 trailing\nlet b = a;\n'),
    ('astral', 'let e = "😀😀"; let f = e + e;\nlet g = f + ;'), ('multi-line string', 'let m = "multi\nline\nstring"; let q = m;\nlet r = q + m;\n'),
    ('multi-line string non-ascii', 'let m = "é\n日本\n"; let q = m;\n'), ('crlf', 'let x = 1;\r\nlet y = x + 1;\r\n// c\r\nlet z = y;\r\n'),
    ('crlf error', 'let x = 1;\r\nlet y = ;\r\n'), ('crlf type error', 'let x = 1;\r\nlet y = x + "s";\r\n'), ('lone cr', 'let x = 1;\rlet y = 2;\r'),
    ('tabs', 'let\tx\t=\t;'), ('std import', 'let l = import "std/lists.ucg";\nlet n = l.len([1, 2]);\n'), ('missing import', 'let l = import "nope/missing.ucg";\nlet n = l.x;\n'),
    ('dot at end', 'let t = {a = 1};\nlet u = t.'), ('import string open', 'let l = import "std/'), ('func', 'let f = func (a, b) => a + b;\nlet r = f(1, 2);\n'),
    ('module', 'let m = module {a = 1} => (r) { let r = mod.a + 1; };\nlet i = m{a = 2};\n'), ('select', 'let s = select ("a", 0) => {a = 1, b = 2};\n'),
    ('range', 'let r = 1:5;\nlet q = 0:2:10;\n'), ('format', 'let s = "a @ b @" % (1, "x");\nlet e = "@{item.a}" % {a = 1};\n'),
    ('nest ( 60 open', 'let x = ' + '(' * 60), ('nest ( 60', 'let x = ' + '(' * 60 + '1' + ')' * 60 + ';'), ('nest { 40', 'let x = ' + '{a = ' * 40 + '1' + '}' * 40 + ';'),
    ('nest [ 60', 'let x = ' + '[' * 60 + '1' + ']' * 60 + ';'), ('not 60', 'let x = ' + 'not ' * 60 + 'true;'), ('sum 200', 'let x = ' + '1 + ' * 200 + '1;'),
    ('dots 100', 'let x = a' + '.b' * 100 + ';'), ('func 12', 'let x = ' + 'func (a) => ' * 12 + '1;'), ('garbage', '@#$' * 50), ('percent block', 'let x = 1;\n%%\nlet y = 2;'),
]
HUGE = [
    ('huge list line', 'let x = [' + '1, ' * 4000 + '1];'), ('huge non-ascii string line', 'let x = "' + 'é日' * 40000 + '";\nlet y = x;'),
    ('huge comment line', '// ' + 'x' * 200000 + '\nlet y = 1;'), ('many lines', 'let a = 1;\n' * 2500), ('huge garbage line', '@#$' * 20000),
    ('huge line then error', 'let x = [' + '1, ' * 3000 + '1]; let y = ;'),
]


def shipped_files(repo):
    out = []
    for d in SHIPPED_DIRS:
        out += sorted(glob.glob(os.path.join(repo, d, '**', '*.ucg'), recursive=True))
    return [os.path.relpath(f, repo) for f in out]


def copy_trees(dst):
    for d in SHIPPED_DIRS:
        shutil.copytree(os.path.join(R.REPO, d), os.path.join(dst, d))


def mutate(rnd, text):
    """one token-level or character-level mutation (never deepens the nesting by more than a few levels) -> (how, text)"""
    toks = LEX.findall(text)
    k = rnd.randrange(10)
    if not toks:
        k = 9
    if k == 0:
        cut = rnd.randrange(len(text) + 1)
        return 'truncated after %d characters' % cut, text[:cut]
    if k == 1:
        i = rnd.randrange(len(toks))
        return 'token %d deleted' % i, ''.join(toks[:i] + toks[i + 1:])
    if k == 2:
        i = rnd.randrange(len(toks))
        return 'token %d duplicated' % i, ''.join(toks[:i + 1] + toks[i:])
    if k == 3:
        i, j = rnd.randrange(len(toks)), rnd.randrange(len(toks))
        toks[i], toks[j] = toks[j], toks[i]
        return 'tokens %d and %d swapped' % (i, j), ''.join(toks)
    if k == 4:
        i = rnd.randrange(len(toks))
        toks[i] = rnd.choice(VOCAB)
        return 'token %d replaced by %s' % (i, toks[i]), ''.join(toks)
    if k == 5:
        i = rnd.randrange(len(toks) + 1)
        v = rnd.choice(VOCAB)
        return 'token %s inserted at %d' % (v, i), ''.join(toks[:i] + [' ', v, ' '] + toks[i:])
    if k == 6:
        i = rnd.randrange(len(text) + 1)
        c = rnd.choice(NONASCII)
        return '%r inserted at character %d' % (c, i), text[:i] + c + text[i:]
    if k == 7:
        return 'line ends -> CRLF', text.replace('\r\n', '\n').replace('\n', '\r\n')
    if k == 8:
        i = rnd.randrange(len(toks))
        return 'truncated before token %d' % i, ''.join(toks[:i])
    i = rnd.randrange(len(text) + 1)
    j = min(len(text), i + rnd.randrange(1, 40))
    return 'characters %d..%d deleted' % (i, j), text[:i] + text[j:]


def arbitrary_utf8(rnd):
    pieces = VOCAB + NONASCII + [' ', ' ', '  ', '\n', '\n', '\r\n', '\r', '\t', '\x00', '\x7f', '\x1b', '"', '\\n', 'é"', '// ', '0', '9' * 25, '.', '..']
    return ''.join(rnd.choice(pieces) for _ in range(rnd.choice([0, 1, 2, 3, 5, 8, 13, 21, 34, 55])))


NAMES = ['a', 'b1', 'cfg', 'host_name', 'Port', 'x_', 'list1', 'tpl', 'fn', 'val', 'item', 'total', 'k9', 'zed']
STRS = ['', 'a', 'hello world', 'é', '日本語', '😀', 'q\\"q', 'b\\\\s', 'tab\\tx', 'l1\\nl2', 'x @ y', 'ß Ω', 'multi\nline']


def gen_program(rnd):
    """a generated program: let statements over ints, strings (incl. non-ASCII), lists, tuples, functions, calls, select, ranges, format,
    modules, the on-disk import lib/shared.ucg and a std import; mostly well typed, now and then a type error"""
    eol = rnd.choice(['\n', '\n', '\n', '\r\n'])
    env = {'int': [], 'str': [], 'list': [], 'tuple': [], 'func': []}
    lines = []
    if rnd.random() < 0.3:
        lines.append('let shared = import "lib/shared.ucg";')
        env['shared'] = True
    if rnd.random() < 0.2:
        lines.append('let lists = import "std/lists.ucg";')
        env['lists'] = True

    def e_int(d=0):
        c = rnd.randrange(7)
        if c == 0 and env['int']:
            return rnd.choice(env['int'])
        if c == 1 and d < 3:
            return '%s %s %s' % (e_int(d + 1), rnd.choice(['+', '-', '*']), e_int(d + 1))
        if c == 2 and d < 3:
            return '(%s)' % e_int(d + 1)
        if c == 3 and env.get('shared'):
            return 'shared.port'
        if c == 4 and env['func']:
            return '%s(%s, %s)' % (rnd.choice(env['func']), e_int(d + 1), e_int(d + 1))
        if c == 5 and env.get('lists') and env['list']:
            return 'lists.len(%s)' % rnd.choice(env['list'])
        return str(rnd.choice([0, 1, 2, 7, 42, 1000, 9223372036854775807]))

    def e_str(d=0):
        c = rnd.randrange(6)
        if c == 0 and env['str']:
            return rnd.choice(env['str'])
        if c == 1 and d < 3:
            return '%s + %s' % (e_str(d + 1), e_str(d + 1))
        if c == 2:
            return '"v=@ w=@" %% (%s, %s)' % (e_int(d + 1), e_str(d + 1))
        if c == 3 and env.get('shared'):
            return 'shared.host'
        return '"%s"' % rnd.choice(STRS)

    def e_any(d=0):
        return rnd.choice([e_int, e_str])(d)

    n = rnd.choice([0, 1, 2, 3, 5, 8, 12])
    used = set()
    for i in range(n):
        nm = rnd.choice(NAMES)
        if nm in used:
            nm = '%s_%d' % (nm, i)
        used.add(nm)
        if rnd.random() < 0.2:
            lines.append('// %s' % rnd.choice(['note', 'ünï 日本', 'TODO: 😀', '', 'let commented = 1;']))
        k = rnd.randrange(14)
        if k <= 2:
            lines.append('let %s = %s;' % (nm, e_int()))
            env['int'].append(nm)
        elif k <= 4:
            lines.append('let %s = %s;' % (nm, e_str()))
            env['str'].append(nm)
        elif k == 5:
            lines.append('let %s = [%s];' % (nm, ', '.join(e_int() for _ in range(rnd.randrange(4)))))
            env['list'].append(nm)
        elif k == 6:
            flds = ['%s = %s' % (f, e_any()) for f in rnd.sample(['a', 'b', 'name', 'port', '"quoted key"'], rnd.randrange(1, 4))]
            lines.append(('let %s = {' + eol + '  %s,' + eol + '};') % (nm, (',' + eol + '  ').join(flds)))
            env['tuple'].append(nm)
        elif k == 7:
            lines.append('let %s = func (p, q) => p + q;' % nm)
            env['func'].append(nm)
        elif k == 8:
            lines.append('let %s = select ("a", %s) => {a = %s, b = %s};' % (nm, e_int(), e_int(), e_int()))
            env['int'].append(nm)
        elif k == 9:
            lines.append('let %s = %s:%s;' % (nm, rnd.choice([0, 1]), rnd.choice([3, 5])))
            env['list'].append(nm)
        elif k == 10:
            lines.append('let %s = module {arg = 1} => (res) { let res = mod.arg + %s; };' % (nm, e_int()))
        elif k == 11:
            lines.append('let %s = %s == %s;' % (nm, e_int(), e_int()))
        elif k == 12:
            lines.append('let %s = %s + %s;' % (nm, e_int(), e_str()))       # a type error
        else:
            lines.append('let %s = NULL;' % nm)
    return eol.join(lines) + (eol if rnd.random() < 0.8 and lines else '')


def session_text(rnd, bases):
    k = rnd.randrange(10)
    if k < 4:
        return gen_program(rnd)
    if k < 8:
        t = gen_program(rnd) if rnd.random() < 0.5 else rnd.choice(bases)
        for _ in range(rnd.choice([1, 1, 2, 3])):
            t = mutate(rnd, t)[1]
        return t
    return arbitrary_utf8(rnd)


# ------------------------------------------------------------------------------------------------------------------------ positions
def token_positions(text, tokens_payload):
    """(line, character) 0-based at the start, in the middle and at the end of every token.  Tokens from the real tokenizer when it
    accepts the text, else from a lexer-like regular expression.  Characters are byte columns (what the tokenizer reports); on lines with
    non-ASCII text the UTF-16 column is added."""
    out = []
    if tokens_payload is not None:
        for t in tokens_payload.split('\x1f'):
            f = t.split('\x1e')
            if len(f) < 5:
                continue
            line, col = int(f[2]) - 1, int(f[3]) - 1
            n = len(f[1].encode('utf-8')) + (2 if f[0] == 'QUOTED' else 0)
            out += [(line, col), (line, col + n // 2), (line, col + n)]
    else:
        tb = text.encode('utf-8')
        for m in re.finditer(rb'//[^\n]*|"(?:\\.|[^"\\])*"|\w+|[^\s\w]', tb):
            line = tb.count(b'\n', 0, m.start())
            col = m.start() - (tb.rfind(b'\n', 0, m.start()) + 1)
            n = m.end() - m.start()
            out += [(line, col), (line, col + n // 2), (line, col + n)]
    if not text.isascii():
        lines = text.split('\n')
        extra = []
        for (l, c) in out:
            if l < len(lines) and not lines[l].isascii():
                extra.append((l, u16len(lines[l].encode('utf-8')[:c].decode('utf-8', 'ignore'))))
        out += extra
    return out


def boundary_positions(text):
    lines = text.split('\n')
    n = len(lines)
    out = []
    for l in sorted(set([0, n // 2, max(0, n - 2), n - 1, n, n + 1, 2 ** 31 - 1, 2 ** 31, U32 - 1, U32])):
        ll = len(lines[l].encode('utf-8')) if l < n else 0
        for c in sorted(set([0, max(0, ll - 1), ll, ll + 1, ll + 2, 2 ** 31 - 1, 2 ** 31, U32 - 1, U32])):
            out.append((l, c))
    return out


def line_end_positions(text, rnd, k):
    lines = text.split('\n')
    idx = list(range(len(lines)))
    if len(idx) > k:
        idx = rnd.sample(idx, k)
    out = []
    for l in idx:
        ll = len(lines[l].encode('utf-8'))
        out += [(l, ll), (l, ll + 1)]
    return out


# ------------------------------------------------------------------------------------------------------------------------ reporting
def short(text, n=4000):
    return text if len(text) <= n else text[:n // 2] + '... [%d characters] ...' % (len(text) - n) + text[-n // 2:]


def viol(name, bound, n, detail, **inp):
    return dict(name=name, bound=bound, cases=n, status='violation', detail=' '.join(detail.split())[:900], input=inp)


def tol_note(tol):
    return ('; tolerated under KNOWN: ' + ', '.join('%s x%d' % kv for kv in sorted(tol.items()))) if tol else ''


def replay_minimal(root, opened, request):
    """fresh server: didOpen of the given documents, then the one request -> what happens ('answered', message) | ('dead', ...) | ('silent',)"""
    s = Server(root)
    try:
        s.initialize()
        for u, t in opened:
            s.notify(*open_msg(u, t))
        if request is None:
            i = s.post(*sym_req('zz'))
        else:
            s.send(request)
            i = request.get('id')
            s.next_id = max(s.next_id, i if isinstance(i, int) else 0)
        try:
            return ('answered', s.collect([i])[i])
        except Dead as e:
            return ('dead', e.args[1], e.args[2])
        except NoAnswer:
            return ('silent',)
    finally:
        s.kill()


def pinpoint(root, messages):
    """Replays `messages` (everything sent after initialize/initialized) one at a time, a workspace/symbol request after each; -> index of the
    first message after which the server is dead or silent (None: not reproducible), and why"""
    s = Server(root)
    try:
        s.initialize()
        s.next_id = 10 ** 6
        for i, m in enumerate(messages):
            if m.get('method') in ('shutdown', 'exit', 'initialize', 'initialized'):
                continue
            s.send(m)
            ids = [m['id']] if 'id' in m else []
            ids.append(s.post(*sym_req('zz')))
            try:
                s.collect(ids)
            except Dead as e:
                return i, 'the server exits with status %s: %s' % (e.args[1], e.args[2])
            except NoAnswer:
                return i, 'no response within %d s' % TIMEOUT
        return None, ''
    finally:
        s.kill()


def describe_exit(rc):
    if rc is None:
        return 'unknown status'
    if rc < 0:
        return 'signal %d (shell status %d)' % (-rc, 128 - rc)
    return 'status %d' % rc


# ------------------------------------------------------------------------------------------------------------------------ stand-in 1
def standin_lsp_positions(tier, seed):
    """documents x positions on one server process"""
    rnd = random.Random(seed)
    thorough = tier == 'thorough'
    name = 'lsp_positions'
    base = mktemp()
    root = os.path.join(base, 'ws')
    broot = os.path.join(base, 'build')
    os.makedirs(root)
    os.makedirs(broot)
    srv = None
    n = 0
    tol = {}
    try:
        copy_trees(root)
        os.makedirs(os.path.join(root, 'scratch'))
        rels = shipped_files(root)
        if thorough:
            chosen = list(rels)
        else:
            small = [r for r in rels if os.path.getsize(os.path.join(root, r)) < 2600]
            chosen = sorted(set(rnd.sample(small, 5) + ['integration_tests/import_test.ucg', 'std/tests/functional_test.ucg']))
        shipped = [(r, open(os.path.join(root, r), encoding='utf-8', newline='').read()) for r in chosen]
        alltexts = [open(os.path.join(root, r), encoding='utf-8', newline='').read() for r in rels]
        # documents: (label, uri, text, shipped?)
        docs = [('shipped ' + r, 'file://' + os.path.join(root, r), t, True) for r, t in shipped]
        specials = list(SPECIALS) + (HUGE if thorough else [('long list line', 'let x = [' + '1, ' * 1000 + '1];')])
        mutated = []
        for i in range(len(rels) * 4 if thorough else 16):
            r = rels[i % len(rels)] if thorough else rnd.choice(rels)
            t = alltexts[rels.index(r)]
            how = []
            for _ in range(rnd.choice([1, 1, 1, 2, 3])):
                h, t = mutate(rnd, t)
                how.append(h)
            mutated.append(('%s, %s' % (r, '; '.join(how)), t))
        for i in range(40 if thorough else 6):
            mutated.append(('arbitrary UTF-8 #%d' % i, arbitrary_utf8(rnd)))
        scratch = [(lab, t) for lab, t in specials + mutated if '\n%%%%\n' not in t]
        rnd.shuffle(scratch)             # so that the texts a scratch uri holds one after the other are unrelated
        # each scratch uri starts with a long valid text with many bindings: whatever the server keeps of an earlier text shows on the shorter texts behind it
        mid = [i for i in range(len(rels)) if 1200 < len(alltexts[i]) < 3000]
        scratch = [('first text of a scratch uri: ' + rels[i], alltexts[i]) for i in rnd.sample(mid, 3)] + scratch
        for i, (lab, t) in enumerate(scratch):
            docs.append((lab, 'file://' + os.path.join(root, 'scratch', 'm%d.ucg' % (i % 3)), t, False))
        bound = ('one `ucg lsp` process on a copy of integration_tests/ std/ examples/; %d documents: %d of the %d shipped .ucg files at their own paths%s, %d hand-made texts (empty, '
                 'blank, BOM, NUL, CRLF, lone CR, non-ASCII incl. astral, multi-line strings, unterminated constructs, nesting <= 60, %s), %d mutated shipped files (1-3 of: truncation, '
                 'token deleted / duplicated / swapped / replaced / inserted, non-ASCII character inserted, CRLF, span deleted), %d arbitrary UTF-8 texts, sent as didOpen / didChange of 3 scratch '
                 'uris; per document: semantic tokens + hover, definition, completion at start / middle / end of %s token (real tokenizer; + UTF-16 columns on non-ASCII lines) and at '
                 '%s 10 x 9 boundary positions (line in {0, mid, last, count, count+1, 2^31-1, 2^31, u32::MAX-1, u32::MAX} x character in {0, len-1, len, len+1, len+2, 2^31.., u32::MAX}); '
                 '%d workspace/symbol queries; requests on a closed and on a never opened uri; diagnostics of every document against parser and compiler'
                 % (len(docs), len(shipped), len(rels), '' if thorough else ' (seeded choice)', len(specials), 'lines up to 200 KB' if thorough else 'a 3 KB line',
                    len(mutated) - (40 if thorough else 6), 40 if thorough else 6, 'every (shipped files, at most 800 sampled per file; 60 sampled for the other texts)' if thorough else '20 (shipped) / 8 (other texts) sampled',
                    'the' if thorough else '(all for the shipped files and every 9th text, 10 sampled otherwise of) the', 6))
        texts = [d[2] for d in docs]
        # parser, tokenizer and compiler verdicts (in parallel with each other).  (f): shipped files are built by the real binary in a second
        # copy of the trees; the other texts by the driver, each as a file of its own
        copy_trees(broot)
        R.driver_binary()
        R.ucg_binary()
        rest = [i for i in range(len(docs)) if not docs[i][3]]

        def build_shipped():
            rc, so, se = R.run_ucg(['build'] + [r for r, _ in shipped], broot)
            return [True] * len(shipped) if rc == 0 else [R.run_ucg(['build', r], broot)[0] == 0 for r, _ in shipped]
        with ThreadPoolExecutor(max_workers=4) as ex:
            f1 = ex.submit(parser_verdicts, texts)
            f2 = ex.submit(drv, 'tokens', texts)
            f3 = ex.submit(builds_ok, [texts[i] for i in rest])
            f4 = ex.submit(build_shipped)
            verdicts, toks = f1.result(), f2.result()
            built = [False] * len(docs)
            built[:len(shipped)] = f4.result()
            for i, ok in zip(rest, f3.result()):
                built[i] = ok and verdicts[i][0] == 'OK'

        srv = Server(root)
        srv.initialize()
        world = World()
        opened_scratch = set()
        hist = {}
        how0 = '`ucg lsp` started in a copy of integration_tests/ std/ examples/ (rootUri = that directory), initialize, initialized, '
        for di, (lab, uri, text, is_shipped) in enumerate(docs):
            srv.sent = []
            doc = Doc(text)
            world.open[uri] = doc
            if is_shipped or uri not in opened_scratch:
                note = open_msg(uri, text)
                opened_scratch.add(uri)
            else:
                note = change_msg(uri, [text], version=di + 2)
            srv.notify(*note)
            reqs = {}
            reqs[srv.post(*sem_req(uri))] = ('semantic', None)
            tp = token_positions(text, toks[di][1] if toks[di][0] == 'OK' else None)
            cap = (800 if is_shipped else 60) if thorough else (20 if is_shipped else 8)
            if len(tp) > 3 * cap:
                pick = rnd.sample(range(len(tp) // 3), cap)
                tp = [p for k in pick for p in tp[3 * k:3 * k + 3]]
            bp = boundary_positions(text)
            if not thorough and not is_shipped and di % 9:
                bp = rnd.sample(bp, 10)
            for (l, c) in list(dict.fromkeys(tp + bp)):
                for kind in ('hover', 'definition', 'completion'):
                    reqs[srv.post(*pos_req(kind, uri, l, c))] = (kind, (l, c))
            if di % 7 == 0:
                reqs[srv.post(*sym_req(''))] = ('symbol', None)
            n += len(reqs)
            src = {uri: short(text)}
            earlier = hist.setdefault(uri, [])
            before = [dict(document=a, text=b) for a, b in (earlier if len(earlier) <= 6 else earlier[:2] + earlier[-4:])]
            earlier.append((lab, short(text, 1500)))
            try:
                got = srv.collect(list(reqs))
            except (Dead, NoAnswer) as e:
                rid = e.args[0]
                req = next(m for m in srv.sent if m.get('id') == rid)
                first = rid == min(reqs)
                rep = replay_minimal(root, [(uri, text)], None if first else req)
                what = ('the server process ends with %s: %s' % (describe_exit(e.args[1]), e.args[2])) if isinstance(e, Dead) else 'no response within %d s' % TIMEOUT
                culprit = ('the %s notification for this text (or the semanticTokens request behind it)' % note[0]) if first else 'request %s' % json.dumps(req['params'])
                return viol(name, bound, n, 'document "%s": on %s %s' % (lab, culprit, what), source=src, document=lab, request=req if not first else dict(method=note[0]),
                            request_bytes=None if first else frame(req), expected='the server keeps running and answers the request',
                            observed=what, minimal_replay='fresh server, didOpen of the source, %s -> %s' % ('a workspace/symbol request' if first else 'the request', rep[0]),
                            how=how0 + '%s(uri, source), then the request' % note[0])
            for rid, (kind, p) in reqs.items():
                w = response_problem(kind, uri, got[rid], world, tol)
                if w:
                    req = next(m for m in srv.sent if m.get('id') == rid)
                    rep = replay_minimal(root, [(uri, text)], req)
                    alone = rep[0] if rep[0] != 'answered' else ('the same kind of problem' if response_problem(kind, uri, rep[1], world, {}) else 'no problem: the history matters')
                    return viol(name, bound, n, 'document "%s", %s %s: %s' % (lab, req['method'], json.dumps(req['params'].get('position', req['params'].get('query'))), w),
                                source=src, document=lab, request=req, request_bytes=frame(req), expected='every range of the answer lies inside the document it names',
                                observed=json.dumps(got[rid], ensure_ascii=False)[:1500], earlier_texts_of_this_uri=before,
                                minimal_replay='fresh server, didOpen(uri, source), the request -> ' + alone,
                                how=how0 + 'the earlier texts of the uri (didOpen, then didChange), %s(uri, source), then the request' % note[0])
            # diagnostics of this text
            ds = srv.diags.get(uri)          # what the client shows: the diagnostics published last for the uri
            n += 1
            if ds is None:
                if verdicts[di][0] == 'ERR':
                    return viol(name, bound, n, 'document "%s": the compiler\'s parser rejects the text, nothing was ever published for the uri (%s)' % (lab, note[0]), source=src, document=lab,
                                expected='a syntax diagnostic', observed='no publishDiagnostics notification', how=how0 + '%s(uri, source)' % note[0])
                ds = []
            w = diag_clause_problem(text, ds, verdicts[di], built[di], tol)
            if w:
                fd = fresh_diags(root, uri, text)
                alone = 'dead' if isinstance(fd, tuple) else ('the same kind of problem' if diag_clause_problem(text, fd or [], verdicts[di], built[di], {}) else 'no problem: the history matters')
                return viol(name, bound, n, 'document "%s": %s' % (lab, w[1]), source=src, document=lab, clause=w[0], earlier_texts_of_this_uri=before,
                            minimal_replay='fresh server, didOpen(uri, source) -> ' + alone,
                            expected={'c': 'diagnostic ranges inside the document', 'e': 'a diagnostic at the parser\'s position',
                                      'f': 'no diagnostics for a text the compiler builds (%s)' % ('`ucg build %s` exits 0 in a copy of the trees' % lab[8:] if is_shipped else 'replay driver `buildfile`: OK')}[w[0]],
                            observed=show_diags(ds), how=how0 + '%s(uri, source); publishDiagnostics for the uri' % note[0])
            if is_shipped:
                srv.notify(*close_msg(uri))
                world.open.pop(uri, None)
        # requests on a closed, on a never opened and on a non-file uri; symbol queries (the scratch documents, which are no files, are closed first)
        reqs = {}
        srv.sent = []
        for u in sorted(opened_scratch):
            if not os.path.exists(uri_path(u)):
                srv.notify(*close_msg(u))
                world.closed_last[u] = world.open.pop(u).text
        for u in ['file://' + os.path.join(root, shipped[0][0]), 'file://' + os.path.join(root, 'never', 'opened.ucg'), 'untitled:Untitled-1', 'file:///']:
            for (l, c) in [(0, 0), (0, 4), (3, 7), (U32, U32)]:
                for kind in ('hover', 'definition', 'completion'):
                    reqs[srv.post(*pos_req(kind, u, l, c))] = (kind, u)
            reqs[srv.post(*sem_req(u))] = ('semantic', u)
        for q in ['', 'a', 'len', 'zz_nothing', 'é日本😀', 'x' * 5000]:
            reqs[srv.post(*sym_req(q))] = ('symbol', None)
        n += len(reqs)
        try:
            got = srv.collect(list(reqs))
        except (Dead, NoAnswer) as e:
            req = next(m for m in srv.sent if m.get('id') == e.args[0])
            what = ('the server process ends with %s: %s' % (describe_exit(e.args[1]), e.args[2])) if isinstance(e, Dead) else 'no response within %d s' % TIMEOUT
            return viol(name, bound, n, 'request %s %s: %s' % (req['method'], json.dumps(req['params']), what), source={}, request=req, request_bytes=frame(req),
                        expected='the server keeps running and answers', observed=what, how=how0 + 'the request (its uri is not open)')
        for rid, (kind, u) in reqs.items():
            w = response_problem(kind, u, got[rid], world, tol)
            if w:
                req = next(m for m in srv.sent if m.get('id') == rid)
                return viol(name, bound, n, '%s %s: %s' % (req['method'], json.dumps(req['params']), w), source={k: short(v.text) for k, v in world.open.items()}, request=req,
                            request_bytes=frame(req), expected='ranges inside the documents', observed=json.dumps(got[rid], ensure_ascii=False)[:1500], how=how0 + 'all documents of the bound, then the request')
        if not srv.alive():
            return viol(name, bound, n, 'the server process ended before shutdown / exit (%s)' % describe_exit(srv.p.poll()), source={}, expected='alive', observed=srv.stderr_tail(), how=how0 + 'the documents of the bound')
        try:
            srv.shutdown()
        except (Dead, NoAnswer) as e:
            return viol(name, bound, n, 'the shutdown request is not answered: %r' % (e,), source={}, expected='a response', observed=repr(e), how=how0 + 'all documents of the bound, shutdown')
        dup = [m for m in srv.stray if 'id' in m and 'method' not in m]
        if dup:
            return viol(name, bound, n, 'request %r was answered more than once' % dup[0]['id'], source={}, expected='exactly one response per request', observed=json.dumps(dup[0])[:500], how=how0 + 'the documents of the bound')
        return dict(name=name, bound=bound, cases=n, status='ok', detail='%d requests answered, %d documents%s' % (n - len(docs), len(docs), tol_note(tol)))
    finally:
        if srv:
            srv.kill()
        rmtemp(base)


# ------------------------------------------------------------------------------------------------------------------------ stand-in 2
LIB_SHARED = 'let port = 8080;\nlet host = "localhost";\nlet mk = func (a) => {name = a};\nlet tpl = {x = 1, y = "s"};\n'
DOC0_DISK = '// the file on disk\nlet on_disk = 1;\nlet also = on_disk + 1;\n'


def make_small_root(base):
    root = os.path.join(base, 'ws')
    os.makedirs(os.path.join(root, 'lib'))
    open(os.path.join(root, 'lib', 'shared.ucg'), 'w').write(LIB_SHARED)
    open(os.path.join(root, 'doc0.ucg'), 'w').write(DOC0_DISK)
    return root


def gen_session(rnd, uris, state, bases, version):
    """1..30 messages over 1..3 documents -> list of (method, params, info); `state` (uri -> current text | None) is updated"""
    docs = uris[:rnd.randint(1, 3)]
    msgs = []
    for _ in range(rnd.randint(1, 30)):
        u = rnd.choice(docs)
        cur = state.get(u)
        r = rnd.random()
        version[0] += 1
        if cur is None:
            if r < 0.70:
                kind = 'open'
            elif r < 0.78:
                kind = 'change'
            elif r < 0.83:
                kind = 'close'
            else:
                kind = 'request'
        else:
            if r < 0.30:
                kind = 'change'
            elif r < 0.37:
                kind = 'close'
            elif r < 0.40:
                kind = 'open'
            else:
                kind = 'request'
        if kind == 'open':
            t = session_text(rnd, bases)
            state[u] = t
            msgs.append(open_msg(u, t, version[0]) + ('open',))
        elif kind == 'change':
            k = rnd.random()
            ts = [] if k < 0.06 else [session_text(rnd, bases) for _ in range(2 if k < 0.15 else 1)]
            if ts:
                state[u] = ts[-1]
            msgs.append(change_msg(u, ts, version[0]) + ('change',))
        elif kind == 'close':
            msgs.append(close_msg(u) + ('close',))
            state[u] = None
        else:
            k = rnd.randrange(10)
            if k == 0:
                msgs.append(sem_req(u) + ('semantic',))
            elif k == 1:
                msgs.append(sym_req(rnd.choice(['', 'a', 'port', 'on_disk', 'é', 'zz'])) + ('symbol',))
            else:
                t = cur or ''
                cands = token_positions(t, None)[:300] + line_end_positions(t, rnd, 3) + boundary_positions(t)
                l, c = rnd.choice(cands)
                msgs.append(pos_req(rnd.choice(['hover', 'definition', 'completion']), u, l, c) + (None,))
    return msgs


def standin_lsp_sessions(tier, seed):
    """seeded random sessions; diagnostics against a fresh server, the parser and the compiler"""
    rnd = random.Random(seed)
    thorough = tier == 'thorough'
    name = 'lsp_sessions'
    nsess = 120 if thorough else 12
    per_server = 15 if thorough else 12
    bound = ('%d seeded sessions of 1..30 messages over 1..3 documents (doc0.ucg exists on disk with another text, doc1.ucg / doc2.ucg do not; root also holds lib/shared.ucg), %d '
             'sessions per server process: didOpen / didChange (1 text, 2 texts, no text; also on unopened uris) / didClose (also of unopened uris) / re-open, hover / definition / '
             'completion at token starts, inside and behind tokens, line ends, beyond the text and at u32 boundaries, semantic tokens, workspace symbols; texts: 40%% generated '
             'programs (ints, strings incl. non-ASCII, lists, tuples, functions, select, ranges, format, modules, imports of lib/shared.ucg and std, CRLF, type errors), 40%% with 1-3 '
             'token / character mutations, 20%% arbitrary UTF-8; after every session: all ranges, and for every open document the diagnostics published last == a fresh '
             'server\'s on the final text, parser and compiler clauses' % (nsess, per_server))
    base = mktemp()
    n = 0
    tol = {}
    srv = None
    pool = ThreadPoolExecutor(max_workers=4)
    try:
        root = make_small_root(base)
        uris = ['file://' + os.path.join(root, 'doc%d.ucg' % i) for i in range(3)]
        bases = []
        for r in ['integration_tests/import_test.ucg', 'integration_tests/simple_values_test.ucg', 'integration_tests/concatenation_test.ucg', 'examples/test_flags.ucg',
                  'integration_tests/trace_test.ucg', 'examples/module_example/modules/host_module.ucg']:
            try:
                bases.append(open(os.path.join(R.REPO, r), encoding='utf-8', newline='').read())
            except Exception:
                pass
        bases = bases or ['let x = 1;\n']
        how0 = '`ucg lsp` started in a directory holding lib/shared.ucg and doc0.ucg (see files), initialize(rootUri = that directory), initialized, then `messages` in order'
        files = {'lib/shared.ucg': LIB_SHARED, 'doc0.ucg': DOC0_DISK}
        finals = []           # (session number, uri, text, diagnostics)

        def history_replay(k):
            """the first k messages sent to the current server process, without the initialize handshake"""
            return [m for m in srv.sent[:k] if m.get('method') not in ('initialize', 'initialized')]

        for si in range(nsess):
            if srv is None or si % per_server == 0:
                if srv:
                    try:
                        srv.shutdown()
                    except (Dead, NoAnswer) as e:
                        return viol(name, bound, n, 'shutdown after session %d is not answered: %r' % (si - 1, e), source={}, expected='a response', observed=repr(e), how=how0)
                    srv.kill()
                srv = Server(root)
                srv.initialize()
                state = {}
                world = World()
                version = [0]
            msgs = gen_session(rnd, uris, state, bases, version)
            if rnd.random() < 0.7:                  # most sessions end with every document closed
                for u in uris:
                    if state.get(u) is not None and rnd.random() < 0.8:
                        msgs.append(close_msg(u) + ('close-end',))
            # the texts before the final closes are the "final texts" whose diagnostics are compared
            reqs = {}
            snapshot = {}
            cur = dict(world.open)
            closed_last = dict(world.closed_last)
            views = {}                             # request id -> (open texts, closed_last) at the time of the request
            for (method, params, info) in msgs:
                if info in ('open', 'change'):
                    u = params['textDocument']['uri']
                    ts = [params['textDocument']['text']] if info == 'open' else [c['text'] for c in params['contentChanges']]
                    if ts:
                        cur = dict(cur)
                        cur[u] = ts[-1]
                    srv.notify(method, params)
                elif info in ('close', 'close-end'):
                    u = params['textDocument']['uri']
                    if info == 'close-end' and u not in snapshot and u in cur:
                        snapshot[u] = ('final', cur[u], srv.post(*sym_req('zz_sync')))
                        reqs[snapshot[u][2]] = ('symbol', None)
                        views[snapshot[u][2]] = (cur, closed_last)
                    if u in cur:
                        closed_last = dict(closed_last)
                        closed_last[u] = cur[u]
                        cur = dict(cur)
                        del cur[u]
                    srv.notify(method, params)
                else:
                    rid = srv.post(method, params)
                    kind = info or method.split('/')[-1]
                    reqs[rid] = (kind, params.get('textDocument', {}).get('uri'))
                    views[rid] = (cur, closed_last)
            sync = srv.post(*sym_req(''))
            reqs[sync] = ('symbol', None)
            views[sync] = (cur, closed_last)
            n += len(msgs)
            # diagnostics have to be read between the sync requests: collect in order
            order = sorted(reqs)
            got = {}
            diag_at = {}
            try:
                for rid in order:
                    got.update(srv.collect([rid]))
                    diag_at[rid] = dict(srv.diags)
            except (Dead, NoAnswer) as e:
                sent = [m for m in srv.sent if m.get('method') not in ('initialize', 'initialized')]
                idx, why = pinpoint(root, sent)
                what = ('the server process ends with %s: %s' % (describe_exit(e.args[1]), e.args[2])) if isinstance(e, Dead) else 'request %s got no response within %d s' % (e.args[0], TIMEOUT)
                culprit = sent[idx] if idx is not None else next((m for m in sent if m.get('id') == e.args[0]), None)
                replay = sent[:idx + 1] if idx is not None else sent
                return viol(name, bound, n, 'session %d: %s; culprit: %s' % (si, what, json.dumps(culprit, ensure_ascii=False)[:400]), source=files, messages=replay[-60:],
                            culprit=culprit, culprit_bytes=frame(culprit) if culprit else None, expected='the server keeps running and answers every request',
                            observed=what + ('; replayed one message at a time in a fresh server: ' + why if idx is not None else '; not reproduced by a one-by-one replay'), how=how0)
            for rid in order:
                kind, u = reqs[rid]
                world.open, world.closed_last = views[rid]
                w = response_problem(kind, u, got[rid], world, tol)
                if w:
                    req = next(m for m in srv.sent if m.get('id') == rid)
                    k = srv.sent.index(req)
                    return viol(name, bound, n, 'session %d, %s %s: %s' % (si, req['method'], json.dumps(req['params'], ensure_ascii=False)[:200], w), source=files,
                                open_documents={a: short(b) for a, b in world.open.items()}, messages=history_replay(k + 1)[-60:], request_bytes=frame(req),
                                expected='every range of the answer lies inside the (current text of the) document it names', observed=json.dumps(got[rid], ensure_ascii=False)[:1500], how=how0)
            world.open, world.closed_last = cur, closed_last
            # final texts of this session
            fin = {}
            for u, (tag, t, rid) in snapshot.items():
                fin[u] = (t, diag_at[rid].get(u))
            for u, t in cur.items():
                fin[u] = (t, diag_at[sync].get(u))
            for u, (t, ds) in fin.items():
                if '\n%%%%\n' in t:
                    continue
                finals.append((si, u, t, ds, history_replay(len(srv.sent))[-80:]))
        if srv:
            try:
                srv.shutdown()
            except (Dead, NoAnswer) as e:
                return viol(name, bound, n, 'the last shutdown is not answered: %r' % (e,), source={}, expected='a response', observed=repr(e), how=how0)
            dup = [m for m in srv.stray if 'id' in m and 'method' not in m]
            if dup:
                return viol(name, bound, n, 'request %r was answered more than once' % dup[0]['id'], source={}, expected='exactly one response per request', observed=json.dumps(dup[0])[:500], how=how0)
            srv.kill()
            srv = None
        # clauses (d), (e), (f) on the final texts
        texts = [f[2] for f in finals]
        verdicts = parser_verdicts(texts)
        okidx = [i for i, v in enumerate(verdicts) if v[0] == 'OK']
        built = [False] * len(finals)
        for i, ok in zip(okidx, builds_ok([texts[i] for i in okidx])):
            built[i] = ok
        seen = {}
        limit = len(finals) if thorough else 10
        for i, (si, u, t, ds, hist) in enumerate(finals):
            if (u, t) not in seen and len(seen) < limit:
                seen[(u, t)] = pool.submit(fresh_diags, root, u, t)
        for i, (si, u, t, ds, hist) in enumerate(finals):
            n += 1
            src = dict(files)
            src[u] = short(t)
            if ds is None:
                if verdicts[i][0] == 'ERR':
                    return viol(name, bound, n, 'session %d: nothing was ever published for %s although its text is rejected by the parser' % (si, u), source=src, messages=hist,
                                expected='a syntax diagnostic', observed='no publishDiagnostics', how=how0)
                ds = []
            w = diag_clause_problem(t, ds, verdicts[i], built[i], tol)
            if w:
                return viol(name, bound, n, 'session %d, %s: %s' % (si, os.path.basename(u), w[1]), source=src, messages=hist, clause=w[0],
                            expected={'c': 'diagnostic ranges inside the document', 'e': 'a diagnostic at the parser\'s position', 'f': 'no diagnostics: replay driver `buildfile` builds the text'}[w[0]],
                            observed=show_diags(ds), how=how0 + '; the diagnostics published last for the uri')
            fut = seen.get((u, t))
            if fut is not None:
                fd = fut.result(timeout=60)
                if isinstance(fd, tuple):
                    return viol(name, bound, n, 'a fresh server dies / hangs when %s is opened on the final text of session %d: %s' % (os.path.basename(u), si, fd[1]), source=src,
                                expected='the server keeps running', observed=fd[1], how='fresh `ucg lsp` in the same directory, initialize, didOpen(uri, source), workspace/symbol')
                if not same_diags(ds, fd or []):
                    return viol(name, bound, n, 'session %d, %s: the diagnostics published last, %s, differ from what a fresh server publishes for the same text, %s'
                                % (si, os.path.basename(u), show_diags(ds), show_diags(fd or [])), source=src, messages=hist, expected=show_diags(fd or []), observed=show_diags(ds),
                                how=how0 + '; compare the last publishDiagnostics for the uri with: fresh `ucg lsp` in the same directory, initialize, didOpen(uri, final text)')
        return dict(name=name, bound=bound, cases=n, status='ok',
                    detail='%d final texts checked (%d against a fresh server, %d rejected by the parser, %d built by the compiler)%s'
                           % (len(finals), len(seen), sum(1 for v in verdicts if v[0] == 'ERR'), sum(built), tol_note(tol)))
    finally:
        pool.shutdown(wait=True, cancel_futures=True)
        if srv:
            srv.kill()
        for s in list(LIVE):
            if s.root.startswith(base):
                s.kill()
        rmtemp(base)


# ------------------------------------------------------------------------------------------------------------------------ stand-in 3
def _h(params, method='textDocument/hover'):
    return dict(jsonrpc='2.0', id=2, method=method, params=params)


_U = 'file:///tmp/a.ucg'
MALFORMED = [
    ('hover, line -1', _h(dict(textDocument=dict(uri=_U), position=dict(line=-1, character=0)))),
    ('hover, line 2^32', _h(dict(textDocument=dict(uri=_U), position=dict(line=2 ** 32, character=0)))),
    ('hover, line 1.5', _h(dict(textDocument=dict(uri=_U), position=dict(line=1.5, character=0)))),
    ('hover without position', _h(dict(textDocument=dict(uri=_U)))),
    ('hover, uri "not a uri"', _h(dict(textDocument=dict(uri='not a uri'), position=dict(line=0, character=0)))),
    ('hover, params null', _h(None)),
    ('definition, character "x"', _h(dict(textDocument=dict(uri=_U), position=dict(line=0, character='x')), 'textDocument/definition')),
    ('completion without textDocument', _h(dict(position=dict(line=0, character=0)), 'textDocument/completion')),
    ('semantic tokens, params []', _h([], 'textDocument/semanticTokens/full')),
    ('workspace/symbol without query', _h({}, 'workspace/symbol')),
    ('didOpen without text', dict(jsonrpc='2.0', method='textDocument/didOpen', params=dict(textDocument=dict(uri=_U, languageId='ucg', version=1)))),
    ('didChange, contentChanges null', dict(jsonrpc='2.0', method='textDocument/didChange', params=dict(textDocument=dict(uri=_U, version=2), contentChanges=None))),
    ('didClose, uri 7', dict(jsonrpc='2.0', method='textDocument/didClose', params=dict(textDocument=dict(uri=7)))),
]
DEEP = [
    ('400 open parentheses', 'let x = ' + '(' * 400), ('400 nested parentheses', 'let x = ' + '(' * 400 + '1' + ')' * 400 + ';'), ('200 nested tuples', 'let x = ' + '{a = ' * 200 + '1' + '}' * 200 + ';'),
    ('400 nested lists', 'let x = ' + '[' * 400 + '1' + ']' * 400 + ';'), ('800 x not', 'let x = ' + 'not ' * 800 + 'true;'), ('3200 additions', 'let x = ' + '1 + ' * 3200 + '1;'),
]


def standin_lsp_excluded(tier, seed):
    """the families on which the pinned HEAD is KNOWN to break the statement; each runs as soon as its KNOWN entry is deleted"""
    name = 'lsp_excluded'
    bound = ('%d requests / notifications whose params do not deserialize, %d deeply nested texts, 1 two-document scenario (unsaved text of an imported open document)'
             % (len(MALFORMED), len(DEEP)))
    skipped = []
    n = 0
    base = mktemp()
    try:
        root = make_small_root(base)
        open(os.path.join(root, 'lib.ucg'), 'w').write('let v = 1;\n')
        uri = 'file://' + os.path.join(root, 'a.ucg')
        how0 = '`ucg lsp` in a directory holding lib.ucg = `let v = 1;`, initialize, initialized, didOpen(%s, `let x = 1;`), then ' % uri
        if known('malformed-params'):
            skipped.append('malformed-params (%d inputs)' % len(MALFORMED))
        else:
            for lab, msg in MALFORMED:
                n += 1
                msg = json.loads(json.dumps(msg).replace(_U, uri))
                s = Server(root)
                try:
                    s.initialize()
                    s.notify(*open_msg(uri, 'let x = 1;\n'))
                    s.send(msg)
                    s.next_id = 100
                    try:
                        ids = [s.post(*sym_req(''))]
                        if 'id' in msg:
                            ids.append(msg['id'])
                        s.collect(ids)
                    except (Dead, NoAnswer) as e:
                        what = ('the server exits with %s: %s' % (describe_exit(e.args[1]), e.args[2])) if isinstance(e, Dead) else 'no response within %d s' % TIMEOUT
                        return viol(name, bound, n, '%s: %s' % (lab, what), source={uri: 'let x = 1;\n'}, request=msg, request_bytes=frame(msg),
                                    expected='the server keeps running and answers (an error response)', observed=what, how=how0 + 'the request bytes')
                finally:
                    s.kill()
        if known('deep-nesting-stack-overflow'):
            skipped.append('deep-nesting-stack-overflow (%d inputs)' % len(DEEP))
        else:
            for lab, text in DEEP:
                n += 1
                r = replay_minimal(root, [(uri, text)], None)
                if r[0] != 'answered':
                    return viol(name, bound, n, 'didOpen of %s: %s' % (lab, r[1:] if r[0] == 'dead' else 'no response'), source={uri: text}, expected='the server keeps running', observed=repr(r),
                                how='fresh `ucg lsp`, initialize, didOpen(uri, source), workspace/symbol request')
        if known('unsaved-import-leaks'):
            skipped.append('unsaved-import-leaks (1 scenario)')
        else:
            n += 1
            a = 'let l = import "lib.ucg";\nlet y = l.v + 1;\n'
            s = Server(root)
            try:
                s.initialize()
                s.notify(*open_msg('file://' + os.path.join(root, 'lib.ucg'), 'let v = "s";\n'))
                s.notify(*open_msg(uri, a))
                s.call(*sym_req(''))
                ds = s.diags.get(uri) or []
            finally:
                s.kill()
            fd = fresh_diags(root, uri, a)
            if not same_diags(ds, fd or []):
                return viol(name, bound, n, 'a.ucg gets %s in the session and %s from a fresh server' % (show_diags(ds), show_diags(fd or [])), source={'lib.ucg (disk)': 'let v = 1;\n', 'lib.ucg (editor)': 'let v = "s";\n', uri: a},
                            expected=show_diags(fd or []), observed=show_diags(ds), how='didOpen lib.ucg with the editor text, didOpen a.ucg; fresh server: didOpen a.ucg only')
        return dict(name=name, bound=bound, cases=n, status='ok', detail='excluded as KNOWN (see the KNOWN list of bounded/c20.py): ' + ('; '.join(skipped) or 'nothing'))
    finally:
        for s in list(LIVE):
            if s.root.startswith(base):
                s.kill()
        rmtemp(base)


def standin_lsp_histories(tier, seed):
    """designed edit histories whose LAST text is valid: what the server publishes for it must be what a fresh server publishes for the
    same text over the same files (diagnostics depend on the current texts only, not on earlier versions or on open / close events)"""
    name = 'lsp_histories'
    rnd = random.Random(seed + 5)
    names = ['a', 'm', 'zz', 'b0', 'q'] if tier == 'thorough' else ['a', rnd.choice(['m', 'zz', 'b0', 'q'])]
    bound = ('%d workspaces x 2 history families: (1) a document that imports ITSELF, edited in 2..3 steps so that a binding changes its type between versions; (2) files on disk forming a '
             'diamond (A imports B and C, C imports B) under %d namings x 3 directory layouts x 2 uses of c.b.v (a valid one, one with a latent type error), A opened after an unedited open + close of B or C; after every step '
             'the diagnostics published last for the document == a fresh server\'s on the same text and files' % (len(names), len(names)))
    base = mktemp()
    n = 0
    try:
        for wi, nm in enumerate(names):
            # (1) self import
            root = os.path.join(base, 'self%d' % wi)
            os.makedirs(root)
            f = '%s.ucg' % nm
            uri = 'file://' + os.path.join(root, f)
            v_str = 'let v = "s";\n'
            v_int = 'let v = 1;\nlet me = import "%s";\nlet y = me.v + 1;\n' % f
            v_str2 = 'let v = "s";\nlet me = import "%s";\nlet y = me.v + "t";\n' % f
            for hist in ([v_str, v_int], [v_int, v_str2], [v_str, v_int, v_str2], [v_str2, v_int]):
                srv = Server(root)
                try:
                    srv.initialize()
                    for k, t in enumerate(hist):
                        if k == 0:
                            srv.notify(*open_msg(uri, t))
                        else:
                            srv.notify(*change_msg(uri, [t], k + 1))
                        srv.call(*sym_req('zz'))
                        got = srv.diags.get(uri)
                        want = fresh_diags(root, uri, t)
                        n += 1
                        if isinstance(want, tuple) or not same_diags(got or [], want or []):
                            return viol(name, bound, n, 'self-importing %s after versions %r: published %s, a fresh server on the last text publishes %s' % (f, hist[:k + 1], show_diags(got or []), want if isinstance(want, tuple) else show_diags(want or [])),
                                        source=dict(file=f, versions=hist[:k + 1]), expected='the diagnostics of a fresh server on the last version', observed=show_diags(got or []),
                                        how='`ucg lsp` in an empty directory: initialize, didOpen(first version), didChange(each later version); compare with a fresh server that opens the last version')
                except (Dead, NoAnswer) as e:
                    return viol(name, bound, n, 'server died / did not answer in a self-import history: %r' % (e,), source=dict(file=f, versions=hist), expected='answers', observed=repr(e), how='see detail')
                finally:
                    srv.kill()
            # (2) diamond on disk; the names decide the directory listing order (sub directory before / after the top file, or none)
            for li, (sub, top) in enumerate([('', '%s_top.ucg' % nm), ('a_%s' % nm, 'm_%s.ucg' % nm), ('z_%s' % nm, 'm_%s.ucg' % nm)]):
                for vi, use in enumerate(['c.b.v + "?"', 'c.b.v + 1']):         # a valid use, and one whose verdict depends on how much of c's shape is known
                    root = os.path.join(base, 'dia%d_%d_%d' % (wi, li, vi))
                    os.makedirs(os.path.join(root, sub) if sub else root)
                    fa, fb, fc = top, os.path.join(sub, 'b.ucg'), os.path.join(sub, 'c.ucg')
                    texts = {fb: 'let v = "s";\n',
                             fc: 'let b = import "b.ucg";\n',
                             fa: 'let b = import "%s";\nlet c = import "%s";\nlet y = %s;\n' % (fb, fc, use)}
                    order = [fa, fb, fc] if (wi + li) % 2 == 0 else [fb, fc, fa]
                    for rel in order:
                        open(os.path.join(root, rel), 'w').write(texts[rel])
                    ua = 'file://' + os.path.join(root, fa)
                    want = fresh_diags(root, ua, texts[fa])
                    for other in (fc, fb):
                        srv = Server(root)
                        try:
                            srv.initialize()
                            uo = 'file://' + os.path.join(root, other)
                            srv.notify(*open_msg(uo, texts[other]))
                            srv.notify(*close_msg(uo))
                            srv.notify(*open_msg(ua, texts[fa]))
                            srv.call(*sym_req('zz'))
                            got = srv.diags.get(ua)
                            n += 1
                            if isinstance(want, tuple) or not same_diags(got or [], want or []):
                                return viol(name, bound, n, 'diamond %s <- {%s, %s}: after an unedited open + close of %s the server publishes %s for %s, a fresh server publishes %s' % (fa, fb, fc, other, show_diags(got or []), fa, want if isinstance(want, tuple) else show_diags(want or [])),
                                            source=dict(files=texts, opened_and_closed=other, then_opened=fa), expected='the diagnostics of a fresh server', observed=show_diags(got or []),
                                            how='write the files, `ucg lsp` in that directory: initialize, didOpen + didClose of the named file with its disk text, didOpen of the top file; compare with a fresh server that only opens the top file')
                        except (Dead, NoAnswer) as e:
                            return viol(name, bound, n, 'server died / did not answer in a diamond history: %r' % (e,), source=dict(files=texts), expected='answers', observed=repr(e), how='see detail')
                        finally:
                            srv.kill()
        return dict(name=name, bound=bound, cases=n, status='ok')
    finally:
        rmtemp(base)


STANDINS = [standin_lsp_positions, standin_lsp_sessions, standin_lsp_excluded, standin_lsp_histories]
