//@ unit constraint_vm
//@ serves C06 C04
//@ must_verify VM::op_build_constraint VM::op_check_constraint VM::push VM::pop Val::from lemma_width_mono lemma_arm_step lemma_arm_bad lemma_arms_init
//@ include prelude/head.rs
use std::rc::Rc;
use vstd::std_specs::iter::IteratorSpec;

verus! {
//@ include prelude/core.rs
//@ include prelude/constraint_rt_models.rs
//@ include prelude/constraint_rt_ir.rs
//@ include prelude/constraint_vm_types.rs

// the paths the extracted handlers name
pub mod build { pub mod ir { pub use crate::{ConstraintBound, ConstraintVal, ConstraintValArm, Val}; } }

//@ extract src/build/opcode/vm.rs :: struct VM
//@   rule R0 RV
//@   subst "working_dir: PathBuf" => "working_dir: VPathBuf"
//@   subst "runtime: runtime::Builtins" => "runtime: Builtins"
//@   subst "reserved_words: &'static BTreeSet<&'static str>" => "reserved_words: ReservedWords"
//@ end

// nothing but the value stack (and the `last` debugging slot) changes
pub open spec fn frame(a: VM, b: VM) -> bool {
    a.symbols == b.symbols && a.self_stack == b.self_stack && a.ops == b.ops && a.import_stack == b.import_stack
    && a.working_dir == b.working_dir && a.runtime == b.runtime && a.reserved_words == b.reserved_words
}

// ---------- callees proved in unit constraint_rt (same contract text); here their contracts are assumed (R8) ----------
//@ extract src/build/ir.rs :: impl ConstraintVal :: fn check
//@   opaque_body
//@   ret r
//@   sig <<<
        ensures r == check_spec(*self, *val)
//@   >>>
//@ end
//@ extract src/build/ir.rs :: impl ConstraintVal :: fn contains_self_ref
//@   opaque_body
//@   ret r
//@   sig <<<
        ensures r == self_ref_spec(*self)
//@   >>>
//@ end

// ---------- opcode Value -> IR Val (convert.rs), the value the check runs on ----------
// What a scalar VM value is as an IR value. Containers: element conversion recurses through
// `From<Rc<Value>>`, which is stubbed (R8): their contents are not constrained by this unit.
pub open spec fn ir_of_prim(p: Primitive) -> Val {
    match p {
        Int(i) => Val::Int(i),
        Float(f) => Val::Float(f),
        Str(s) => Val::Str(s),
        Bool(b) => Val::Boolean(b),
        Empty => Val::Empty,
    }
}
pub uninterp spec fn ir_of_composite(c: Composite) -> Val;
pub open spec fn ir_of(v: Value) -> Val {
    match v {
        P(p) => ir_of_prim(p),
        C(c) => ir_of_composite(c),
        K(cv) => Val::Constraint(cv),
        _ => Val::Empty,
    }
}
impl From<Rc<Value>> for Val {
    // convert.rs: `val.as_ref().into()` — recursion through trait dispatch; result unconstrained here.
    #[verifier::external_body]
    fn from(val: Rc<Value>) -> Val { unimplemented!() }
}
// vstd ties `From::from` to `FromSpec`; the conversion of containers is not a spec function here, so the
// impl opts out (`obeys_from_spec() == false`) and callers use the `ensures` below (call sites `x.into()`
// are rewritten to the `Val::from(x)` they resolve to).
impl vstd::std_specs::convert::FromSpecImpl<&Value> for Val {
    open spec fn obeys_from_spec() -> bool { false }
    open spec fn from_spec(v: &Value) -> Val { ir_of(*v) }
}
impl vstd::std_specs::convert::FromSpecImpl<Rc<Value>> for Val {
    open spec fn obeys_from_spec() -> bool { false }
    open spec fn from_spec(v: Rc<Value>) -> Val { ir_of(*v) }
}
//@ extract src/build/opcode/convert.rs :: impl From<&Value> for Val :: fn from
//@   ret r
//@   sig <<<
        ensures !(*val is C) ==> r == ir_of(*val)
//@   >>>
//@   mutant conv_bool_negated "P(Bool(b)) => Val::Boolean(*b)" => "P(Bool(b)) => Val::Boolean(!*b)" expect from
//@   mutant conv_null_as_zero "| P(Empty) => Val::Empty" => "=> Val::Empty, P(Empty) => Val::Int(0)" expect from
//@ end

// ---------- oracle of the two opcodes ----------
// BuildConstraint(arm_types): "Each Range arm expects 2 values (start, end — Empty if open-ended). Each Exact
// arm expects 1 value." The translator pushes the arms' values in source order, start before end.
pub open spec fn arm_width(t: ConstraintArmType) -> nat {
    match t { ConstraintArmType::Range => 2, ConstraintArmType::Exact => 1 }
}
// number of stack values the first k arm types demand
pub open spec fn width(ts: Seq<ConstraintArmType>, k: int) -> nat
    decreases k
{
    if k <= 0 { 0 } else { width(ts, k - 1) + arm_width(ts[k - 1]) }
}
pub proof fn lemma_width_mono(ts: Seq<ConstraintArmType>, i: int, j: int)
    requires 0 <= i <= j <= ts.len()
    ensures width(ts, i) <= width(ts, j), j - i <= width(ts, j) - width(ts, i)
    decreases j - i
{
    if i < j { lemma_width_mono(ts, i, j - 1); }
}

// `in lo..hi`: an absent bound is the Empty value; both bounds of one numeric type; at least one bound.
pub open spec fn range_bound(s: Value, e: Value) -> Option<ConstraintBound> {
    match (s, e) {
        (P(Int(a)), P(Int(b))) => Some(ConstraintBound::Int(Some(a), Some(b))),
        (P(Int(a)), P(Empty)) => Some(ConstraintBound::Int(Some(a), None)),
        (P(Empty), P(Int(b))) => Some(ConstraintBound::Int(None, Some(b))),
        (P(Float(a)), P(Float(b))) => Some(ConstraintBound::Float(Some(a), Some(b))),
        (P(Float(a)), P(Empty)) => Some(ConstraintBound::Float(Some(a), None)),
        (P(Empty), P(Float(b))) => Some(ConstraintBound::Float(None, Some(b))),
        _ => None,
    }
}
pub type StackSeq = Seq<(Rc<Value>, Position)>;
// vals: the arms' values in source order (bottom of the stack first); arm k uses vals[off..off + arm_width].
pub open spec fn arm_ok(t: ConstraintArmType, vals: StackSeq, off: int) -> bool {
    t is Range ==> range_bound(*vals[off].0, *vals[off + 1].0) is Some
}
pub open spec fn arm_built(t: ConstraintArmType, vals: StackSeq, off: int, arm: ConstraintValArm) -> bool {
    match t {
        ConstraintArmType::Range => Some(arm) == (match range_bound(*vals[off].0, *vals[off + 1].0) {
            Some(b) => Some(ConstraintValArm::Range(b)), None => None }),
        // an alternative is the IR form of the value (contents of containers: not constrained here)
        ConstraintArmType::Exact => arm matches ConstraintValArm::Exact(e) && (!(*vals[off].0 is C) ==> *e == ir_of(*vals[off].0)),
    }
}
// (opaque to the solver outside the three lemmas below: keeps the loop proof small and stable)
#[verifier::opaque]
pub open spec fn all_arms_ok(ts: Seq<ConstraintArmType>, vals: StackSeq, upto: int) -> bool {
    forall|k: int| 0 <= k < upto ==> arm_ok(#[trigger] ts[k], vals, width(ts, k) as int)
}
#[verifier::opaque]
pub open spec fn all_arms_built(ts: Seq<ConstraintArmType>, vals: StackSeq, arms: Seq<ConstraintValArm>, upto: int) -> bool {
    forall|k: int| 0 <= k < upto ==> arm_built(ts[k], vals, width(ts, k) as int, #[trigger] arms[k])
}
pub proof fn lemma_arms_init(ts: Seq<ConstraintArmType>, vals: StackSeq, arms: Seq<ConstraintValArm>)
    ensures all_arms_ok(ts, vals, 0), all_arms_built(ts, vals, arms, 0)
{ reveal(all_arms_ok); reveal(all_arms_built); }
pub proof fn lemma_arm_bad(ts: Seq<ConstraintArmType>, vals: StackSeq, i: int)
    requires 0 <= i < ts.len(), !arm_ok(ts[i], vals, width(ts, i) as int)
    ensures !all_arms_ok(ts, vals, ts.len() as int)
{ reveal(all_arms_ok); }
pub proof fn lemma_arm_step(ts: Seq<ConstraintArmType>, vals: StackSeq, arms: Seq<ConstraintValArm>, arm: ConstraintValArm, i: int)
    requires 0 <= i < ts.len(), arms.len() == i,
        all_arms_ok(ts, vals, i), all_arms_built(ts, vals, arms, i),
        arm_ok(ts[i], vals, width(ts, i) as int), arm_built(ts[i], vals, width(ts, i) as int, arm),
    ensures all_arms_ok(ts, vals, i + 1), all_arms_built(ts, vals, arms.push(arm), i + 1)
{
    reveal(all_arms_ok); reveal(all_arms_built);
    let a2 = arms.push(arm);
    assert forall|k: int| 0 <= k < i + 1 implies arm_built(ts[k], vals, width(ts, k) as int, #[trigger] a2[k]) by {
        if k < i { assert(a2[k] == arms[k]); }
    }
}
pub open spec fn build_contract(ts: Seq<ConstraintArmType>, pos: Position, old_vm: VM, new_vm: VM, r: Result<(), Error>) -> bool {
    let n = old_vm.stack@.len() as int;
    let w = width(ts, ts.len() as int) as int;
    let base = n - w;
    let vals = old_vm.stack@.subrange(base, n);
    &&& frame(old_vm, new_vm)
    // Err exactly when some range arm's bounds are not (int|NULL, int|NULL) or (float|NULL, float|NULL) with a bound present
    &&& (r is Ok) == all_arms_ok(ts, vals, ts.len() as int)
    // the operands are consumed either way
    &&& r is Err ==> new_vm.stack@ == old_vm.stack@.take(base)
    &&& r is Ok ==> {
        &&& new_vm.stack@.len() == base + 1
        &&& new_vm.stack@.subrange(0, base) =~= old_vm.stack@.subrange(0, base)
        &&& new_vm.stack@[base].1 == pos
        &&& *new_vm.stack@[base].0 matches K(cv)
        &&& cv.arms@.len() == ts.len()
        &&& all_arms_built(ts, vals, cv.arms@, ts.len() as int)
    }
}

// CheckConstraint: constraint on top, the value to bind below it. The constraint is popped, the value stays.
pub open spec fn check_contract(old_vm: VM, new_vm: VM, r: Result<(), Error>) -> bool {
    let n = old_vm.stack@.len() as int;
    let top = *old_vm.stack@[n - 1].0;
    &&& frame(old_vm, new_vm)
    &&& new_vm.stack@ == old_vm.stack@.drop_last()
    &&& n == 1 ==> r is Err
    &&& n >= 2 ==> {
        let v = *old_vm.stack@[n - 2].0;
        &&& !(top is K) ==> r is Ok
        &&& top matches K(cv) ==> {
            &&& self_ref_spec(cv) ==> r is Ok
            // scalar values (the conversion of containers to IR is outside this unit)
            &&& !(v is C) ==> (r is Err) == (!self_ref_spec(cv) && !check_spec(cv, ir_of(v)))
        }
    }
}

pub mod vm {
use super::*;

//@ extract src/build/opcode/vm.rs :: impl VM :: fn push
//@   ret r
//@   sig <<<
        ensures r is Ok, final(self).stack@ == old(self).stack@.push((val, pos)),
            frame(*old(self), *final(self)),
//@   >>>
//@ end
//@ extract src/build/opcode/vm.rs :: impl VM :: fn pop
//@   subst "Some(v.clone())" => "Some((v.0.clone(), v.1.clone()))"
//@   ret r
//@   sig <<<
        requires old(self).stack@.len() > 0
        ensures r is Ok, r->Ok_0 == old(self).stack@.last(), final(self).stack@ == old(self).stack@.drop_last(),
            frame(*old(self), *final(self)),
//@   >>>
//@ end

//@ extract src/build/opcode/vm.rs :: impl VM :: fn op_build_constraint
//@   subst "let ir_val: crate::build::ir::Val = val.as_ref().into();" => "let ir_val: crate::build::ir::Val = Val::from(val.as_ref());"
//@   ret r
//@   sig <<<
        requires
            // the instruction's operands are on the stack: 2 values per Range arm, 1 per Exact arm
            old(self).stack@.len() >= width(arm_types@, arm_types@.len() as int),
        ensures build_contract(arm_types@, pos, *old(self), *final(self), r)
//@   >>>
//@   mutant start_end_swapped "(start_val.as_ref(), end_val.as_ref())" => "(end_val.as_ref(), start_val.as_ref())" expect op_build_constraint
//@   mutant open_hi_as_zero "(P(Int(s)), P(Empty)) => ConstraintBound::Int(Some(*s), None)" => "(P(Int(s)), P(Empty)) => ConstraintBound::Int(Some(*s), Some(0))" expect op_build_constraint
//@   mutant open_lo_as_hi "(P(Empty), P(Int(e))) => ConstraintBound::Int(None, Some(*e))" => "(P(Empty), P(Int(e))) => ConstraintBound::Int(Some(*e), None)" expect op_build_constraint
//@   mutant mixed_bounds_accepted "(P(Float(s)), P(Empty)) => ConstraintBound::Float(Some(*s), None)" => "(P(Float(s)), _) => ConstraintBound::Float(Some(*s), None)" expect op_build_constraint
//@   mutant not_reversed_for_two "values.reverse();" => "if values.len() != 2 { values.reverse(); }" expect op_build_constraint
//@   mutant range_pops_one "values.push(self.pop()?); values.push(self.pop()?);" => "values.push(self.pop()?);" expect op_build_constraint
//@   loop 1 iter it <<<
            invariant
                it.seq().len() == arm_types@.len(),
                forall|k: int| 0 <= k < arm_types@.len() ==> *it.seq()[k] == arm_types@[k],
                frame(*old(self), *self),
                old(self).stack@.len() >= width(arm_types@, arm_types@.len() as int),
                values@.len() == width(arm_types@, it.index as int),
                self.stack@ == old(self).stack@.take(old(self).stack@.len() - values@.len()),
                forall|j: int| 0 <= j < values@.len() ==> values@[j] == old(self).stack@[old(self).stack@.len() - 1 - j],
//@   >>>
//@   body_start <<<
        let ghost n = old(self).stack@.len() as int;
        let ghost w = width(arm_types@, arm_types@.len() as int) as int;
        let ghost vals = old(self).stack@.subrange(n - w, n);
//@   >>>
//@   before "match arm_type {" nth 1 <<<
            proof { lemma_width_mono(arm_types@, it.index as int + 1, arm_types@.len() as int); }
//@   >>>
//@   after "values.reverse();" <<<
        proof { assert(values@ =~= vals); lemma_arms_init(arm_types@, vals, arms@); }
//@   >>>
//@   before "return Err(Error::new(" <<<
                            proof {
                                let c = width(arm_types@, it2.index as int) as int;
                                assert(range_bound(*start_val, *end_val) is None);
                                assert(start_val == vals[c].0 && end_val == vals[c + 1].0);
                                lemma_arm_bad(arm_types@, vals, it2.index as int);
                            }
//@   >>>
//@   before "let (start_val, _) = val_iter.next().unwrap();" <<<
                    proof { lemma_width_mono(arm_types@, it2.index as int + 1, arm_types@.len() as int); }
//@   >>>
//@   before "let (val, _) = val_iter.next().unwrap();" <<<
                    proof { lemma_width_mono(arm_types@, it2.index as int + 1, arm_types@.len() as int); }
//@   >>>
//@   before "arms.push(ConstraintValArm::Range(bound));" <<<
                    proof {
                        let c = width(arm_types@, it2.index as int) as int;
                        assert(range_bound(*start_val, *end_val) == Some(bound));
                        assert(start_val == vals[c].0 && end_val == vals[c + 1].0);
                        lemma_arm_step(arm_types@, vals, arms@, ConstraintValArm::Range(bound), it2.index as int);
                    }
//@   >>>
//@   before "arms.push(ConstraintValArm::Exact(Rc::new(ir_val)));" <<<
                    proof {
                        let c = width(arm_types@, it2.index as int) as int;
                        assert(val == vals[c].0);
                        lemma_arm_step(arm_types@, vals, arms@, ConstraintValArm::Exact(Rc::new(ir_val)), it2.index as int);
                    }
//@   >>>
//@   loop 2 iter it2 <<<
            invariant
                it2.seq().len() == arm_types@.len(),
                forall|k: int| 0 <= k < arm_types@.len() ==> *it2.seq()[k] == arm_types@[k],
                frame(*old(self), *self),
                n == old(self).stack@.len(), w == width(arm_types@, arm_types@.len() as int), 0 <= w <= n,
                vals == old(self).stack@.subrange(n - w, n),
                self.stack@ == old(self).stack@.take(n - w),
                val_iter.remaining() =~= vals.skip(width(arm_types@, it2.index as int) as int),
                arms@.len() == it2.index,
                all_arms_ok(arm_types@, vals, it2.index as int),
                all_arms_built(arm_types@, vals, arms@, it2.index as int),
//@   >>>
//@ end

//@ extract src/build/opcode/vm.rs :: impl VM :: fn op_check_constraint
//@   rule R1
//@   subst "let ir_val: crate::build::ir::Val = val.as_ref().into();" => "let ir_val: crate::build::ir::Val = Val::from(val.as_ref());"
//@   sig <<<
        requires old(self).stack@.len() >= 1
        ensures check_contract(*old(self), *final(self), r)
//@   >>>
//@   mutant check_negation_dropped "if !cv.check(&ir_val)" => "if cv.check(&ir_val)" expect op_check_constraint
//@   mutant self_ref_inverted "if cv.contains_self_ref()" => "if !cv.contains_self_ref()" expect op_check_constraint
//@   mutant checks_bottom_of_stack "let t__ = self.stack.last().unwrap();" => "let t__ = &self.stack[0];" expect op_check_constraint
//@   mutant value_popped "let (constraint, _constraint_pos) = self.pop()?;" => "let (constraint, _constraint_pos) = self.pop()?; if self.stack.len() > 1 { self.stack.pop(); }" expect op_check_constraint
//@   subst "self.stack.last().unwrap().clone()" => "{ let t__ = self.stack.last().unwrap(); (t__.0.clone(), t__.1.clone()) }"
//@   ret r
//@ end
} // mod vm

} // verus!

fn main() {}
