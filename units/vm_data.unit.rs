//@ unit vm_data
//@ serves C01 C04
//@ must_verify VM::push VM::pop VM::op_element VM::op_push_self VM::op_pop_self VM::op_bang VM::op_typ Value::type_name Value::eq verif_list_eq verif_fields_eq VM::op_equal lemma_type_names lemma_same_type lemma_find_field VM::merge_field_into_tuple VM::op_field VM::op_copy_tuple_arm lemma_copy_example lemma_merge_all_none lemma_merge_len VM::op_exist RenderPrim::from RenderValue::from VM::op_render CastI64::try_from CastF64::try_from CastBool::try_from VM::do_cast VM::op_cast
// C01/C04 - the data handlers of the opcode VM (src/build/opcode/vm.rs, mod.rs, convert.rs), verbatim:
//   op_element, op_field, merge_field_into_tuple, the Tuple arm of op_copy (whole op_copy: unit vm_data_call), op_exist (`in`),
//   op_typ (`is`), op_equal + `impl PartialEq for Value`, Value::type_name, op_cast / do_cast + the three
//   `TryFrom<&Primitive>` impls + `From<&Primitive> for Rc<str>`, op_render + `From<&Value> for Rc<str>`,
//   op_push_self / op_pop_self, op_bang.
// Oracle: docsite/site/content/reference/expressions.md (Comparison Operators, Type test expressions, Casting, Copy
//   Expressions) and types.md (NULL) - quoted at each spec function.  Every handler: whole-stack postcondition (which
//   operand is on top, what is pushed, everything below unchanged), frame on all other VM fields, Err in both directions.
// C04: every `unreachable!()` (pop on an empty stack, op_field / op_element / op_bang on a wrong operand kind) is
//   discharged from the translator invariant stated in `requires` (caller obligations, not discharged here).
// Genuine defects of the pinned tree found by these contracts (reproduced on the real binary, fixed in the worktree,
//   /scratch/patches/vm_data_<n>.patch; on the unfixed tree do_cast, Value::eq and Value::type_name are VIOLATIONS):
//   1. do_cast: a cast of a non-primitive (`let x = int([1]);`) pushed nothing and returned Ok - the next pop panics at
//      unreachable!() (exit 101).  Reference: "a compile error will occur".
//   2. Value::eq: tuples compared key by key in ANY order (`{a=1,b=2} == {b=2,a=1}` is true).  Reference: "both tuples in
//      a comparison must have their fields in the same order to compare as equal" (ir.rs Val::equal does that).
//   3. Value::type_name: M(_) => "Func", and the handlers compare these names to decide "same type": a func field can be
//      overridden by a module (`{f = func () => 1}{f = module{} => {}}` builds), `func == module` is false instead of a
//      build error.  Reference: func and module are distinct base types ("Type test expressions").
//   4. do_cast: `str(e)` went through Display for Primitive, which quotes strings: `str("q")` is the 3 character string
//      "q" WITH the quotes, `str("q") == "q"` is false.
//@ include prelude/head.rs
use std::rc::Rc;

verus! {
//@ include prelude/core.rs
//@ opaque Stack Builtins
//@ include prelude/vm_data_types.rs
//@ include prelude/vm_data_merge.rs

//@ extract src/build/opcode/vm.rs :: struct VM
//@   rule R0 RV
//@   subst "working_dir: PathBuf" => "working_dir: VPathBuf"
//@   subst "runtime: runtime::Builtins" => "runtime: Builtins"
//@   subst "reserved_words: &'static BTreeSet<&'static str>" => "reserved_words: ReservedWords"
//@ end

// ---------- stack vocabulary ----------
// nothing but the value stack (and the `last` debugging slot) changes
pub open spec fn frame(a: VM, b: VM) -> bool {
    a.symbols == b.symbols && a.self_stack == b.self_stack && a.ops == b.ops && a.import_stack == b.import_stack
    && a.working_dir == b.working_dir && a.runtime == b.runtime && a.reserved_words == b.reserved_words
}
// the same without the self stack (op_push_self / op_pop_self)
pub open spec fn frame_but_self(a: VM, b: VM) -> bool {
    a.symbols == b.symbols && a.ops == b.ops && a.import_stack == b.import_stack
    && a.working_dir == b.working_dir && a.runtime == b.runtime && a.reserved_words == b.reserved_words
}
// the k-th entry from the top of the value stack (1 = top)
pub open spec fn opnd(vm: VM, k: int) -> Value { *vm.stack@[vm.stack@.len() - k].0 }
pub open spec fn opnd_pos(vm: VM, k: int) -> Position { vm.stack@[vm.stack@.len() - k].1 }
// k operands were popped and one result pushed; everything below is untouched
pub open spec fn replaced(a: VM, b: VM, k: int) -> bool {
    b.stack@.len() == a.stack@.len() - k + 1 && b.stack@.drop_last() =~= a.stack@.subrange(0, a.stack@.len() - k)
}

//@ extract src/build/opcode/vm.rs :: impl VM :: fn push
//@   ret r
//@   sig <<<
        ensures r is Ok, final(self).stack@ == old(self).stack@.push((val, pos)),
            frame(*old(self), *final(self)),
//@   >>>
//@ end
//@ extract src/build/opcode/vm.rs :: impl VM :: fn pop
//@   subst "Some(v.clone())" => "Some((v.0.clone(), v.1.clone()))"
//@   ret r
//@   sig <<<
        requires old(self).stack@.len() > 0
        ensures r is Ok, r->Ok_0 == old(self).stack@.last(), final(self).stack@ == old(self).stack@.drop_last(),
            frame(*old(self), *final(self)),
//@   >>>
//@ end

// ---------- list literals: `[a, b, ..]` appends one element per Element op ----------
//@ extract src/build/opcode/vm.rs :: impl VM :: fn op_element
//@   rule R3
//@   ret r
//@   sig <<<
        // translator invariant (caller obligation): InitList pushed a list, then the element's code ran
        requires old(self).stack@.len() >= 2, opnd(*old(self), 2) is C, opnd(*old(self), 2)->C_0 is List,
        ensures ({
            let a = *old(self); let b = *final(self);
            &&& frame(a, b) && r is Ok && replaced(a, b, 2)
            // the element (top) is appended, with its position; the list keeps its own position
            &&& opnd(a, 2) matches C(List(elems, pos_list)) && opnd(b, 1) matches C(List(e2, p2))
                && e2@ == elems@.push(a.stack@.last().0) && p2@ == pos_list@.push(a.stack@.last().1)
            &&& opnd_pos(b, 1) == opnd_pos(a, 2)
        })
//@   >>>
//@   body_start <<<
        broadcast use clax::group_clone_axioms;
//@   >>>
//@   mutant element_prepended "elems.push(val);" => "elems.insert(0, val);" expect op_element
//@   mutant element_pos_dropped "pos_list.push(val_pos);" => "" expect op_element
//@ end

// ---------- self: the base tuple of the copy expression being evaluated ----------
//@ extract src/build/opcode/vm.rs :: impl VM :: fn op_push_self
//@   ret r
//@   sig <<<
        requires old(self).stack@.len() >= 1
        ensures r is Ok, frame_but_self(*old(self), *final(self)),
            // the copy's base stays on the value stack ...
            final(self).stack@ =~= old(self).stack@,
            // ... and becomes the innermost `self`
            final(self).self_stack@ == old(self).self_stack@.push(old(self).stack@.last()),
//@   >>>
//@   mutant push_self_consumes "self.push(val.clone(), pos)?;" => "" expect op_push_self
//@   mutant push_self_not_recorded "self.self_stack.push((val.clone(), pos.clone()));" => "" expect op_push_self
//@ end
//@ extract src/build/opcode/vm.rs :: impl VM :: fn op_pop_self
//@   ret r
//@   sig <<<
        ensures r is Ok, frame_but_self(*old(self), *final(self)), final(self).stack == old(self).stack,
            // leaving the copy body: the enclosing copy's base is `self` again
            old(self).self_stack@.len() > 0 ==> final(self).self_stack@ == old(self).self_stack@.drop_last(),
            old(self).self_stack@.len() == 0 ==> final(self).self_stack@ == old(self).self_stack@,
//@   >>>
//@   mutant pop_self_noop "self.self_stack.pop();" => "" expect op_pop_self
//@   mutant pop_self_twice "self.self_stack.pop();" => "self.self_stack.pop(); self.self_stack.pop();" expect op_pop_self
//@ end

// ---------- fail ----------
//@ extract src/build/opcode/vm.rs :: impl VM :: fn op_bang
//@   rule R3
//@   ret r
//@   sig <<<
        // translator invariant: `fail e` compiles to  e ; "UserDefined: " ; Add ; Bang  and Add only yields a
        // string here (unit vm_arith: add_spec), so the top of the stack is a string
        requires old(self).stack@.len() >= 1, opnd(*old(self), 1) is P, opnd(*old(self), 1)->P_0 is Str,
        ensures frame(*old(self), *final(self)),
            // the build fails, with the user's text, at the position of the message
            r matches Err(e) && err_text(e) == opnd(*old(self), 1)->P_0->Str_0@ && err_pos(e) == Some(opnd_pos(*old(self), 1)),
//@   >>>
//@   mutant fail_is_noop "Err(Error::new(msg.clone(), err_pos))" => "Ok(())" expect op_bang
//@   mutant fail_message_lost "Error::new(msg.clone(), err_pos)" => "Error::new(verif_str_into_rcstr(\"\"), err_pos)" expect op_bang
//@ end

// ---------- `is`: the base type name of a value ----------
// the reference, "Type test expressions": the published names
pub open spec fn doc_type_name(v: Value) -> Option<Seq<char>> {
    match v {
        P(Empty) => Some("null"@),
        P(Str(_)) => Some("str"@),
        P(Int(_)) => Some("int"@),
        P(Float(_)) => Some("float"@),
        C(Tuple(_, _)) => Some("tuple"@),
        C(List(_, _)) => Some("list"@),
        F(_) => Some("func"@),
        M(_) => Some("module"@),
        // not in the reference's list; booleans are a primitive type (types.md) and their name is the cast's name
        P(Bool(_)) => Some("bool"@),
        // evaluator-internal values (symbols, thunks) and constraints have no published name
        _ => None,
    }
}
pub open spec fn is_doc_name(s: Seq<char>) -> bool {
    s == "null"@ || s == "str"@ || s == "int"@ || s == "float"@ || s == "tuple"@ || s == "list"@ || s == "func"@
    || s == "module"@ || s == "bool"@
}
//@ extract src/build/opcode/vm.rs :: impl VM :: fn op_typ
//@   subst "typ_name.into()" => "verif_str_into_rcstr(typ_name)"
//@   ret r
//@   sig <<<
        requires old(self).stack@.len() >= 1
        ensures ({
            let a = *old(self); let b = *final(self);
            &&& frame(a, b) && r is Ok && replaced(a, b, 1) && opnd_pos(b, 1) == opnd_pos(a, 1)
            &&& opnd(b, 1) matches P(Str(name))
                && match doc_type_name(opnd(a, 1)) {
                    Some(n) => name@ == n,
                    // a value without a published type name never tests true against a published name
                    None => !is_doc_name(name@),
                }
        })
//@   >>>
//@   body_start <<<
        proof {
            reveal_strlit("null"); reveal_strlit("str"); reveal_strlit("int"); reveal_strlit("float"); reveal_strlit("tuple");
            reveal_strlit("list"); reveal_strlit("func"); reveal_strlit("module"); reveal_strlit("bool");
            reveal_strlit("sym"); reveal_strlit("thunk"); reveal_strlit("constraint");
            // the internal names differ from every published one (by length, or at the shown character)
            assert("null"@.len() == 4 && "str"@.len() == 3 && "int"@.len() == 3 && "float"@.len() == 5 && "tuple"@.len() == 5
                && "list"@.len() == 4 && "func"@.len() == 4 && "module"@.len() == 6 && "bool"@.len() == 4);
            assert("sym"@.len() == 3 && "thunk"@.len() == 5 && "constraint"@.len() == 10);
            assert("sym"@[1] == 'y' && "str"@[1] == 't' && "int"@[1] == 'n');
            assert("thunk"@[1] == 'h' && "float"@[1] == 'l' && "tuple"@[1] == 'u');
        }
//@   >>>
//@   mutant typ_int_float_swapped "P(Int(_)) => \"int\"" => "P(Int(_)) => \"float\"" expect op_typ
//@   mutant typ_module_is_func "M(_) => \"module\"" => "M(_) => \"func\"" expect op_typ
//@   mutant typ_null_upper "P(Empty) => \"null\"" => "P(Empty) => \"NULL\"" expect op_typ
//@ end


// Value::type_name: the diagnostic name of a value's type.  The handlers COMPARE these names to decide "same
// type", so the names must distinguish the base types (lemma_type_names).
pub open spec fn kind_name(k: Kind) -> Seq<char> {
    match k {
        Kind::Int => "Int"@, Kind::Float => "Float"@, Kind::Str => "String"@, Kind::Bool => "Bool"@, Kind::Null => "NULL"@,
        Kind::List => "List"@, Kind::Tuple => "Tuple"@, Kind::Func => "Func"@, Kind::Module => "Module"@,
        Kind::Thunk => "Expression"@, Kind::Sym => "Symbol"@, Kind::Constraint => "Constraint"@,
    }
}
pub proof fn lemma_type_names(a: Kind, b: Kind)
    ensures kind_name(a) == kind_name(b) <==> a == b
{
    reveal_strlit("Int"); reveal_strlit("Float"); reveal_strlit("String"); reveal_strlit("Bool"); reveal_strlit("NULL");
    reveal_strlit("List"); reveal_strlit("Tuple"); reveal_strlit("Func"); reveal_strlit("Module");
    reveal_strlit("Expression"); reveal_strlit("Symbol"); reveal_strlit("Constraint");
    assert("Int"@.len() == 3 && "Float"@.len() == 5 && "String"@.len() == 6 && "Bool"@.len() == 4 && "NULL"@.len() == 4
        && "List"@.len() == 4 && "Tuple"@.len() == 5 && "Func"@.len() == 4 && "Module"@.len() == 6
        && "Expression"@.len() == 10 && "Symbol"@.len() == 6 && "Constraint"@.len() == 10);
    assert("Bool"@[0] == 'B' && "NULL"@[0] == 'N' && "List"@[0] == 'L' && "Func"@[0] == 'F');
    assert("Float"@[0] == 'F' && "Tuple"@[0] == 'T');
    assert("String"@[0] == 'S' && "Module"@[0] == 'M' && "Symbol"@[0] == 'S' && "String"@[1] == 't' && "Symbol"@[1] == 'y');
    assert("Expression"@[0] == 'E' && "Constraint"@[0] == 'C');
}
//@ extract src/build/opcode/mod.rs :: impl Value :: fn type_name
//@   ret r
//@   sig <<<
        ensures r@ == kind_name(kind(*self))
//@   >>>
// the pinned tree's table: modules were named like functions
//@   mutant module_named_func "M(_) => \"Module\"" => "M(_) => \"Func\"" expect type_name
//@   mutant float_named_int "P(Float(_)) => \"Float\"" => "P(Float(_)) => \"Int\"" expect type_name
//@ end
// the comparison the handlers make on two type names
pub proof fn lemma_same_type(a: Kind, b: Kind)
    ensures
        (kind_name(a) != kind_name(b) && !(kind_name(a) == "NULL"@ || kind_name(b) == "NULL"@))
            <==> !(a == b || a == Kind::Null || b == Kind::Null)
{
    lemma_type_names(a, b); lemma_type_names(a, Kind::Null); lemma_type_names(b, Kind::Null);
}

// ---------- equality (reference: "Comparison Operators") ----------
// `==` is "supported for all types and will perform deep equal comparisons on complex types"; "because tuples are
// an ordered set both tuples in a comparison must have their fields in the same order to compare as equal";
// list elements pairwise in order.  Floats: IEEE equality (uninterpreted here).  Functions and modules: the derived
// structural comparison of their code pointer and captured data (uninterpreted).  Symbols, thunks, constraints and
// values of different types are never equal.
pub uninterp spec fn f64_eq(a: f64, b: f64) -> bool;
pub uninterp spec fn func_eq(a: Func, b: Func) -> bool;
pub uninterp spec fn module_eq(a: Module, b: Module) -> bool;
pub open spec fn prim_eq(a: Primitive, b: Primitive) -> bool {
    match (a, b) {
        (Int(x), Int(y)) => x == y,
        (Float(x), Float(y)) => f64_eq(x, y),
        (Str(x), Str(y)) => x@ == y@,
        (Bool(x), Bool(y)) => x == y,
        (Empty, Empty) => true,
        _ => false,
    }
}
pub open spec fn veq(a: Value, b: Value) -> bool
    decreases a, 0int
{
    match (a, b) {
        (P(x), P(y)) => prim_eq(x, y),
        (C(List(x, _)), C(List(y, _))) => list_eq(x@, y@),
        (C(Tuple(x, _)), C(Tuple(y, _))) => fields_eq(x@, y@),
        (F(x), F(y)) => func_eq(x, y),
        (M(x), M(y)) => module_eq(x, y),
        _ => false,
    }
}
pub open spec fn list_eq(x: Seq<Rc<Value>>, y: Seq<Rc<Value>>) -> bool
    decreases x, 1int
{
    x.len() == y.len() && forall|i: int| 0 <= i < x.len() ==> veq(*#[trigger] x[i], *y[i])
}
pub open spec fn fields_eq(x: Seq<(Rc<str>, Rc<Value>)>, y: Seq<(Rc<str>, Rc<Value>)>) -> bool
    decreases x, 1int
{
    x.len() == y.len() && forall|i: int| 0 <= i < x.len() ==> (#[trigger] x[i]).0@ == y[i].0@ && veq(*x[i].1, *y[i].1)
}

// R0: `#[derive(PartialEq)]` on Primitive / Func / Module is assumed structural (f64: IEEE `==`).
#[verifier::external_body]
pub fn verif_prim_eq(a: &Primitive, b: &Primitive) -> (r: bool) ensures r == prim_eq(*a, *b) { unimplemented!() }
#[verifier::external_body]
pub fn verif_func_eq(a: &Func, b: &Func) -> (r: bool) ensures r == func_eq(*a, *b) { unimplemented!() }
#[verifier::external_body]
pub fn verif_module_eq(a: &Module, b: &Module) -> (r: bool) ensures r == module_eq(*a, *b) { unimplemented!() }
// R9': std `<[A] as PartialEq<[B]>>::eq` = same length and `a[i] == b[i]` for every i, where `==` on Rc<Value> is
// Value::eq on the pointees and on a pair the conjunction over its components.  Verified loop models (Verus does
// not follow the recursion Value::eq -> Vec::eq -> Value::eq through trait dispatch).
pub fn verif_list_eq(left: &Vec<Rc<Value>>, right: &Vec<Rc<Value>>) -> (r: bool)
    ensures r == list_eq(left@, right@)
    decreases left@, 1int
{
    if left.len() != right.len() { return false; }
    let mut i: usize = 0;
    while i < left.len()
        invariant i <= left@.len(), left@.len() == right@.len(),
            forall|j: int| 0 <= j < i ==> veq(*#[trigger] left@[j], *right@[j]),
        decreases left@.len() - i
    {
        if !left[i].as_ref().eq(right[i].as_ref()) { return false; }
        i += 1;
    }
    true
}
pub fn verif_fields_eq(left: &Vec<(Rc<str>, Rc<Value>)>, right: &Vec<(Rc<str>, Rc<Value>)>) -> (r: bool)
    ensures r == fields_eq(left@, right@)
    decreases left@, 1int
{
    if left.len() != right.len() { return false; }
    let mut i: usize = 0;
    while i < left.len()
        invariant i <= left@.len(), left@.len() == right@.len(),
            forall|j: int| 0 <= j < i ==> (#[trigger] left@[j]).0@ == right@[j].0@ && veq(*left@[j].1, *right@[j].1),
        decreases left@.len() - i
    {
        if !verif_rcstr_eq(&left[i].0, &right[i].0) { return false; }
        if !left[i].1.as_ref().eq(right[i].1.as_ref()) { return false; }
        i += 1;
    }
    true
}
// `impl PartialEq for Value`, placed in an inherent impl (same reason); `a == b` on values is rewritten to the
// `Value::eq` call it resolves to.
//@ extract src/build/opcode/mod.rs :: impl PartialEq for Value :: fn eq
//@   impl_header impl Value
//@   subst "(P(left), P(right)) => left == right" => "(P(left), P(right)) => verif_prim_eq(left, right)"
//@   subst "(C(List(left, _)), C(List(right, _))) => left == right" => "(C(List(left, _)), C(List(right, _))) => verif_list_eq(left, right)"
//@   subst? "(C(Tuple(left, _)), C(Tuple(right, _))) => left == right" => "(C(Tuple(left, _)), C(Tuple(right, _))) => verif_fields_eq(left, right)"
// (the pinned tree compared tuples key by key in any order, with two nested loops: keep that form checkable - it
// fails the contract - instead of losing the anchor)
//@   subst? "lk == rk" => "verif_rcstr_eq(lk, rk)"
//@   subst? "lv != rv" => "!lv.as_ref().eq(rv.as_ref())"
//@   subst "(F(left), F(right)) => left == right" => "(F(left), F(right)) => verif_func_eq(left, right)"
//@   subst "(M(left), M(right)) => left == right" => "(M(left), M(right)) => verif_module_eq(left, right)"
//@   ret r
//@   sig <<<
        ensures r == veq(*self, *other)
        decreases *self, 0int
//@   >>>
//@   mutant eq_tuple_len_only "verif_fields_eq(left, right)" => "left.len() == right.len()" expect eq
//@   mutant eq_list_ignores_rest "verif_list_eq(left, right)" => "left.len() == right.len() && (left.len() == 0 || left[0].as_ref().eq(right[0].as_ref()))" expect eq
//@   mutant eq_sym_true "(T(_), T(_)) | (S(_), S(_)) => false" => "(T(_), T(_)) | (S(_), S(_)) => true" expect eq
//@ end

//@ extract src/build/opcode/vm.rs :: impl VM :: fn op_equal
//@   rule R1
// (either operand order of the source is rewritten to the Value::eq call it resolves to)
//@   subst? "left == right" => "left.as_ref().eq(right.as_ref())"
//@   subst? "right == left" => "right.as_ref().eq(left.as_ref())"
//@   ret r
//@   sig <<<
        requires old(self).stack@.len() >= 2
        ensures ({
            let a = *old(self); let b = *final(self);
            // LEFT operand on top of the stack, RIGHT below it
            &&& frame(a, b)
            // "They all expect both sides to be of the same type" - a mismatch fails the build, NULL excepted
            &&& (!same_type_or_null(opnd(a, 1), opnd(a, 2)) ==> r is Err)
            &&& (same_type_or_null(opnd(a, 1), opnd(a, 2)) ==> r is Ok && replaced(a, b, 2) && opnd_pos(b, 1) == pos
                    && opnd(b, 1) == P(Bool(veq(opnd(a, 1), opnd(a, 2)))))
        })
//@   >>>
//@   body_start <<<
        let ghost ka = kind(opnd(*old(self), 1)); let ghost kb = kind(opnd(*old(self), 2));
        proof { lemma_same_type(ka, kb); }
//@   >>>
//@   mutant equal_no_type_check "if left.type_name() != right.type_name()" => "if false && left.type_name() != right.type_name()" expect op_equal
//@   mutant equal_null_not_comparable "&& !(left.type_name() == \"NULL\" || right.type_name() == \"NULL\")" => "" expect op_equal
//@   mutant equal_negated "P(Bool(left == right))" => "P(Bool(!(left == right)))" expect op_equal
//@ end


//@ extract src/build/opcode/vm.rs :: impl VM :: fn merge_field_into_tuple
//@   rule R1
// R13': `iter_mut().enumerate()` has no Verus model; the same walk as an indexed loop over the same vector
//@   subst "for (counter, fld) in src_fields.iter_mut().enumerate() {" => "let n__ = src_fields.len(); let mut i__: usize = 0; while i__ < n__ { let counter = i__; i__ += 1; let fld = &mut src_fields[counter];"
//@   subst "fld.0 == name" => "verif_rcstr_eq(&fld.0, &name)"
//@   ret r
//@   sig <<<
        requires
            // value invariant: one position pair per field
            old(src_fields)@.len() == old(pos_fields)@.len(),
        ensures
            match merge_spec((old(src_fields)@, old(pos_fields)@), name, *name_pos, value, *val_pos) {
                Some(t) => r is Ok && final(src_fields)@ == t.0 && final(pos_fields)@ == t.1,
                None => r is Err && final(src_fields)@ == old(src_fields)@ && final(pos_fields)@ == old(pos_fields)@,
            },
            final(src_fields)@.len() == final(pos_fields)@.len(),
//@   >>>
//@   loop 1 <<<
            invariant
                n__ == src_fields@.len(), i__ <= n__, src_fields@ == old(src_fields)@, pos_fields@ == old(pos_fields)@,
                src_fields@.len() == pos_fields@.len(),
                find_field(old(src_fields)@, name@, 0) == find_field(old(src_fields)@, name@, i__ as int),
            decreases n__ - i__
//@   >>>
//@   after "let fld = &mut src_fields[counter];" <<<
            let ghost ka = kind_rc(old(src_fields)@[counter as int].1); let ghost kb = kind_rc(value);
            proof { lemma_find_field(old(src_fields)@, name@, counter as int); lemma_same_type(ka, kb); }
//@   >>>
//@   loop_body_end 1 <<<
            assert(find_field(old(src_fields)@, name@, counter as int) == find_field(old(src_fields)@, name@, counter as int + 1));
//@   >>>
//@   after_loop 1 <<<
        proof { lemma_find_field(old(src_fields)@, name@, n__ as int); }
//@   >>>
//@   mutant merge_appends_duplicate "if verif_rcstr_eq(&fld.0, &name) {" => "if false && verif_rcstr_eq(&fld.0, &name) {" expect merge_field_into_tuple
//@   mutant merge_no_type_check "if fld.1.type_name() != value.type_name()" => "if false && fld.1.type_name() != value.type_name()" expect merge_field_into_tuple
//@   mutant merge_null_not_special "&& !(fld.1.type_name() == \"NULL\" || value.type_name() == \"NULL\")" => "" expect merge_field_into_tuple
//@   mutant merge_keeps_old_value "fld.1 = value;" => "" expect merge_field_into_tuple
//@   mutant merge_new_field_first "src_fields.push((name, value));" => "src_fields.insert(0, (name, value));" expect merge_field_into_tuple
//@ end

pub open spec fn field_name(v: Value) -> Option<Rc<str>> { match v { S(s) => Some(s), P(Str(s)) => Some(s), _ => None } }

//@ extract src/build/opcode/vm.rs :: impl VM :: fn op_field
//@   rule R3
//@   ret r
//@   sig <<<
        requires
            // translator invariant (caller obligation): InitTuple (or a copy's base), the field name (a symbol or a
            // string), then the value's code
            old(self).stack@.len() >= 3,
            field_name(opnd(*old(self), 2)) is Some,
            tuple_wf(opnd(*old(self), 3)),
        ensures ({
            let a = *old(self); let b = *final(self);
            &&& frame(a, b)
            &&& match merge_spec(tuple_parts(opnd(a, 3)), field_name(opnd(a, 2))->0, opnd_pos(a, 2), a.stack@.last().0, opnd_pos(a, 1)) {
                    Some(t) => r is Ok && replaced(a, b, 3) && is_tuple_of(opnd(b, 1), t) && opnd_pos(b, 1) == opnd_pos(a, 3) && tuple_wf(opnd(b, 1)),
                    None => r is Err,
                }
        })
//@   >>>
//@   body_start <<<
        broadcast use clax::group_clone_axioms;
//@   >>>
//@   mutant field_name_value_swapped "name.clone(), &name_pos, val, &val_pos," => "name.clone(), &val_pos, val, &name_pos," expect op_field
//@   mutant field_result_at_value_pos "self.push(Rc::new(C(Tuple(flds, pos_list))), tpl_pos)?;" => "self.push(Rc::new(C(Tuple(flds, pos_list))), val_pos)?;" expect op_field
//@ end

// `base{..}` where base is a tuple (the Tuple arm of VM::op_copy, as a function of the variables it uses)
//@ extract src/build/opcode/vm.rs :: impl VM :: fn op_copy :: arm "C(Tuple(ref flds, ref pos_list)) =>"
//@   impl_header impl VM
//@   wrap <<<
    #[verifier::loop_isolation(false)]
    fn op_copy_tuple_arm(&mut self, flds: &Vec<(Rc<str>, Rc<Value>)>, pos_list: &Vec<(Position, Position)>,
        overrides: Vec<(Rc<str>, Rc<Value>)>, override_pos_list: Vec<(Position, Position)>, tgt: Rc<Value>, tgt_pos: Position) -> Result<(), Error>
    { $BODY
      Ok(()) }
//@   >>>
// `into_iter().enumerate()` (consuming) has no Verus model: the same elements in the same order by reference + clone
//@   subst "for (counter, (name, val)) in overrides.into_iter().enumerate() {" => "for (counter, (name__r, val__r)) in overrides.iter().enumerate() { let name = name__r.clone(); let val = val__r.clone();"
//@   ret r
//@   sig <<<
        requires
            flds@.len() == pos_list@.len(),
            // value invariant of the override tuple
            overrides@.len() == override_pos_list@.len(),
        ensures
            frame(*old(self), *final(self)),
            match merge_all((flds@, pos_list@), (overrides@, override_pos_list@), overrides@.len() as int) {
                Some(t) => r is Ok && final(self).stack@.len() == old(self).stack@.len() + 1
                    && final(self).stack@.drop_last() =~= old(self).stack@
                    && is_tuple_of(*final(self).stack@.last().0, t) && final(self).stack@.last().1 == tgt_pos
                    && tuple_wf(*final(self).stack@.last().0)
                    && final(self).last == Some((tgt, tgt_pos)),
                None => r is Err,
            },
//@   >>>
//@   body_start <<<
        broadcast use clax::group_clone_axioms;
        // (the arm shadows `flds` / `pos_list` with its working copies)
        let ghost base: Fields = (flds@, pos_list@);
//@   >>>
//@   loop 1 indexed <<<
                invariant
                    i__1 <= it__1@.len(), it__1@ == overrides@, overrides@.len() == override_pos_list@.len(),
                    flds@.len() == pos_list@.len(),
                    frame(*old(self), *self), self.stack@ == old(self).stack@,
                    merge_all(base, (overrides@, override_pos_list@), i__1 as int) == Some((flds@, pos_list@)),
                decreases it__1@.len() - i__1
//@   >>>
//@   before "self.merge_field_into_tuple(" <<<
                    proof { lemma_merge_all_none(base, (overrides@, override_pos_list@), counter as int + 1, overrides@.len() as int); }
//@   >>>
//@   mutant copy_value_pos_is_name_pos "let val_pos = override_pos_list[counter].1.clone();" => "let val_pos = override_pos_list[counter].0.clone();" expect op_copy_tuple_arm
//@   mutant copy_result_not_pushed "self.push(Rc::new(C(Tuple(flds, pos_list))), tgt_pos.clone())?;" => "" expect op_copy_tuple_arm
//@ end


// the reference's own shape of example: an existing field is replaced in place, a new one is appended
pub proof fn lemma_copy_example(n1: Rc<str>, n2: Rc<str>, n3: Rc<str>, v1: Rc<Value>, v2: Rc<Value>, w2: Rc<Value>, w3: Rc<Value>, p: Position, q: Position)
    requires n1@ != n2@, n1@ != n3@, n2@ != n3@, kind(*v2) == kind(*w2)
    ensures
        // {n1 = v1, n2 = v2}{n2 = w2, n3 = w3} == {n1 = v1, n2 = w2, n3 = w3}
        merge_all((seq![(n1, v1), (n2, v2)], seq![(p, p), (p, p)]), (seq![(n2, w2), (n3, w3)], seq![(q, q), (q, q)]), 2)
            == Some((seq![(n1, v1), (n2, w2), (n3, w3)], seq![(p, p), (p, q), (q, q)]))
{
    let t: Fields = (seq![(n1, v1), (n2, v2)], seq![(p, p), (p, p)]);
    let ov: Fields = (seq![(n2, w2), (n3, w3)], seq![(q, q), (q, q)]);
    reveal_with_fuel(merge_all, 3); reveal_with_fuel(find_field, 4);
    let u = merge_all(t, ov, 1)->0;
    assert(u.0 =~= seq![(n1, v1), (n2, w2)] && u.1 =~= seq![(p, p), (p, q)]);
    let w = merge_all(t, ov, 2)->0;
    assert(w.0 =~= seq![(n1, v1), (n2, w2), (n3, w3)] && w.1 =~= seq![(p, p), (p, q), (q, q)]);
}

// ---------- `in` (reference: "The `in` operator tests for the existence of a field in a tuple or an element in a
// list"; "Lists do a deep equal comparison when testing for the existence of an element") ----------
// The NEEDLE is on top of the stack, the container below it.  A string container tests for a substring (not in
// the reference; a non-string needle is then simply not contained).  Any other container fails the build, and so
// does a tuple container with a needle that is not a field name.
pub open spec fn list_has(elems: Seq<Rc<Value>>, x: Value) -> bool {
    exists|i: int| 0 <= i < elems.len() && veq(*#[trigger] elems[i], x)
}
pub open spec fn is_substring(s: Seq<char>, p: Seq<char>) -> bool {
    exists|i: int| 0 <= i && i + p.len() <= s.len() && #[trigger] s.subrange(i, i + p.len()) == p
}
pub open spec fn in_spec(hay: Value, needle: Value) -> Option<bool> {
    match hay {
        C(Tuple(flds, _)) => match needle { P(Str(name)) => Some(find_field(flds@, name@, 0) >= 0), _ => None },
        C(List(elems, _)) => Some(list_has(elems@, needle)),
        P(Str(s)) => match needle { P(Str(p)) => Some(is_substring(s@, p@)), _ => Some(false) },
        _ => None,
    }
}
// std `str::contains(&str)`: substring test (R9' model, assumed)
#[verifier::external_body]
pub fn verif_str_contains(s: &Rc<str>, part: &Rc<str>) -> (r: bool)
    ensures r == is_substring(s@, part@)
{ s.contains(part.as_ref()) }

//@ extract src/build/opcode/vm.rs :: impl VM :: fn op_exist
//@   rule R1 R3
//@   subst "match *left.as_ref() {" => "match left.as_ref() {"
//@   subst "for (nm, _) in flds {" => "for (nm, _) in flds.iter() {"
//@   subst "for e in elems {" => "for e in elems.iter() {"
//@   subst "nm == name" => "verif_rcstr_eq(nm, name)"
// (whichever side the source compares the element with)
//@   subst? "e == &right" => "e.as_ref().eq(right.as_ref())"
//@   subst? "e == &left" => "e.as_ref().eq(left.as_ref())"
//@   subst "s.contains(part.as_ref())" => "verif_str_contains(s, part)"
//@   ret r
//@   sig <<<
        requires old(self).stack@.len() >= 2
        ensures ({
            let a = *old(self); let b = *final(self);
            &&& frame(a, b)
            &&& match in_spec(opnd(a, 2), opnd(a, 1)) {
                    Some(x) => r is Ok && replaced(a, b, 2) && opnd(b, 1) == P(Bool(x)) && opnd_pos(b, 1) == pos,
                    None => r is Err,
                }
        })
//@   >>>
//@   loop 1 indexed <<<
                        invariant
                            i__1 <= it__1@.len(), it__1@ == flds@,
                            find_field(flds@, name@, 0) == find_field(flds@, name@, i__1 as int),
                            old(self).stack@.len() >= 2, frame(*old(self), *self),
                            self.stack@ =~= old(self).stack@.subrange(0, old(self).stack@.len() - 2),
                            *left == opnd(*old(self), 2), *right == opnd(*old(self), 1),
                            *left matches C(Tuple(f2, _)) && f2 == *flds, *right matches P(Str(n2)) && n2 == *name,
                        decreases it__1@.len() - i__1
//@   >>>
//@   before "if verif_rcstr_eq(nm, name) {" <<<
                        proof { lemma_find_field(flds@, name@, i__1 as int - 1); }
//@   >>>
//@   loop_body_end 1 <<<
                        assert(find_field(flds@, name@, i__1 as int - 1) == find_field(flds@, name@, i__1 as int));
//@   >>>
//@   after_loop 1 <<<
                    proof { lemma_find_field(flds@, name@, flds@.len() as int); }
//@   >>>
//@   loop 2 indexed <<<
                    invariant
                        i__2 <= it__2@.len(), it__2@ == elems@,
                        forall|j: int| 0 <= j < i__2 ==> !veq(*#[trigger] elems@[j], *right),
                        old(self).stack@.len() >= 2, frame(*old(self), *self),
                        self.stack@ =~= old(self).stack@.subrange(0, old(self).stack@.len() - 2),
                        *left == opnd(*old(self), 2), *right == opnd(*old(self), 1),
                        *left matches C(List(e2, _)) && e2 == *elems,
                    decreases it__2@.len() - i__2
//@   >>>
//@   mutant in_list_compares_container "e == &right" => "e == &left" expect op_exist
//@   mutant in_tuple_found_false "if verif_rcstr_eq(nm, name) { self.push(Rc::new(P(Bool(true))), pos)?;" => "if verif_rcstr_eq(nm, name) { self.push(Rc::new(P(Bool(false))), pos)?;" expect op_exist
//@   mutant in_string_sides_swapped "verif_str_contains(s, part)" => "verif_str_contains(part, s)" expect op_exist
//@   mutant in_operands_swapped "let (right, right_pos) = self.pop()?; let (left, left_pos) = self.pop()?;" => "let (left, left_pos) = self.pop()?; let (right, right_pos) = self.pop()?;" expect op_exist
//@   mutant in_bad_container_false "_ => { return Err(Error::new( verif_msg(), left_pos, )); }" => "_ => { }" expect op_exist
//@ end


// ---------- text of a value (convert.rs `impl From<&Primitive> for Rc<str>` / `impl From<&Value> for Rc<str>`) ----------
// Used by the `str(..)` cast and by Render (format strings).  A string renders as ITSELF, a boolean as true / false,
// NULL as NULL; the decimal text of a number is std's Display (uninterpreted), so is the text of a list or tuple
// (convert.rs `impl From<&Composite>`, recursion through trait dispatch - outside this unit).
pub uninterp spec fn i64_text(i: i64) -> Seq<char>;
pub uninterp spec fn f64_text(f: f64) -> Seq<char>;
pub uninterp spec fn composite_text(c: Composite) -> Seq<char>;
pub open spec fn prim_text(p: Primitive) -> Seq<char> {
    match p {
        Int(i) => i64_text(i),
        Float(f) => f64_text(f),
        Str(s) => s@,
        Bool(b) => if b { "true"@ } else { "false"@ },
        Empty => "NULL"@,
    }
}
pub open spec fn render_text(v: Value) -> Seq<char> {
    match v {
        S(s) => s@,
        P(p) => prim_text(p),
        C(c) => composite_text(c),
        T(_) => "<Thunk>"@,
        F(_) => "<Func>"@,
        M(_) => "<Module>"@,
        K(_) => "<Constraint>"@,
    }
}
// std Display of i64 / f64 / str / bool through `format!("{}", x).into()` (R2 assumption: Display of a str is the
// str, of a bool `true` / `false`)
#[verifier::external_body]
pub fn verif_display_i64(i: i64) -> (r: Rc<str>) ensures r@ == i64_text(i) { unimplemented!() }
#[verifier::external_body]
pub fn verif_display_f64(f: f64) -> (r: Rc<str>) ensures r@ == f64_text(f) { unimplemented!() }
#[verifier::external_body]
pub fn verif_display_str(s: &Rc<str>) -> (r: Rc<str>) ensures r@ == s@ { unimplemented!() }
#[verifier::external_body]
pub fn verif_display_bool(b: bool) -> (r: Rc<str>) ensures r@ == (if b { "true"@ } else { "false"@ }) { unimplemented!() }
#[verifier::external_body]
pub fn verif_render_composite(c: &Composite) -> (r: Rc<str>) ensures r@ == composite_text(*c) { unimplemented!() }

// the `From` impls live in inherent impls of marker types (Verus does not resolve `x.into()` to a local impl with a
// usable contract); every `.into()` in them is rewritten to `.v_into()`, whose impl is chosen by the receiver's type
// exactly as rustc chooses the `From` impl.
pub struct RenderPrim {}
pub struct RenderValue {}
impl VIntoRcStr for &Primitive {
    open spec fn v_text(&self) -> Seq<char> { prim_text(**self) }
    fn v_into(self) -> (r: Rc<str>) { RenderPrim::from(self) }
}
impl VIntoRcStr for &Composite {
    open spec fn v_text(&self) -> Seq<char> { composite_text(**self) }
    fn v_into(self) -> (r: Rc<str>) { verif_render_composite(self) }
}
//@ extract src/build/opcode/convert.rs :: impl From<&Primitive> for Rc<str> :: fn from
//@   impl_header impl RenderPrim
//@   subst "fn from(p: &Primitive) -> Self" => "fn from(p: &Primitive) -> Rc<str>"
//@   subst "format!(\"{}\", i).into()" => "verif_display_i64(*i)"
//@   subst "format!(\"{}\", f).into()" => "verif_display_f64(*f)"
//@   subst "format!(\"{}\", s).into()" => "verif_display_str(s)"
//@   subst "format!(\"{}\", b).into()" => "verif_display_bool(*b)"
//@   subst all ".into()" => ".v_into()"
//@   ret r
//@   sig <<<
        ensures r@ == prim_text(*p)
//@   >>>
// the pinned tree's `str(..)` cast went through Display for Primitive, which QUOTES strings (a diagnostic format)
//@   mutant text_of_string_not_itself "verif_display_str(s)" => "verif_display_str(&verif_str_into_rcstr(\"\\\"\"))" expect from
//@   mutant text_of_null_empty "\"NULL\".v_into()" => "\"\".v_into()" expect from
//@ end
//@ extract src/build/opcode/convert.rs :: impl From<&Value> for Rc<str> :: fn from
//@   impl_header impl RenderValue
//@   rule R3
//@   subst "fn from(v: &Value) -> Self" => "fn from(v: &Value) -> Rc<str>"
//@   subst all ".into()" => ".v_into()"
//@   ret r
//@   sig <<<
        ensures r@ == render_text(*v)
//@   >>>
//@   mutant render_symbol_placeholder "S(s) => s.clone()" => "S(s) => \"<Symbol>\".v_into()" expect from
//@ end

//@ extract src/build/opcode/vm.rs :: impl VM :: fn op_render
//@   subst "val.as_ref().into()" => "RenderValue::from(val.as_ref())"
//@   ret r
//@   sig <<<
        requires old(self).stack@.len() >= 1
        ensures ({
            let a = *old(self); let b = *final(self);
            &&& frame(a, b) && r is Ok && replaced(a, b, 1) && opnd_pos(b, 1) == opnd_pos(a, 1)
            &&& opnd(b, 1) matches P(Str(t)) && t@ == render_text(opnd(a, 1))
        })
//@   >>>
//@   mutant render_operand_left "let (val, pos) = self.pop()?;" => "let (val, pos) = self.pop()?; self.push(val.clone(), pos.clone())?;" expect op_render
//@   mutant render_keeps_value "self.push(Rc::new(P(Str(RenderValue::from(val.as_ref())))), pos)?;" => "self.push(val.clone(), pos)?;" expect op_render
//@ end

// ---------- casts (reference: "Casting": `int(e)`, `float(e)`, `str(e)`, `bool(e)` between PRIMITIVE types; "a failed
// cast is a compile error"; "If the expressions do not resolve to a primitive type that is castable to the desired
// type then a compile error will occur") ----------
// The cast table (convert.rs): int <- int | float (truncated, std `as`) | a string that parses as an integer;
// float <- float | int | a string that parses as a float; bool <- bool | the strings "true" / "false";
// str <- every primitive (its text; a string is unchanged).  Everything else fails the build.
pub uninterp spec fn parse_i64(s: Seq<char>) -> Option<i64>;   // std `str::parse::<i64>`
pub uninterp spec fn parse_f64(s: Seq<char>) -> Option<f64>;   // std `str::parse::<f64>`
pub uninterp spec fn f64_to_i64(f: f64) -> i64;                // std `f as i64`
pub uninterp spec fn i64_to_f64(i: i64) -> f64;                // std `i as f64`
pub open spec fn int_cast(p: Primitive) -> Option<i64> {
    match p { Int(i) => Some(i), Float(f) => Some(f64_to_i64(f)), Str(s) => parse_i64(s@), _ => None }
}
pub open spec fn float_cast(p: Primitive) -> Option<f64> {
    match p { Float(f) => Some(f), Int(i) => Some(i64_to_f64(i)), Str(s) => parse_f64(s@), _ => None }
}
pub open spec fn bool_cast(p: Primitive) -> Option<bool> {
    match p { Bool(b) => Some(b), Str(s) => if s@ == "true"@ { Some(true) } else if s@ == "false"@ { Some(false) } else { None }, _ => None }
}
#[verifier::external_body]
pub fn verif_parse_i64(s: &Rc<str>) -> (r: Result<i64, ()>)
    ensures match parse_i64(s@) { Some(i) => r == Ok::<i64, ()>(i), None => r is Err }
{ unimplemented!() }
#[verifier::external_body]
pub fn verif_parse_f64(s: &Rc<str>) -> (r: Result<f64, ()>)
    ensures match parse_f64(s@) { Some(f) => r == Ok::<f64, ()>(f), None => r is Err }
{ unimplemented!() }
#[verifier::external_body]
pub fn verif_f64_to_i64(f: f64) -> (r: i64) ensures r == f64_to_i64(f) { f as i64 }
#[verifier::external_body]
pub fn verif_i64_to_f64(i: i64) -> (r: f64) ensures r == i64_to_f64(i) { i as f64 }
// R0: derived Clone of Primitive is structural
impl Clone for Primitive {
    #[verifier::external_body]
    fn clone(&self) -> (r: Self) ensures r == *self { unimplemented!() }
}
// a `str` IS its character sequence (the view is injective): lets Verus decide `match s { "true" => .. }`
pub mod strax {
    use super::*;
    pub uninterp spec fn str_of(s: Seq<char>) -> &'static str;
    pub broadcast axiom fn axiom_str_view_injective(s: &str)
        ensures str_of(#[trigger] s@) == s;
}

// convert::Error (the failed cast's diagnostic), renamed: the unit is one flat crate
//@ extract src/build/opcode/convert.rs :: struct Error
//@   rule RV
//@   subst "pub struct Error" => "pub struct ConvError"
//@ end
impl Error {
    // error.rs `impl From<convert::Error> for Error`: the message only
    #[verifier::external_body]
    pub fn from_conv(e: ConvError) -> Self { unimplemented!() }
}
pub struct CastI64 {}
pub struct CastF64 {}
pub struct CastBool {}
//@ extract src/build/opcode/convert.rs :: impl TryFrom<&Primitive> for i64 :: fn try_from
//@   impl_header impl CastI64
//@   subst "Result<Self, Self::Error>" => "Result<i64, ConvError>"
//@   subst all "Error {" => "ConvError {"
//@   subst "s.parse::<i64>()" => "verif_parse_i64(s)"
//@   subst "*f as i64" => "verif_f64_to_i64(*f)"
//@   ret r
//@   sig <<<
        ensures match int_cast(*p) { Some(i) => r == Ok::<i64, ConvError>(i), None => r is Err }
//@   >>>
//@   mutant int_of_bool_zero "Primitive::Bool(_) | Primitive::Empty => Err(ConvError { val: p.clone(), cast_type: CastType::Int, })" => "Primitive::Bool(_) | Primitive::Empty => Ok(0)" expect try_from
//@   mutant int_of_bad_string_zero "Err(_) => Err(ConvError { val: Primitive::Str(s.clone()), cast_type: CastType::Int, })" => "Err(_) => Ok(0)" expect try_from
//@ end
//@ extract src/build/opcode/convert.rs :: impl TryFrom<&Primitive> for f64 :: fn try_from
//@   impl_header impl CastF64
//@   subst "Result<Self, Self::Error>" => "Result<f64, ConvError>"
//@   subst all "Error {" => "ConvError {"
//@   subst "s.parse::<f64>()" => "verif_parse_f64(s)"
//@   subst "*i as f64" => "verif_i64_to_f64(*i)"
//@   ret r
//@   sig <<<
        ensures match float_cast(*p) { Some(f) => r == Ok::<f64, ConvError>(f), None => r is Err }
//@   >>>
//@   mutant float_of_int_zero "Primitive::Int(i) => Ok(verif_i64_to_f64(*i))" => "Primitive::Int(i) => Ok(0.0)" expect try_from
//@   mutant float_of_null_zero "Primitive::Bool(_) | Primitive::Empty => Err(ConvError { val: p.clone(), cast_type: CastType::Int, })" => "Primitive::Bool(_) | Primitive::Empty => Ok(0.0)" expect try_from
//@ end
//@ extract src/build/opcode/convert.rs :: impl TryFrom<&Primitive> for bool :: fn try_from
//@   impl_header impl CastBool
//@   subst "Result<Self, Self::Error>" => "Result<bool, ConvError>"
//@   subst all "Error {" => "ConvError {"
//@   ret r
//@   sig <<<
        ensures match bool_cast(*p) { Some(b) => r == Ok::<bool, ConvError>(b), None => r is Err }
//@   >>>
//@   body_start <<<
        broadcast use strax::axiom_str_view_injective;
        proof { reveal_strlit("true"); reveal_strlit("false"); assert("true"@.len() == 4 && "false"@.len() == 5); }
//@   >>>
//@   mutant bool_true_false_swapped "\"true\" => Ok(true)" => "\"true\" => Ok(false)" expect try_from
//@   mutant bool_of_int_truthy "Primitive::Empty | Primitive::Int(_) | Primitive::Float(_) => Err(ConvError { val: p.clone(), cast_type: CastType::Int, })" => "Primitive::Empty | Primitive::Int(_) | Primitive::Float(_) => Ok(true)" expect try_from
//@ end

// `p.try_into()?` in do_cast: std's blanket `TryInto` picks the `TryFrom` impl by the expected type, `?` converts
// convert::Error into opcode::Error (error.rs `From`).  Same dispatch through a local trait (R7).
pub trait CastTo<T> {
    spec fn cast_spec(&self) -> Option<T>;
    fn cast_to(&self) -> (r: Result<T, Error>)
        ensures match self.cast_spec() { Some(v) => r == Ok::<T, Error>(v), None => r is Err };
}
impl CastTo<i64> for Primitive {
    open spec fn cast_spec(&self) -> Option<i64> { int_cast(*self) }
    fn cast_to(&self) -> (r: Result<i64, Error>) { match CastI64::try_from(self) { Ok(v) => Ok(v), Err(e) => Err(Error::from_conv(e)) } }
}
impl CastTo<f64> for Primitive {
    open spec fn cast_spec(&self) -> Option<f64> { float_cast(*self) }
    fn cast_to(&self) -> (r: Result<f64, Error>) { match CastF64::try_from(self) { Ok(v) => Ok(v), Err(e) => Err(Error::from_conv(e)) } }
}
impl CastTo<bool> for Primitive {
    open spec fn cast_spec(&self) -> Option<bool> { bool_cast(*self) }
    fn cast_to(&self) -> (r: Result<bool, Error>) { match CastBool::try_from(self) { Ok(v) => Ok(v), Err(e) => Err(Error::from_conv(e)) } }
}

pub open spec fn cast_defined(t: CastType, v: Value) -> bool {
    v matches P(p) && match t {
        CastType::Str => true,
        CastType::Int => int_cast(p) is Some,
        CastType::Float => float_cast(p) is Some,
        CastType::Bool => bool_cast(p) is Some,
    }
}
pub open spec fn cast_result(t: CastType, v: Value, out: Value) -> bool {
    v matches P(p) && match t {
        CastType::Str => out matches P(Str(s)) && s@ == prim_text(p),
        CastType::Int => out == P(Int(int_cast(p)->0)),
        CastType::Float => out == P(Float(float_cast(p)->0)),
        CastType::Bool => out == P(Bool(bool_cast(p)->0)),
    }
}
//@ extract src/build/opcode/vm.rs :: impl VM :: fn do_cast
//@   rule R1
//@   subst all "p.try_into()" => "p.cast_to()"
//@   subst? "p.into()" => "p.v_into()"
// (the pinned tree rendered through Display for Primitive: `format!("{}", p).into()`, which R1 makes an opaque text)
//@   subst? "Primitive::Str(verif_msg())" => "Primitive::Str(verif_msg().into())"
//@   ret r
//@   sig <<<
        ensures
            frame(*old(self), *final(self)),
            cast_defined(t, *val) ==> r is Ok && final(self).stack@.len() == old(self).stack@.len() + 1
                && final(self).stack@.drop_last() =~= old(self).stack@ && final(self).stack@.last().1 == pos
                && cast_result(t, *val, *final(self).stack@.last().0),
            // not castable - in particular a list, tuple, function or module - is a build error, never a silent no-op
            !cast_defined(t, *val) ==> r is Err && final(self).stack@ == old(self).stack@,
//@   >>>
// the pinned tree: a non-primitive operand pushed nothing and reported success (the next pop then hit unreachable!())
//@   mutant cast_non_primitive_noop "Err(Error::new( verif_msg(), pos, ))" => "Ok(())" expect do_cast
//@   mutant cast_int_float_swapped "CastType::Int => Value::P(Primitive::Int(p.cast_to()?)), CastType::Float => Value::P(Primitive::Float(p.cast_to()?))," => "CastType::Float => Value::P(Primitive::Int(p.cast_to()?)), CastType::Int => Value::P(Primitive::Float(p.cast_to()?))," expect do_cast
//@   mutant cast_bool_is_text "CastType::Bool => Value::P(Primitive::Bool(p.cast_to()?))," => "CastType::Bool => Value::P(Primitive::Str(p.v_into()))," expect do_cast
//@ end
//@ extract src/build/opcode/error.rs :: macro decorate_error
//@ end
//@ extract src/build/opcode/vm.rs :: impl VM :: fn op_cast
//@   ret r
//@   sig <<<
        requires old(self).stack@.len() >= 1
        ensures ({
            let a = *old(self); let b = *final(self);
            &&& frame(a, b)
            &&& (cast_defined(t, opnd(a, 1)) ==> r is Ok && replaced(a, b, 1) && opnd_pos(b, 1) == opnd_pos(a, 1)
                    && cast_result(t, opnd(a, 1), opnd(b, 1)))
            &&& (!cast_defined(t, opnd(a, 1)) ==> r is Err)
        })
//@   >>>
//@   mutant cast_operand_left "let (val, pos) = self.pop()?;" => "let (val, pos) = self.pop()?; self.push(val.clone(), pos.clone())?;" expect op_cast
//@   mutant cast_always_str "self.do_cast(t, &val, pos.clone())" => "self.do_cast(CastType::Str, &val, pos.clone())" expect op_cast
//@ end

} // verus!

fn main() {}
